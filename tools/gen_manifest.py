#!/usr/bin/env python3
"""Generate /verif/MANIFEST.json from the table below (kept in one place so it stays valid)."""
import json, os, subprocess

VERIF = os.path.dirname(os.path.dirname(os.path.abspath(__file__)))

def commits():
    out = subprocess.run(["git", "-C", "/repo", "log", "--format=%h %s"], stdout=subprocess.PIPE, text=True).stdout
    return [l.split()[0] for l in out.splitlines() if l.split(" ", 1)[1].startswith("verif:")]

CHECKS = {
 "C01": ("model-based testing: proptest-generated call histories with state-aware argument resolution, lock-step against a reference tree filesystem; greedy op-deletion shrinking",
         "Random histories (up to 40/80-200 calls; every trait method, builders, handles; 8 path spellings) are executed on Memfs and on a reference model written from the trait docs; every result and the full dump-derived tree are compared after every step, failed single-target calls must leave the raw state untouched.",
         "reference model harness/src/fsmodel.rs (rules + admitted sets: DESIGN.md appendix A); hook H2 dump; paths through intermediate links excluded", "4 C01"),
 "C02": ("differential testing: bounded-exhaustive (tree x call) pairs and proptest histories executed on Memfs and on Stdfs (tmpfs sandbox), observed by an independent std::fs walker",
         "Every in-domain tree of a two-level namespace is mirrored under the same absolute prefix in Memfs and - from the Memfs dump, with std::fs only - on tmpfs (observers must agree first); every single-path call form on 10 paths and every two-path form on all ordered pairs, plus random histories: same Ok/Err, same values, same tree (names, kinds, bytes, link targets, permission bits; default owners renamed).",
         "kernel/tmpfs semantics; euid 0 and, for a sample, 65534; the inherited umask 022; error kinds are not compared across backends; two signed known findings (Entry::mode of links)", "4 C02"),
 "C03": ("stateful property-based testing: unrestricted generated histories with an 8-clause structural invariant over the raw Memfs dump after every step",
         "Histories with wild arguments (through links, root, empty, long '..' chains, huge names, nested src/dst, all builder options, failing calls) and after every step the raw indexes must form a well-formed tree and agree with the public API view.",
         "hook H2 dump is faithful; invariant list in harness/src/fsapply.rs::integrity", "4 C03"),
 "C04": ("controlled-scheduler schedule enumeration (generated programs x all interleavings at lock-section granularity) with a linearizability oracle; plus uncontrolled stress",
         "Real threads are serialised at every MemfsGuard acquisition (hook H1); for each small program every interleaving is enumerated depth-first and each execution's results and final tree must equal some program-order and real-time respecting sequential execution; nested acquisition, panics, non-returning calls, lost appends and integrity at quiescence are checked on every execution.",
         "hook H1 reports every guard acquisition; all shared Memfs state is behind that lock; sequential specification = Memfs single-threaded", "4 C04"),
 "C05": ("bounded-exhaustive string enumeration + seeded random strings vs a reference abs(); generated environments in child processes; metamorphic spelling-independence test on both backends",
         "abs() on every string over a 7-symbol alphabet up to length 5/6 x 4 cwds against a reference (trim protocol, expand, Go-Clean, lexical join), idempotence, form, independence from filesystem content, Stdfs==Memfs for the process cwd and in child processes with generated HOME/variables/cwds, HOME changing within the process; and for every call form x path x 14 spellings: the call with the respelled path and the call with abs(path) on two fresh replicas give the same result and tree (Memfs and tmpfs Stdfs).",
         "ref_abs/ref_expand/ref_clean (harness/src/refpath.rs); 'no IO' checked behaviourally only", "4 C05"),
 "C06": ("model-based testing: proptest-generated file-operation histories on both backends vs a byte-vector model, every file read back after every step",
         "Histories over six files in two directories (write/append/line helpers/handles/copy/move/remove, adversarial byte data up to 16 KiB) on Memfs and on a tmpfs Stdfs sandbox; after every step every path is read three ways (and via std::fs::read on disk) and compared with the model.",
         "byte-vector model in harness/src/props/c06.rs; std::fs as independent observer; admitted set for empty-line helpers", "4 C06"),
 "C07": ("differential property-based testing: generated read/seek scripts vs std::io::Cursor in lock step; generated chunk/flush/drop schedules with read-back",
         "Read handles from both backends are driven by generated scripts (extreme offsets included) in lock step with std::io::Cursor: same result and same position after every call; write/append handles with arbitrary chunking, flush points and drop point must make exactly the bytes written so far visible at each flush and at drop.",
         "std::io::Cursor as reference; kernel limits on file offsets (>2^62 excluded on Stdfs)", "4 C07"),
 "C08": ("property-based testing: proptest-generated and hand-made trees x the full cross-product of traversal options vs a reference traversal; listing helpers vs the reference model; both backends",
         "For each tree all 4800 option sets (depth windows in both call orders, dirs/files/custom filter, follow, five orderings, contents_first, descriptor cap 1/2/default via hook H3) from two roots on Memfs and for a part on a tmpfs Stdfs copy: multiset of yielded (path, alt, kind) incl. LinkLooping items, exact order when sorted, parent/contents order otherwise, termination bound; paths/dirs/files/all_* on every path vs the model and vs exists/is_dir/is_file.",
         "reference traversal in harness/src/props/c08.rs; equal-name sibling ties, link->link under follow and min>max windows are excluded (counted)", "4 C08"),
 "C09": ("bounded-exhaustive enumeration of trees x (src,dst) pairs x option sets with postcondition predicates over before/after dumps",
         "All 3025 trees of a two-level namespace (files, dirs, links incl. dangling, varied modes/owners) x all 144 ordered pairs of 12 argument paths x {copy, chmod_all, chmod_dirs, chmod_files, follow, move_p} on Memfs (quick: a seeded third of the trees); postconditions on the dumps before/after: source untouched, every source entry copied faithfully, modes of new entries, existing entries kept, no collateral change, move relocates exactly, failed move changes nothing, C03 invariants.",
         "hook H2 dump; placement under follow with links in the source is only frame-checked; follow with links in the source is not run on Stdfs", "4 C09"),
 "C10": ("bounded-exhaustive enumeration of (link position, target position, target kind, spelling) with round-trip and frame oracles on both backends",
         "Every link/target position pair up to depth 3/4, five target kinds, four spellings on Memfs and a seeded part on a tmpfs Stdfs sandbox (std::fs::read_link as observer): readlink/readlink_abs round trip, link exclusion, recorded kind, readlink on non-links, follow() swap semantics, symlink over an existing link, chmod/chown/remove acting on the link only.",
         "ref_clean/ref_relative; kernel symlink semantics on tmpfs; uid 0 for chown", "4 C10"),
 "C11": ("bounded-exhaustive enumeration (512 modes x 945 clauses x kinds, double clauses, octal values, corrupted expressions) vs a reference grammar interpreter; model-based random trees x option sets",
         "Every permission value x every well-formed single clause x {file,dir} (links on 64 values), sampled/all double clauses, corruptions of well-formed expressions, octal values, the same clauses on a tmpfs Stdfs sandbox, compared with a reference interpreter of the documented grammar; random trees with one chmod/chown builder call under every option combination compared entry by entry with the reference model.",
         "reference interpreter chmod_sym (harness/src/fsmodel.rs); lenient extensions of the grammar are not asserted; octal 0 is a recorded known finding", "4 C11"),
 "C12": ("bounded-exhaustive adversarial argument enumeration + seeded random arguments for every public function, with a catch_unwind / CPU-watchdog / post-call usability oracle",
         "Every call form of the Memfs API on every string over a 19-symbol adversarial alphabet up to length 2/3 from fresh and populated instances (pairs for two-path calls), random long / deep / huge arguments, every public helper and extension function, read-handle seek scripts: no panic, returns within a CPU budget, C03 invariants and a probe sequence succeed afterwards.",
         "10-20 s thread-CPU budget stands for 'bounded time'; non-UTF-8 paths out of domain", "4 C12"),
 "C13": ("differential testing: the same generated histories and a full method x path matrix executed directly, through Vfs::Memfs and through upcast(); per-accessor comparison inner entry vs VfsEntry",
         "A matrix of every call form x every path (pairs for two-path calls) of a mixed scenario plus random histories are executed on a plain Memfs, through Vfs::Memfs and through Memfs::upcast() (also upcast at the end of the history): results, dump-derived trees and every Entry accessor / follow sequence must agree.",
         "failing multi-entry calls are compared by Err-ness only (per-instance hash order); Stdfs vs Vfs::Stdfs is covered by C02's harness", "4 C13"),
 "C14": ("bounded-exhaustive enumeration + seeded random strings (proptest) vs an independent port of Go path.Clean",
         "Every string over {/ . a b} up to length 9/11 is compared with a reference port of Go's path.Clean, plus idempotence/absoluteness/non-emptiness; random adversarial strings beyond. Exhaustive inside the bound, sampled outside; no proof.",
         "ref_clean (harness/src/refpath.rs, unit-tested against Go's cleantests table), rustc/std", "4 C14"),
 "C15": ("bounded-exhaustive enumeration of strings and string pairs + seeded random (proptest), one executable law per clause",
         "All strings (len<=4/5) and ordered pairs (len<=3/4) over a 7-symbol alphabet with 2/3/4-byte characters are pushed through one law per clause of the statement (inverse, containment, component-split, protocol, concat, parse_paths); random longer inputs beyond the bound.",
         "std::path component/extension semantics; ref_trim_protocol", "4 C15"),
 "C16": ("bounded-exhaustive enumeration of path pairs + seeded random deep pairs (proptest), round-trip oracle",
         "All 14 641 ordered pairs of clean absolute paths (<=4 components, 3 names) and random deeper/multi-byte pairs: result shape, '..' count and clean(base/result)==path.",
         "ref_clean", "4 C16"),
 "C17": ("generated environments x grammar-generated templates, one child process per environment, vs a reference expansion (differential)",
         "HOME/V1/V2 each in 6 states (216 environments; quick: 40) x error-shape table + seeded grammar templates; each environment is evaluated in its own env_clear()ed child process and compared with a reference expansion written from the statement (component-level; textual and PathBuf::push readings admitted).",
         "ref_expand (harness/src/refpath.rs); templates outside the documented grammar only have to not panic", "4 C17"),
 "C18": ("cross-product of environment configurations, one child process each, vs reference lookup functions written from the XDG rules",
         "Getter cross-product (60 750 configurations in thorough, seeded 320 in quick), vfs.config_dir over every subset of candidate directories containing the file on Memfs and on a tmpfs Stdfs sandbox, getrids over SUDO_UID x SUDO_GID x (uid,gid).",
         "reference functions in harness/src/props/c18.rs; std::fs as the on-disk observer; admitted sets for set-but-empty variables", "4 C18"),
 "C19": ("bounded-exhaustive enumeration (lengths x index pairs, short strings, small defer programs) + seeded random (proptest) vs plain definitions",
         "slice/drop for all lengths 0..=8 x indices -10..=10 on three iterator sources, the simple adaptors, all short strings over a multi-byte alphabet, every small defer program (fallthrough/return/panic, nesting <=3) run with real defer guards under catch_unwind.",
         "Vec/str std semantics; the interpreter's own model of scope exit order", "4 C19"),
 "C20": ("model-based testing of the macros: proptest-generated states x every macro x every path (and near-miss second arguments) under catch_unwind, vs reference predicates/postconditions; both backends",
         "For every generated state each of the 19 macro forms is invoked on a freshly rebuilt state for every existing path, missing paths and the empty string (with matching / different / suffix-of-correct second arguments): checking macros panic iff the reference predicate is false and leave the state alone; acting macros never pass with a false postcondition nor fail with a true one; messages name the macro and the path. Memfs always, a part on a tmpfs Stdfs copy.",
         "reference predicates in harness/src/props/c20.rs; no_dir!/no_file! on another kind and copyfile! into a directory are not asserted", "4 C20"),
}

# what later strengthening rounds added (the evidence file's `rule` carries the full description)
ADDED = {
 "C01": "Later additions: names with a string-prefix pair, special-bit modes, a read-handle session compared with std::io::Cursor inside the read call form. The copy rule for a source link whose place at the destination is taken by a file or link (refused, or duplicated faithfully). Every sequence of 3 calls (thorough: a sample of those of 4) over a 67-form alphabet after 3 seed prefixes (history sweep: hidden bookkeeping one call leaves for the next). Invariant on every executed chmod: no link's own permission word changes. The history sweep runs with HOME removed from the environment. Creating calls with path arguments that are not valid UTF-8 (Latin-1 names from bytes): a reported failure leaves the complete state as it was.",
 "C02": "Later additions: every two-path call followed by reads of both paths, symbolic chmod with follow, read-handle sessions, a privilege-dropped worker (euid 65534) for a sample of the sweep. A recursive listing from the case root after every mutating call, refused ones included. Write/append handles opened and dropped untouched in the call alphabet. Link targets spelled relative to the link's directory in the two-path alphabet, with kind queries on the new link. Line helpers given empty lines.",
 "C03": "Later additions: persistent write/append handles in the histories; every (1,1) two-thread program over the C04 alphabet from two seed states, all interleavings, judged at quiescence. The same history sweep with the tree invariants as oracle. Creating, moving and removing calls with path arguments that are not valid UTF-8, after every seed prefix: the tree invariants still hold.",
 "C04": "Later additions: half of the programs run through the Vfs wrapper; every rich call form as a one-thread program (nested-guard detection); listed call forms racing 8 mutators; relative forms racing cwd changes; attribute queries racing replacing moves/chown/chmod; handle sessions racing replacers of their file. Uncontrolled rounds in which handles are dropped or flushed while other threads keep the lock busy (a write-back that gives up under contention loses data). Handle stress includes a write handle over existing content of the same length. Line helpers (append_lines / write_lines / append_line) as single steps in the alphabet; uncontrolled rounds are registered with the watchdog (a dead-locked round is reported, not waited for). Programs on a directory of 650 entries (one call vs an observer); Display / Debug rendering among the bystander queries under load. A write_all of more than a mebibyte racing every pair of calls that replace its file (all interleavings, linearizable); a multi-kilobyte write in the alphabet; relative paths above the cwd in the discovery alphabet.",
 "C05": "Later additions: cwd entered through a symlink; chmod_b/chown_b executed after a later set_cwd; Stdfs::abs from a child process whose cwd was deleted. Stdfs::abs of relative arguments from a child process whose cwd has a name that is not valid UTF-8.",
 "C06": "Later additions: persistent handles across steps; every program of length 5/6 over several append writers of one Stdfs file. Copies and moves from a missing source must leave every file's content alone. Multi-kilobyte valid text of 1-4 byte characters at every alignment. Writing calls addressed to a symlink that points at one of the files (also while it dangles). Persistent Memfs handles opened through a cwd-relative spelling with the cwd moving on right after. Content that begins with a byte order mark. A Stdfs copy onto a destination of equal length stamped up to a day newer or older than the source still duplicates the content; read_all / read_lines / read of pseudo files whose reported size is not their length agree with std::fs.",
 "C07": "Later additions: write preludes (file moved / copied / moved then copied) with a bystander check; several append writers on Stdfs. The handle is opened through unclean spellings of the file's path. Memfs handles opened through a cwd-relative spelling with a cwd change while open. read_exact steps in the read scripts; handles dropped while their thread unwinds from a panic. read_to_end into buffers that already hold bytes.",
 "C08": "Later additions: a fourth hand-made tree (link chains, dangling link between directories; reference typed per backend); chains ending in an empty directory beyond the descriptor cap. Contradictory kind filters set in sequence (the last call decides). Component-wise name order of every listing helper. A consumer that removes a sibling not handed out yet between two next() calls: every entry present throughout is still yielded exactly once (both backends, sorted and unsorted).",
 "C09": "Later additions: two chmod options on one builder; a seeded sample of the cases also through Stdfs on a tmpfs copy of the tree (same predicates). Umask-sensitive directory modes (group/other write bits) in trees and options; placement rule for a following copy of a link to a link-free directory. A following copy over a link that leads back to an ancestor inside the source must not report success. Three moves across a mount point on Stdfs (skipped where no second writable device exists). Sticky-bit directories in the source tree; the same Copier executed twice and a Copier executed after its destination became a directory, Memfs vs Stdfs.",
 "C10": "Later additions: positions over a prefix-pair alphabet; recursive chmod/chown of the link's directory; non-recursive chown_b; clone of a followed entry. Re-creating an existing link through unclean spellings of its path. chown of a link to the owner its target already has (lstat as observer). Links whose targets lie under other top-level directories or are missing names longer than a file name may be. Link targets that are neither directory nor regular file (a unix socket, the null device, any block device found): neither is_symlink_dir nor is_symlink_file, entry kind neither.",
 "C11": "Later additions: corrupted first clause followed by a well-formed tail; octal values 0..=0o7777 on both backends; two hand-made trees x every path x every builder option combination. The hand-made trees x options also on Stdfs against the Memfs twin. Octal modes and a symbolic expression on one builder, in both orders. A malformed first clause must be reported for links too; a directed tree with a chain of links (Memfs vs Stdfs). Symbolic clauses applied to modes carrying set-uid / set-gid / sticky bits; follow through chains of exactly 1, 2, 39 and 40 links against Stdfs.",
 "C12": "Later additions: every program of length 4/5 over handles that outlive their file; every call form on a 60-level chain ending in an empty directory; characters whose lower-case form changes byte length; watchdog rule for blocked (dead-locked) calls. Every call form and recursive chmod_b variants on a bushy tree (several non-empty sub-directories per directory). Two links into each other's directory in the bushy tree; a panic during unwinding (imminent abort) is reported from the panic hook. Rounds in which one thread renders the instance while another keeps changing it. 66 000 directories in one parent and spread over three levels: every traversing call, sorted and unsorted, and a recursive chmod return them all.",
 "C13": "Later additions: wrapper vs unwrapped entry after every follow chain; the matrix on Stdfs vs Vfs::Stdfs twins incl. every handle program of length 4/5; builders executed after a cwd change; files with asymmetric permission classes. A third way for the Stdfs matrix: the associated functions Stdfs::<name> through a delegating adapter; builders split into creation and exec. The history sweep executed the four Memfs ways. Sticky / set-uid modes in the call alphabet; scenario siblings whose byte order differs from name order. The three Stdfs ways also agree on which error a call reports. set_cwd the three Stdfs ways in a child process, also onto a cwd reached through a link. The Stdfs twin parts run under umask 027; a read handle kept open across a rewrite, three ways. Links whose stored target text is absolute (made with std, not through the crate) in the twin scenario; mkfile_m / mkdir_m with modes 0 and 0o7777 among the twin calls.",
 "C14": "Later additions: every non-UTF-8 byte string over a 5-byte alphabet up to length 6/7. Deep inputs (200-1000 components) and scheme-, home- and variable-looking prefixes. Paths of 66 000 and of exactly 65 536 components with results known by construction (byte comparison).",
 "C19": "Later additions: the ends of the index type (isize::MIN/MAX and neighbours) for slice and drop. consume() on iterators whose size hint is not exact. take_while_p with a predicate that carries state, driven item by item and through fold. take_while_p over sources too long to collect whole. to_bool on the false values followed by line endings.",
 "C15": "Later additions: dir() of a path without a parent (the root in any spelling) fails. Scheme look-alikes whose case mappings collide with a scheme; colon lists with white space at entry ends. A second alphabet of characters that are separators or special elsewhere but ordinary here (backslash, 'C:', blank, '*', '?'), exhaustive to length 3 for every one- and two-argument law.",
 "C16": "Later additions: names with '~' and '$', case-variant names, non-UTF-8 names, paths that exist on disk behind a symlink. Sibling names whose encodings share their first byte(s) (日/本, é/ü), exhaustive to depth 3.",
 "C17": "Later additions: sequences of four environments inside one process; a variable whose value is not valid UTF-8. The home symbol at every position of absolute, relative and variable-led templates. Memfs::abs and Stdfs::abs refuse what expand() refuses and expand '~' before cleaning. Doubled separators right after the home symbol. Variable values that themselves contain '~'.",
 "C18": "Later additions: list entries '/', trailing separators, repeated entries; multi-component config names; ids above 2^31; bystander variables (TMPDIR ...). List entries with leading, trailing and only blanks (listed verbatim). A relative candidate directory looked up from a Memfs cwd below the root, with a namesake below the root. getrids also asked from a child process that gave up root. Candidate directories of vfs.config_dir that are symbolic links to directories (Stdfs).",
 "C20": "Later additions: hand-made create/remove/recreate and dangling-link states also on Stdfs; line-terminator near misses; where a new link points; feasibility rules for creating and removing macros. Unclean absolute spellings ('zz/..' detours) as macro arguments. Directed state with directories whose mode differs from the requested one only above the rwx triplets. A directed state with files whose bytes are not text. The path argument is an expression whose second evaluation would name a path of the opposite existence. read_all! on contents of 80..8200 bytes (character boundaries at and around plausible display caps) that equal / differ from the expectation; every kind macro on a unix socket and on the null device (Stdfs).",
}

def main():
    checks = []
    for pid in sorted(CHECKS):
        tech, text, base, ref = CHECKS[pid]
        if pid in ADDED:
            text = text + " " + ADDED[pid]
        checks.append({
            "property_id": pid,
            "quick_cmd": "./check %s quick" % pid,
            "thorough_cmd": "./check %s thorough" % pid,
            "evidence_file": "/verif/evidence/%s.json" % pid,
            "replay_cmd_template": "./check --replay {path}",
            "engine": "rvh",
            "level_claimed": {"category": "exploration", "text": text, "design_ref": "DESIGN.md section " + ref},
            "level_note": "trusted base: " + base + "; generated-input search never establishes absence outside the explored space",
            "technique": tech,
        })
    props = [json.loads(l)["id"] for l in open(os.path.join(VERIF, "properties.jsonl"))]
    na = [{"property_id": p, "reason": "check not built yet in this revision of the harness (planned: see DESIGN.md section 4)"}
          for p in props if p not in CHECKS]
    m = {
        "version": 1,
        "setup_cmd": "./check --build",
        "hooks": {
            "guard": "cargo feature 'verif' of the rivia crate (off by default)",
            "enable": "harness/Cargo.toml depends on rivia = { path = \"/repo\", features = [\"verif\"] }; every ./check rebuilds from /repo's working tree",
            "baseline_off_cmd": "cd /repo && cargo test --workspace --no-fail-fast --offline",
            "source_commits": commits(),
            "add_only": True,
        },
        "engines": [
            {"name": "rvh", "path": "/verif/harness", "serves_properties": sorted(CHECKS),
             "kind_free_text": "Rust binary: proptest 1.11 TestRunner-style generation with integrated shrinking, bounded-exhaustive enumerators, reference models, CPU-time watchdog, replay and evidence writer"},
        ],
        "checks": checks,
        "not_applicable": na,
        "notes": "Exit protocol: 0 held (KNOWN-FINDING lines allowed), 1 with 'VIOLATION property=<id> replay=<path>', 2 infrastructure/inconclusive. Known findings live in /verif/known_findings.json. Regression replays in /verif/replays/<id>/ run first on every check.",
    }
    json.dump(m, open(os.path.join(VERIF, "MANIFEST.json"), "w"), indent=1)
    print("MANIFEST.json written:", len(checks), "checks,", len(na), "not_applicable")

main()
