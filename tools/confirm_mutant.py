#!/usr/bin/env python3
"""Confirm a seeded change in a scratch worktree: applies, compiles, unit suite unchanged (224 pass),
demo fails with the change and passes without. Usage: confirm_mutant.py <mutant_dir> -> prints JSON."""
import json, os, shutil, subprocess, sys, re

WT = "/tmp/wt-confirm"
def sh(cmd, cwd=WT, timeout=1200):
    r = subprocess.run(cmd, shell=True, cwd=cwd, stdout=subprocess.PIPE, stderr=subprocess.STDOUT, text=True, timeout=timeout)
    return r.returncode, r.stdout

def main():
    d = os.path.abspath(sys.argv[1])
    if not os.path.isdir(WT):
        rc, out = sh("git -C /repo worktree add -q --detach %s HEAD" % WT, cwd="/")
        assert rc == 0, out
    sh("git reset -q --hard HEAD; git checkout -q --detach $(git -C /repo rev-parse HEAD) && git reset -q --hard HEAD; rm -f tests/demo_*.rs")
    res = {"mutant": d}
    rc, out = sh("git apply --3way %s/patch.diff || git apply %s/patch.diff" % (d, d))
    res["applies"] = rc == 0
    if rc != 0:
        res["apply_output"] = out[-800:]
        print(json.dumps(res, indent=1)); return 1
    rc, out = sh("cargo test --lib --offline 2>&1 | grep -E '^test result|FAILED|^error' | head -8")
    res["unit_suite"] = out.strip()
    m = re.search(r"(\d+) passed; (\d+) failed", out)
    res["suite_ok"] = bool(m and m.group(1) == "224" and m.group(2) == "1" and "test_user_ids" in out)
    name = "demo_" + re.sub(r"[^a-z0-9]", "_", os.path.basename(d).lower())
    os.makedirs(WT + "/tests", exist_ok=True)
    shutil.copy(d + "/demo.rs", "%s/tests/%s.rs" % (WT, name))
    rc, out = sh("cargo test --test %s --offline 2>&1 | grep -E '^test result|panicked|^error' | tail -8" % name)
    res["demo_with_change"] = out.strip()[-600:]
    res["demo_fails_with_change"] = "test result: FAILED" in out or "error: test failed" in out
    sh("git reset -q --hard HEAD")
    rc, out = sh("cargo test --test %s --offline 2>&1 | grep -E '^test result|panicked|^error' | head -6" % name)
    res["demo_clean"] = out.strip()[-300:]
    res["demo_passes_clean"] = "test result: ok" in out
    os.remove("%s/tests/%s.rs" % (WT, name))
    res["confirmed"] = res["suite_ok"] and res["demo_fails_with_change"] and res["demo_passes_clean"]
    print(json.dumps(res, indent=1))
    return 0 if res["confirmed"] else 1

sys.exit(main())
