#!/usr/bin/env python3
"""Regenerate the generated tables inside DESIGN.md (between BEGIN/END markers)."""
import json, glob, os, re, subprocess
V = "/verif"
def seeded_table():
    rows = ["| seeded change | breaks | what it needs to manifest | caught by (quick tier) |", "|---|---|---|---|"]
    for d in sorted(glob.glob(V + "/seeded/*/meta.json")):
        m = json.load(open(d)); name = os.path.basename(os.path.dirname(d))
        det = ", ".join(m.get("detected_by") or []) or ("— (" + (m.get("status") or "not detected yet")[:60] + ")")
        needs = (m.get("needs") or "").replace("\n", " ").replace("|", "/")
        rows.append("| %s | %s | %s | %s |" % (name, m.get("property"), needs[:230], det))
    return "\n".join(rows)
def fixed_table():
    k = json.load(open(V + "/known_findings.json"))
    out = ["Repaired (one `fix:` commit each; replays under replays/<id>/fixed-*):", ""]
    for f in k["fixed"]:
        out.append("* " + f[len("fixed: "):])
    out += ["", "Recorded, not repaired (printed as KNOWN-FINDING, exact signature match):", ""]
    for f in k["findings"]:
        out.append("* %s `%s` — %s *Why not repaired:* %s" % (f["property"], f["signature"], f["what"], f["why_not_fixed"]))
    return "\n".join(out)
s = open(V + "/DESIGN.md").read()
for tag, gen in (("SEEDED", seeded_table), ("FINDINGS", fixed_table)):
    s = re.sub(r"(<!-- BEGIN %s -->\n).*?(<!-- END %s -->)" % (tag, tag), lambda m: m.group(1) + gen() + "\n" + m.group(2), s, flags=re.S)
open(V + "/DESIGN.md", "w").write(s)
print("DESIGN.md tables regenerated")
