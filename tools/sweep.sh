#!/bin/sh
# usage: tools/sweep.sh <tier> <seed>...   -- runs every check, prints one line per check + any alarm lines
tier=$1; shift
for s in "$@"; do
  for p in C01 C02 C03 C04 C05 C06 C07 C08 C09 C10 C11 C12 C13 C14 C15 C16 C17 C18 C19 C20; do
    start=$(date +%s)
    out=$(VERIF_SEED=$s ./check $p $tier 2>&1); rc=$?
    end=$(date +%s)
    echo "seed=$s $p exit=$rc wall=$((end-start))s $(echo "$out" | grep -c '^KNOWN-FINDING') known"
    echo "$out" | grep -E "^VIOLATION|^violation detail|^INCONCLUSIVE|^check:" | cut -c1-300
  done
done
