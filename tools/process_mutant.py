#!/usr/bin/env python3
"""confirm + try + archive a seeded change. Usage: process_mutant.py <mutant_dir> <Cxx> [Cyy ...]"""
import json, os, shutil, subprocess, sys
d = os.path.abspath(sys.argv[1]); props = sys.argv[2:]
name = os.path.basename(d)
dst = "/verif/seeded/" + name
r = subprocess.run(["python3", "/verif/tools/confirm_mutant.py", d], stdout=subprocess.PIPE, text=True)
conf = json.loads(r.stdout)
if not conf.get("confirmed"):
    print(name, "NOT CONFIRMED", json.dumps(conf)[:600]); sys.exit(1)
r = subprocess.run(["python3", "/verif/tools/try_mutant.py", d + "/patch.diff"] + props, stdout=subprocess.PIPE, text=True)
last = r.stdout.strip().splitlines()[-1]
try:
    exits = json.loads(last)
except Exception:
    print(name, "TRY FAILED", r.stdout[-800:]); sys.exit(1)
os.makedirs(dst, exist_ok=True)
for f in ("patch.diff", "demo.rs"):
    if os.path.abspath(d) != os.path.abspath(dst):
        shutil.copy(os.path.join(d, f), os.path.join(dst, f))
meta = json.load(open(os.path.join(d, "meta.json")))
if "agent_ran" in meta and "ran" not in meta:
    meta["ran"] = meta["agent_ran"]
meta_out = {
    "property": meta.get("property"), "summary": meta.get("summary"), "needs": meta.get("needs"), "files": meta.get("files"),
    "agent_ran": meta.get("ran"),
    "confirmed_by_me": {"worktree": "/tmp/wt-confirm (scratch, removed afterwards)", "unit_suite": conf["unit_suite"], "demo_with_change": conf["demo_with_change"], "demo_clean": conf["demo_clean"]},
    "checks_run_quick": exits,
    "detected_by": [p for p, e in exits.items() if e == 1],
}
old = {}
if os.path.exists(dst + "/meta.json"):
    old = json.load(open(dst + "/meta.json"))
    meta_out["checks_run_quick"] = {**old.get("checks_run_quick", {}), **exits}
    meta_out["detected_by"] = sorted(set(old.get("detected_by", [])) | set(meta_out["detected_by"]))
json.dump(meta_out, open(dst + "/meta.json", "w"), indent=1, ensure_ascii=False)
viol = [l for l in r.stdout.splitlines() if "violation detail" in l][:2]
print(name, exits, "|", (viol[0][:200] if viol else ""))
