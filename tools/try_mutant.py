#!/usr/bin/env python3
"""Apply a seeded change to /repo, run the given checks (quick), undo it. Usage: try_mutant.py <patch.diff> <Cxx> [Cyy...] [--tier thorough]"""
import subprocess, sys, os, json
args = sys.argv[1:]
tier = "quick"
if "--tier" in args:
    i = args.index("--tier"); tier = args[i+1]; del args[i:i+2]
patch = os.path.abspath(args[0]); props = args[1:]
def sh(cmd, cwd="/verif"):
    r = subprocess.run(cmd, shell=True, cwd=cwd, stdout=subprocess.PIPE, stderr=subprocess.STDOUT, text=True)
    return r.returncode, r.stdout
rc, out = sh("git -C /repo status --short")
assert out.strip() == "", "repo not clean: " + out
rc, out = sh("git -C /repo apply --3way %s || git -C /repo apply %s" % (patch, patch))
if rc != 0:
    print("APPLY FAILED", out); sh("git -C /repo reset -q --hard HEAD"); sys.exit(2)
results = {}
try:
    for p in props:
        rc, out = sh("./check %s %s" % (p, tier))
        lines = [l for l in out.splitlines() if l.startswith("VIOLATION") or l.startswith("violation detail") or l.startswith("INCONCLUSIVE") or l.startswith("check:")]
        results[p] = {"exit": rc, "lines": [l[:400] for l in lines[:6]]}
        print(p, "exit", rc)
        for l in lines[:4]:
            print("   ", l[:300])
finally:
    sh("git -C /repo reset -q --hard HEAD")
    rc, out = sh("git -C /repo status --short")
    print("repo restored:", out.strip() == "")
print(json.dumps({k: v["exit"] for k, v in results.items()}))
