#!/bin/sh
# Run the repository's own suite with hooks OFF; print the lib test summary line and unexpected failures.
cd /repo && cargo test --workspace --no-fail-fast --offline --lib 2>&1 | grep -E "^test result|^test .* FAILED" | grep -v "test_user_ids"
