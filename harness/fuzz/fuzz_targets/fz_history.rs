#![no_main]
//! bytes -> op specs (hand decoded through arbitrary::Unstructured) -> lock-step history against the
//! reference model (C01 configuration) and integrity-only with wild arguments and live handles (C03/C12)
use arbitrary::Unstructured;
use libfuzzer_sys::fuzz_target;
use rvh::engine::*;
use rvh::fsdrive::*;
use rvh::fsgen::*;
use rvh::props::{c01, c03};
use std::sync::Once;

static INIT: Once = Once::new();

fn decode(u: &mut Unstructured) -> Vec<OpSpec> {
    let mut v = vec![];
    while !u.is_empty() && v.len() < 60 {
        let k = u.arbitrary::<u8>().unwrap_or(0);
        let a = Sel { class: u.arbitrary().unwrap_or(0), idx: u.arbitrary().unwrap_or(0), spell: u.arbitrary().unwrap_or(0) };
        let b = Sel { class: u.arbitrary().unwrap_or(0), idx: u.arbitrary().unwrap_or(0), spell: u.arbitrary().unwrap_or(0) };
        let n = u.arbitrary::<u32>().unwrap_or(0);
        let dl = (u.arbitrary::<u8>().unwrap_or(0) % 12) as usize;
        let d = u.bytes(dl.min(u.len())).map(|x| x.to_vec()).unwrap_or_default();
        v.push(OpSpec { k, a, b, n, d });
    }
    v
}

fuzz_target!(|data: &[u8]| {
    INIT.call_once(|| {
        Ctx::init("C01", Tier::Thorough, 0, true);
        install_panic_hook_keep_default();
    });
    let mut u = Unstructured::new(data);
    let wild = u.arbitrary::<bool>().unwrap_or(false);
    let specs = decode(&mut u);
    let (cfg, opts) = if wild { (c03::cfg_wild_small(), c03::OPTS) } else { (c01::cfg_small(), c01::OPTS) };
    let mut ex = 0u64;
    let (st, res) = run_specs(&specs, &cfg, &opts, &mut ex);
    if let Err(f) = res {
        if !ctx().is_known(&f.sig) {
            panic!("FUZZ-VIOLATION property={} signature={} :: {} :: ops {}", if wild { "C03" } else { "C01" }, f.sig, f.detail, serde_json::to_string(&st.ops).unwrap());
        }
    }
});
