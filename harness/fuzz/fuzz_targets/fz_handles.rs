#![no_main]
//! bytes -> read/seek script or write/flush/drop schedule on a Memfs handle vs std::io::Cursor (C07)
use arbitrary::Unstructured;
use libfuzzer_sys::fuzz_target;
use rvh::engine::*;
use rvh::props::c07::*;
use std::sync::Once;

static INIT: Once = Once::new();

fuzz_target!(|data: &[u8]| {
    INIT.call_once(|| {
        Ctx::init("C07", Tier::Thorough, 0, true);
    });
    let mut u = Unstructured::new(data);
    let write = u.arbitrary::<bool>().unwrap_or(false);
    let r = if write {
        let append = u.arbitrary().unwrap_or(false);
        let existing = if u.arbitrary().unwrap_or(false) {
            let l = (u.arbitrary::<u8>().unwrap_or(0) % 16) as usize;
            let l = l.min(u.len());
            Some(u.bytes(l).map(|x| x.to_vec()).unwrap_or_default())
        } else {
            None
        };
        let n = (u.arbitrary::<u8>().unwrap_or(0) % 6) as usize;
        let mut chunks = vec![];
        let mut flush = vec![];
        for _ in 0..n {
            let l = (u.arbitrary::<u8>().unwrap_or(0) % 20) as usize;
            chunks.push(u.bytes(l.min(u.len())).map(|x| x.to_vec()).unwrap_or_default());
            flush.push(u.arbitrary().unwrap_or(false));
        }
        let drop_after = (u.arbitrary::<u8>().unwrap_or(0) as usize) % (n + 1);
        // bit 32 of the prelude asks check_write to drop the handle while its thread unwinds from a panic the check
        // raises itself; libFuzzer's panic hook aborts the process on any panic, so that mode stays with the proptest part
        check_write(&WriteCase { stdfs: false, append, existing, chunks, flush, drop_after, prelude: u.arbitrary::<u8>().unwrap_or(0) & !32 })
    } else {
        let dl = (u.arbitrary::<u16>().unwrap_or(0) % 300) as usize;
        let data = u.bytes(dl.min(u.len())).map(|x| x.to_vec()).unwrap_or_default();
        let mut script = vec![];
        while !u.is_empty() && script.len() < 16 {
            script.push(match u.arbitrary::<u8>().unwrap_or(0) % 6 {
                0 | 1 => RStep::Read((u.arbitrary::<u8>().unwrap_or(0) % 64) as usize),
                2 => RStep::Start(u.arbitrary().unwrap_or(0)),
                3 => RStep::Current(u.arbitrary().unwrap_or(0)),
                4 => RStep::End(u.arbitrary().unwrap_or(0)),
                _ => RStep::ReadToEnd,
            });
        }
        check_read(&ReadCase { stdfs: false, data, script })
    };
    if let Err(f) = r {
        if !ctx().is_known(&f.sig) {
            panic!("FUZZ-VIOLATION property=C07 signature={} :: {}", f.sig, f.detail);
        }
    }
});
