#![no_main]
//! bytes -> two strings -> every pure path/string law of C14, C15, C16, C12 (the oracles are the
//! same functions the rvh checks use); a non-listed failure panics so libFuzzer keeps the input
use libfuzzer_sys::fuzz_target;
use rvh::engine::*;
use rvh::props::{c12, c14, c15, c16};
use std::sync::Once;

static INIT: Once = Once::new();

fn judge(prop: &str, r: CaseResult) {
    if let Err(f) = r {
        if !ctx().is_known(&f.sig) {
            panic!("FUZZ-VIOLATION property={} signature={} :: {}", prop, f.sig, f.detail);
        }
    }
}

fuzz_target!(|data: &[u8]| {
    INIT.call_once(|| {
        Ctx::init("C15", Tier::Thorough, 0, true);
    });
    let s = String::from_utf8_lossy(data).to_string();
    let (a, b) = match s.find('\u{1}') {
        Some(i) => (s[..i].to_string(), s[i + 1..].to_string()),
        None => {
            let mid = s.char_indices().nth(s.chars().count() / 2).map(|x| x.0).unwrap_or(0);
            (s[..mid].to_string(), s[mid..].to_string())
        },
    };
    judge("C14", c14::check_clean(&s));
    judge("C14", c14::check_clean(&a));
    judge("C15", c15::check_single(&s));
    judge("C15", c15::check_single(&b));
    judge("C15", c15::check_pair(&a, &b));
    judge("C12", c12::check_helpers(&a, &b));
    // relative on clean absolute paths built from the two halves
    let pa = rvh::refpath::ref_clean(&format!("/{}", a.replace('\0', "")));
    let pb = rvh::refpath::ref_clean(&format!("/{}", b.replace('\0', "")));
    judge("C16", c16::check_relative(&pa, &pb));
});
