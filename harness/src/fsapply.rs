//! Execute an `Op` on any VirtualFileSystem implementation and observe Memfs through the dump hook
use std::collections::{BTreeMap, BTreeSet};
use std::io::{Read, Write};
use std::path::PathBuf;

use rivia::prelude::*;
use rivia::verif::Dump;

use crate::{engine::catch, fstypes::*, obs::errkind};

fn ps(p: PathBuf) -> String {
    // bytes that are not valid UTF-8 become private-use characters (U+F700 + byte): the text keeps its structure
    // (separators, components), so the invariants judge such a key like any other
    p.to_str().map(|s| s.to_string()).unwrap_or_else(|| {
        use std::os::unix::ffi::OsStrExt;
        let mut out = String::new();
        for chunk in p.as_os_str().as_bytes().utf8_chunks() {
            out.push_str(chunk.valid());
            for b in chunk.invalid() {
                out.push(char::from_u32(0xF700 + *b as u32).unwrap_or('\u{fffd}'));
            }
        }
        out
    })
}

fn r_unit(r: RvResult<()>) -> Out {
    match r {
        Ok(()) => Out::Unit,
        Err(e) => Out::Err(errkind(&e)),
    }
}
fn r_path(r: RvResult<PathBuf>) -> Out {
    match r {
        Ok(p) => Out::Path(ps(p)),
        Err(e) => Out::Err(errkind(&e)),
    }
}
fn r_paths(r: RvResult<Vec<PathBuf>>) -> Out {
    match r {
        Ok(v) => Out::Paths(v.into_iter().map(ps).collect()),
        Err(e) => Out::Err(errkind(&e)),
    }
}
fn r_u32(r: RvResult<u32>) -> Out {
    match r {
        Ok(v) => Out::U32(v),
        Err(e) => Out::Err(errkind(&e)),
    }
}

pub fn entry_info<E: Entry>(e: &E) -> EntryInfo {
    EntryInfo {
        path: ps(e.path_buf()),
        alt: ps(e.alt_buf()),
        rel: ps(e.rel_buf()),
        is_dir: e.is_dir(),
        is_file: e.is_file(),
        is_symlink: e.is_symlink(),
        is_symlink_dir: e.is_symlink_dir(),
        is_symlink_file: e.is_symlink_file(),
        is_exec: e.is_exec(),
        is_readonly: e.is_readonly(),
        following: e.following(),
        mode: e.mode(),
        file_name: e.file_name().map(|f| f.to_string_lossy().to_string()),
    }
}

/// Run the same script on the handle and on a Cursor over `data`; first difference, if any
pub fn handle_session_mismatch(f: &mut Box<dyn rivia::prelude::ReadSeek>, data: &[u8]) -> Option<String> {
    use std::io::{Cursor, Read, Seek, SeekFrom};
    let mut c = Cursor::new(data.to_vec());
    fn read_n<R: Read + ?Sized>(r: &mut R, n: usize) -> Result<Vec<u8>, ()> {
        let mut b = vec![0u8; n];
        let mut got = 0;
        while got < n {
            match r.read(&mut b[got..]) {
                Ok(0) => break,
                Ok(k) => got += k,
                Err(_) => return Err(()),
            }
        }
        b.truncate(got);
        Ok(b)
    }
    let steps: [(&str, Option<SeekFrom>, usize); 9] = [
        ("start(0)", Some(SeekFrom::Start(0)), 2),
        ("end(-3)", Some(SeekFrom::End(-3)), 1),
        ("current(-1)", Some(SeekFrom::Current(-1)), 2),
        ("end(0)", Some(SeekFrom::End(0)), 1),
        ("current(2)", Some(SeekFrom::Current(2)), 1),
        ("current(-1)", Some(SeekFrom::Current(-1)), 1),
        ("end(-1)", Some(SeekFrom::End(-1)), 4),
        ("start(1)", Some(SeekFrom::Start(1)), 0),
        ("current(0)", Some(SeekFrom::Current(0)), 3),
    ];
    for (name, sk, n) in steps {
        if let Some(sk) = sk {
            let (a, b) = (f.seek(sk).map_err(|_| ()), c.seek(sk).map_err(|_| ()));
            if a != b {
                return Some(format!("seek {}: handle {:?} cursor {:?}", name, a, b));
            }
        }
        let (a, b) = (read_n(f.as_mut(), n), read_n(&mut c, n));
        if a != b {
            return Some(format!("read {} after seek {}: handle {:?} cursor {:?}", n, name, a, b));
        }
    }
    None
}

fn handle_write(h: RvResult<Box<dyn Write>>, chunks: &[Vec<u8>], flushes: &[bool]) -> Out {
    match h {
        Err(e) => Out::Err(errkind(&e)),
        Ok(mut f) => {
            for (i, c) in chunks.iter().enumerate() {
                if let Err(e) = f.write_all(c) {
                    return Out::Err(format!("Io::{:?}", e.kind()));
                }
                if flushes.get(i).copied().unwrap_or(false) {
                    if let Err(e) = f.flush() {
                        return Out::Err(format!("Io::{:?}", e.kind()));
                    }
                }
            }
            drop(f);
            Out::Unit
        },
    }
}

fn apply_inner<V: VirtualFileSystem>(v: &V, op: &Op) -> Out {
    use Op::*;
    match op {
        Mkfile(p) => r_path(v.mkfile(p)),
        MkfileM(p, m) => r_path(v.mkfile_m(p, *m)),
        MkdirP(p) => r_path(v.mkdir_p(p)),
        MkdirM(p, m) => r_path(v.mkdir_m(p, *m)),
        WriteAll(p, d) => r_unit(v.write_all(p, d)),
        AppendAll(p, d) => r_unit(v.append_all(p, d)),
        WriteLines(p, l) => r_unit(v.write_lines(p, l)),
        AppendLine(p, l) => r_unit(v.append_line(p, l)),
        AppendLines(p, l) => r_unit(v.append_lines(p, l)),
        WriteH(p, c, f) => handle_write(v.write(p), c, f),
        AppendH(p, c, f) => handle_write(v.append(p), c, f),
        ReadAll(p) => match v.read_all(p) {
            Ok(s) => Out::Str(s),
            Err(e) => Out::Err(errkind(&e)),
        },
        ReadLines(p) => match v.read_lines(p) {
            Ok(s) => Out::Lines(s),
            Err(e) => Out::Err(errkind(&e)),
        },
        // a read-handle session: the whole content first (the call's result), then a fixed script of partial
        // reads and seeks from every origin whose trace must equal std::io::Cursor's over the same bytes
        Read(p) => match v.read(p) {
            Ok(mut f) => {
                let mut buf = vec![];
                match f.read_to_end(&mut buf) {
                    Ok(_) => match handle_session_mismatch(&mut f, &buf) {
                        None => Out::Bytes(buf),
                        Some(d) => Out::Err(format!("read-handle-session-differs-from-cursor: {}", d)),
                    },
                    Err(e) => Out::Err(format!("Io::{:?}", e.kind())),
                }
            },
            Err(e) => Out::Err(errkind(&e)),
        },
        Exists(p) => Out::Bool(v.exists(p)),
        IsDir(p) => Out::Bool(v.is_dir(p)),
        IsFile(p) => Out::Bool(v.is_file(p)),
        IsSymlink(p) => Out::Bool(v.is_symlink(p)),
        IsSymlinkDir(p) => Out::Bool(v.is_symlink_dir(p)),
        IsSymlinkFile(p) => Out::Bool(v.is_symlink_file(p)),
        IsExec(p) => Out::Bool(v.is_exec(p)),
        IsReadonly(p) => Out::Bool(v.is_readonly(p)),
        Mode(p) => r_u32(v.mode(p)),
        Uid(p) => r_u32(v.uid(p)),
        Gid(p) => r_u32(v.gid(p)),
        Owner(p) => match v.owner(p) {
            Ok((u, g)) => Out::Pair(u, g),
            Err(e) => Out::Err(errkind(&e)),
        },
        Entry(p) => match v.entry(p) {
            Ok(e) => Out::Entry(entry_info(&e)),
            Err(e) => Out::Err(errkind(&e)),
        },
        Abs(p) => r_path(v.abs(p)),
        Paths(p) => r_paths(v.paths(p)),
        Dirs(p) => r_paths(v.dirs(p)),
        Files(p) => r_paths(v.files(p)),
        AllPaths(p) => r_paths(v.all_paths(p)),
        AllDirs(p) => r_paths(v.all_dirs(p)),
        AllFiles(p) => r_paths(v.all_files(p)),
        Entries(p) => match v.entries(p) {
            Ok(es) => {
                let mut out = vec![];
                for (i, e) in es.into_iter().enumerate() {
                    match e {
                        Ok(x) => out.push(ps(x.path_buf())),
                        Err(e) => {
                            out.push(format!("!{}", errkind(&e)));
                            break;
                        },
                    }
                    if i > 100_000 {
                        out.push("!endless".into());
                        break;
                    }
                }
                Out::Seq(out)
            },
            Err(e) => Out::Err(errkind(&e)),
        },
        Chmod(p, m) => r_unit(v.chmod(p, *m)),
        ChmodB(p, o) => match v.chmod_b(p) {
            Ok(mut b) => {
                b = match &o.sel {
                    ChmodSel::All(m) => b.all(*m),
                    ChmodSel::Dirs(m) => b.dirs(*m),
                    ChmodSel::Files(m) => b.files(*m),
                    ChmodSel::Sym(s) => b.sym(s),
                    ChmodSel::Mix { dirs, files, sym, sym_first } => {
                        let mut b = b;
                        if *sym_first {
                            b = b.sym(sym);
                        }
                        if *dirs != 0 {
                            b = b.dirs(*dirs);
                        }
                        if *files != 0 {
                            b = b.files(*files);
                        }
                        if !*sym_first {
                            b = b.sym(sym);
                        }
                        b
                    },
                };
                b = if o.recursive { b.recurse() } else { b.no_recurse() };
                if o.follow {
                    b = b.follow();
                }
                r_unit(b.exec())
            },
            Err(e) => Out::Err(errkind(&e)),
        },
        Chown(p, u, g) => r_unit(v.chown(p, *u, *g)),
        ChownB(p, o) => match v.chown_b(p) {
            Ok(mut b) => {
                if let Some(u) = o.uid {
                    b = b.uid(u);
                }
                if let Some(g) = o.gid {
                    b = b.gid(g);
                }
                b = b.recurse(o.recursive);
                if o.follow {
                    b = b.follow();
                }
                r_unit(b.exec())
            },
            Err(e) => Out::Err(errkind(&e)),
        },
        Copy(a, b) => r_unit(v.copy(a, b)),
        CopyB(a, b, o) => match v.copy_b(a, b) {
            Ok(mut c) => {
                c = match o.mode {
                    CopyMode::None => c,
                    CopyMode::All(m) => c.chmod_all(m),
                    CopyMode::Dirs(m) => c.chmod_dirs(m),
                    CopyMode::Files(m) => c.chmod_files(m),
                    CopyMode::Two(k1, m1, k2, m2) => {
                        let mut c = c;
                        for (k, m) in [(k1, m1), (k2, m2)] {
                            c = match k % 3 {
                                0 => c.chmod_all(m),
                                1 => c.chmod_dirs(m),
                                _ => c.chmod_files(m),
                            };
                        }
                        c
                    },
                };
                c = c.follow(o.follow);
                r_unit(c.exec())
            },
            Err(e) => Out::Err(errkind(&e)),
        },
        MoveP(a, b) => r_unit(v.move_p(a, b)),
        Remove(p) => r_unit(v.remove(p)),
        RemoveAll(p) => r_unit(v.remove_all(p)),
        SetCwd(p) => r_path(v.set_cwd(p)),
        Cwd => r_path(v.cwd()),
        Root => Out::Path(ps(v.root())),
        Symlink(l, t) => r_path(v.symlink(l, t)),
        Readlink(p) => r_path(v.readlink(p)),
        ReadlinkAbs(p) => r_path(v.readlink_abs(p)),
        HOpen(..) | HWrite(..) | HFlush(..) | HDrop(..) => Out::Bool(false), // need a handle table: apply_h
        Late(inner, cwd2) => {
            // build the builder, change the cwd, then exec
            let mid = || v.set_cwd(cwd2).err().map(|e| Out::Err(format!("set_cwd-between-build-and-exec:{}", errkind(&e))));
            match &**inner {
                ChmodB(p, o) => match v.chmod_b(p) {
                    Ok(mut b) => {
                        b = match &o.sel {
                            ChmodSel::All(m) => b.all(*m),
                            ChmodSel::Dirs(m) => b.dirs(*m),
                            ChmodSel::Files(m) => b.files(*m),
                            ChmodSel::Sym(s) => b.sym(s),
                            ChmodSel::Mix { dirs, files, sym, sym_first } => {
                                let mut b = b;
                                if *sym_first {
                                    b = b.sym(sym);
                                }
                                if *dirs != 0 {
                                    b = b.dirs(*dirs);
                                }
                                if *files != 0 {
                                    b = b.files(*files);
                                }
                                if !*sym_first {
                                    b = b.sym(sym);
                                }
                                b
                            },
                        };
                        b = if o.recursive { b.recurse() } else { b.no_recurse() };
                        if o.follow {
                            b = b.follow();
                        }
                        match mid() {
                            Some(e) => e,
                            None => r_unit(b.exec()),
                        }
                    },
                    Err(e) => Out::Err(format!("build:{}", errkind(&e))),
                },
                ChownB(p, o) => match v.chown_b(p) {
                    Ok(mut b) => {
                        if let Some(u) = o.uid {
                            b = b.uid(u);
                        }
                        if let Some(g) = o.gid {
                            b = b.gid(g);
                        }
                        b = b.recurse(o.recursive);
                        if o.follow {
                            b = b.follow();
                        }
                        match mid() {
                            Some(e) => e,
                            None => r_unit(b.exec()),
                        }
                    },
                    Err(e) => Out::Err(format!("build:{}", errkind(&e))),
                },
                CopyB(a, b, o) => match v.copy_b(a, b) {
                    Ok(mut c) => {
                        c = match o.mode.effective() {
                            CopyMode::All(m) => c.chmod_all(m),
                            CopyMode::Dirs(m) => c.chmod_dirs(m),
                            CopyMode::Files(m) => c.chmod_files(m),
                            _ => c,
                        };
                        c = c.follow(o.follow);
                        match mid() {
                            Some(e) => e,
                            None => r_unit(c.exec()),
                        }
                    },
                    Err(e) => Out::Err(format!("build:{}", errkind(&e))),
                },
                _ => Out::Bool(false),
            }
        },
    }
}

/// Execute one call, panics become Out::Panic
pub fn apply<V: VirtualFileSystem>(v: &V, op: &Op) -> Out {
    match catch(|| apply_inner(v, op)) {
        Ok(o) => o,
        Err(m) => Out::Panic(m),
    }
}

/// Open write/append handles that live across steps of a history
#[derive(Default)]
pub struct Handles {
    pub slots: [Option<Box<dyn Write>>; 4],
}

impl Handles {
    pub fn open_count(&self) -> usize {
        self.slots.iter().filter(|s| s.is_some()).count()
    }
}

/// Like `apply` but also understands the persistent-handle ops
pub fn apply_h<V: VirtualFileSystem>(v: &V, op: &Op, h: &mut Handles) -> Out {
    let r = catch(std::panic::AssertUnwindSafe(|| match op {
        Op::HOpen(slot, append, p) => {
            let i = (*slot as usize) % 4;
            h.slots[i] = None; // dropping a previous handle in the slot is part of the step
            match if *append { v.append(p) } else { v.write(p) } {
                Ok(f) => {
                    h.slots[i] = Some(f);
                    Out::Unit
                },
                Err(e) => Out::Err(errkind(&e)),
            }
        },
        Op::HWrite(slot, d) => match h.slots[(*slot as usize) % 4].as_mut() {
            Some(f) => match f.write_all(d) {
                Ok(()) => Out::Unit,
                Err(e) => Out::Err(format!("Io::{:?}", e.kind())),
            },
            None => Out::Bool(false),
        },
        Op::HFlush(slot) => match h.slots[(*slot as usize) % 4].as_mut() {
            Some(f) => match f.flush() {
                Ok(()) => Out::Unit,
                Err(e) => Out::Err(format!("Io::{:?}", e.kind())),
            },
            None => Out::Bool(false),
        },
        Op::HDrop(slot) => {
            h.slots[(*slot as usize) % 4] = None;
            Out::Unit
        },
        other => apply_inner(v, other),
    }));
    match r {
        Ok(o) => o,
        Err(m) => Out::Panic(m),
    }
}

// ---------------------------------------------------------------------------------------------
// Memfs observation through hook H2
// ---------------------------------------------------------------------------------------------

/// C03 invariants over the raw dump. Returns violated invariant classes (empty = well-formed).
pub fn integrity(d: &Dump) -> Vec<(String, String)> {
    let mut bad: Vec<(String, String)> = vec![];
    let mut push = |c: &str, detail: String| {
        if bad.len() < 8 {
            bad.push((c.to_string(), detail));
        }
    };
    if d.poisoned {
        push("I8-lock-poisoned", "RwLock poisoned".into());
    }
    let keys: BTreeMap<String, &rivia::verif::DumpEntry> = d.entries.iter().map(|e| (ps(e.key.clone()), e)).collect();
    if keys.len() != d.entries.len() {
        push("I0-duplicate-key", "duplicate keys".into());
    }
    let root = ps(d.root.clone());
    let cwd = ps(d.cwd.clone());
    let clean_abs = |p: &str| p.starts_with('/') && crate::refpath::ref_clean(p) == p;
    if root != "/" || !clean_abs(&cwd) {
        push("I6-cwd-root-not-absolute-clean", format!("root {:?} cwd {:?}", root, cwd));
    }
    match keys.get("/") {
        Some(r) if r.dir && !r.link => {},
        _ => push("I6-root-entry-missing-or-not-dir", "root".into()),
    }
    for (k, e) in &keys {
        if ps(e.path.clone()) != *k {
            push("I5-entry-path-differs-from-key", format!("key {:?} stores path {:?}", k, e.path));
        }
        if !clean_abs(k) {
            push("I5-key-not-clean-absolute", format!("key {:?}", k));
        }
        if k != "/" {
            let parent = crate::refpath::parent(k);
            let name = crate::refpath::base(k);
            match keys.get(&parent) {
                None => push("I1-orphan-parent-missing", format!("{:?} has no parent entry {:?}", k, parent)),
                Some(p) => {
                    if !p.dir || p.link {
                        push("I1-parent-not-real-dir", format!("{:?} has parent {:?} dir={} link={}", k, parent, p.dir, p.link));
                    }
                    if !p.children.as_ref().map(|c| c.contains(&name)).unwrap_or(false) {
                        push("I1-parent-does-not-list-child", format!("{:?} not listed by {:?}", k, parent));
                    }
                },
            }
        }
        if let Some(ch) = &e.children {
            if !(e.dir && !e.link) && !ch.is_empty() {
                push("I7-non-directory-has-children", format!("{:?} lists {:?}", k, ch));
            }
            let set: BTreeSet<&String> = ch.iter().collect();
            if set.len() != ch.len() {
                push("I2-duplicate-child-name", format!("{:?}", k));
            }
            for c in ch {
                let child = crate::refpath::join(k, c);
                if !keys.contains_key(&child) {
                    push("I2-listed-child-missing", format!("{:?} lists {:?} which does not exist", k, c));
                }
            }
        } else if e.dir && !e.link {
            // a directory without a child set is tolerated (equivalent to empty)
        }
        // the file-type bits of the mode say what the entry is
        let want_type = if e.link { 0o120000 } else if e.dir { 0o040000 } else { 0o100000 };
        if e.mode & 0o170000 != want_type {
            push("I10-mode-type-bits-disagree-with-kind", format!("{:?} has mode {:o} but dir={} file={} link={}", k, e.mode, e.dir, e.file, e.link));
        }
        let flags = (e.dir as u8) + (e.file as u8);
        if flags != 1 {
            push("I9-kind-flags", format!("{:?} dir={} file={} link={}", k, e.dir, e.file, e.link));
        }
    }
    let fkeys: BTreeSet<String> = d.files.iter().map(|f| ps(f.key.clone())).collect();
    for k in &fkeys {
        match keys.get(k) {
            Some(e) if e.file && !e.link => {},
            Some(_) => push("I4-data-under-non-file", format!("byte content stored under {:?} which is not a regular file", k)),
            None => push("I4-dangling-data", format!("byte content stored under missing path {:?}", k)),
        }
    }
    for (k, e) in &keys {
        if e.file && !e.link && !fkeys.contains(k) {
            push("I4-file-without-data", format!("regular file {:?} has no byte content", k));
        }
    }
    bad
}

/// Abstract tree from the dump (call only when integrity holds; tolerant otherwise)
pub fn tree_from_dump(d: &Dump) -> Tree {
    let data: BTreeMap<String, &Vec<u8>> = d.files.iter().map(|f| (ps(f.key.clone()), &f.data)).collect();
    let mut nodes = BTreeMap::new();
    for e in &d.entries {
        let k = ps(e.key.clone());
        let n = if e.link {
            Node::Link { target: ps(e.alt.clone()), rel: ps(e.rel.clone()), to_dir: e.dir, mode: e.mode, uid: e.uid, gid: e.gid }
        } else if e.dir {
            Node::Dir { mode: e.mode, uid: e.uid, gid: e.gid }
        } else {
            Node::File { data: data.get(&k).map(|d| (*d).clone()).unwrap_or_default(), mode: e.mode, uid: e.uid, gid: e.gid }
        };
        nodes.insert(k, n);
    }
    Tree { nodes, cwd: ps(d.cwd.clone()) }
}

/// The public-API view of a Memfs must agree with the dump-derived tree
pub fn api_view_mismatch(m: &Memfs, t: &Tree) -> Option<String> {
    let r = catch(|| {
        for (p, n) in &t.nodes {
            if !m.exists(p) {
                return Some(format!("exists({:?}) is false for a stored entry", p));
            }
            match m.mode(p) {
                Ok(x) if x == n.mode() => {},
                other => return Some(format!("mode({:?}) = {:?} stored {:o}", p, other.map_err(|e| e.to_string()), n.mode())),
            }
            match m.owner(p) {
                Ok(x) if x == n.owner() => {},
                other => return Some(format!("owner({:?}) = {:?} stored {:?}", p, other.map_err(|e| e.to_string()), n.owner())),
            }
            if m.is_symlink(p) != (n.kind() == Kind::Link) {
                return Some(format!("is_symlink({:?}) disagrees with stored kind", p));
            }
            // methods that state the same fact agree with each other
            if m.is_file(p) != (n.kind() == Kind::File) || m.is_dir(p) != (n.kind() == Kind::Dir) {
                return Some(format!("is_file/is_dir({:?}) = {}/{} for a stored {:?}", p, m.is_file(p), m.is_dir(p), n.kind()));
            }
            if m.uid(p).ok() != Some(n.owner().0) || m.gid(p).ok() != Some(n.owner().1) {
                return Some(format!("uid/gid({:?}) = {:?}/{:?} but owner is {:?}", p, m.uid(p).ok(), m.gid(p).ok(), n.owner()));
            }
            if n.kind() != Kind::Link && (m.is_exec(p) != (n.mode() & 0o111 != 0) || m.is_readonly(p) != (n.mode() & 0o222 == 0)) {
                return Some(format!("is_exec/is_readonly({:?}) = {}/{} with mode {:o}", p, m.is_exec(p), m.is_readonly(p), n.mode()));
            }
            match m.entry(p) {
                Ok(e) => {
                    if ps(e.path_buf()) != *p || e.is_symlink() != (n.kind() == Kind::Link) || e.mode() != n.mode() || (n.kind() != Kind::Link && (e.is_dir() != (n.kind() == Kind::Dir) || e.is_file() != (n.kind() == Kind::File))) {
                        return Some(format!("entry({:?}) = {:?} disagrees with the stored {:?} (mode {:o})", p, entry_info(&e), n.kind(), n.mode()));
                    }
                },
                Err(e) => return Some(format!("entry({:?}) = Err({}) for a stored entry", p, e)),
            }
            match n {
                Node::File { data, .. } => {
                    let mut buf = vec![];
                    match m.read(p).map(|mut f| f.read_to_end(&mut buf)) {
                        Ok(Ok(_)) if buf == *data => {},
                        _ => return Some(format!("read({:?}) disagrees with stored bytes", p)),
                    }
                    match (String::from_utf8(data.clone()), m.read_all(p)) {
                        (Ok(s), Ok(r)) if s == r => {},
                        (Err(_), Err(_)) => {},
                        (a, b) => return Some(format!("read_all({:?}) = {:?} but the bytes are {:?}", p, b.map_err(|e| e.to_string()), a.map_err(|_| "not utf-8"))),
                    }
                },
                Node::Link { target, rel, to_dir, .. } => {
                    match m.readlink_abs(p) {
                        Ok(x) if ps(x.clone()) == *target => {},
                        _ => return Some(format!("readlink_abs({:?}) disagrees with stored target", p)),
                    }
                    match m.readlink(p) {
                        Ok(x) if ps(x.clone()) == *rel => {},
                        other => return Some(format!("readlink({:?}) = {:?} but the stored relative target is {:?}", p, other.map_err(|e| e.to_string()), rel)),
                    }
                    if m.is_symlink_dir(p) != *to_dir || m.is_symlink_file(p) == *to_dir {
                        return Some(format!("is_symlink_dir/is_symlink_file({:?}) = {}/{} but the stored flag says dir={}", p, m.is_symlink_dir(p), m.is_symlink_file(p), to_dir));
                    }
                },
                Node::Dir { .. } => {
                    // paths == children; dirs and files partition them
                    let kids = t.children(p);
                    let list = |r: RvResult<Vec<std::path::PathBuf>>| -> Option<Vec<String>> { r.ok().map(|v| v.into_iter().map(ps).collect()) };
                    let (pa, di, fi) = (list(m.paths(p)), list(m.dirs(p)), list(m.files(p)));
                    match (&pa, &di, &fi) {
                        (Some(pa), Some(di), Some(fi)) => {
                            let mut k2 = kids.clone();
                            k2.sort();
                            let mut both: Vec<String> = di.iter().chain(fi.iter()).cloned().collect();
                            both.sort();
                            let mut pa2 = pa.clone();
                            pa2.sort();
                            if pa2 != k2 || both != k2 {
                                return Some(format!("paths/dirs/files({:?}) = {:?} / {:?} / {:?} but the directory holds {:?}", p, pa, di, fi, k2));
                            }
                        },
                        _ => return Some(format!("paths/dirs/files({:?}) failed on a stored directory", p)),
                    }
                },
            }
        }
        match m.cwd() {
            Ok(c) if ps(c.clone()) == t.cwd => {},
            _ => return Some("cwd() disagrees with stored cwd".into()),
        }
        if m.abs(".").ok().map(ps) != Some(t.cwd.clone()) {
            return Some(format!("abs(\".\") = {:?} but cwd is {:?}", m.abs(".").ok(), t.cwd));
        }
        None
    });
    match r {
        Ok(x) => x,
        Err(p) => Some(format!("public API panicked while observing: {}", p)),
    }
}
