//! Controlled scheduler on top of hook H1: real OS threads, but exactly one of them runs between
//! two MemfsGuard acquisition points, chosen by an explicit schedule. An execution is therefore a
//! deterministic function of (seed state, program, schedule) and can be enumerated and replayed.
use std::cell::{Cell, RefCell};
use std::sync::atomic::{AtomicU64, Ordering};
use std::sync::{Arc, Condvar, Mutex};
use std::time::Duration;

use rivia::prelude::*;
use rivia::verif::GuardEvent;

use crate::{fsapply::apply, fstypes::*};

#[derive(Clone, Copy, PartialEq, Debug)]
enum St {
    Init,
    Parked,
    Running,
    Done,
}

struct Inner {
    status: Vec<St>,
    granted: Option<usize>,
    abort: bool,
    nested: Option<String>,
}

pub struct Session {
    inner: Mutex<Inner>,
    cv: Condvar,
    clock: AtomicU64,
}

thread_local! {
    static CUR: RefCell<Option<(Arc<Session>, usize)>> = const { RefCell::new(None) };
    static DEPTH: Cell<u32> = const { Cell::new(0) };
}

pub fn install_hook() {
    rivia::verif::set_guard_hook(hook);
}

fn hook(ev: GuardEvent) {
    let cur = CUR.with(|c| c.borrow().clone());
    let (s, me) = match cur {
        Some(x) => x,
        None => return,
    };
    match ev {
        GuardEvent::BeforeRead | GuardEvent::BeforeWrite => {
            if DEPTH.with(|d| d.get()) > 0 {
                // acquiring while this thread already holds a guard: would dead-lock on the real lock
                s.inner.lock().unwrap().nested = Some(format!("thread {} requested {:?} while holding a MemfsGuard", me, ev));
                panic!("nested MemfsGuard acquisition");
            }
            s.park(me);
            DEPTH.with(|d| d.set(1));
        },
        GuardEvent::Released => DEPTH.with(|d| d.set(0)),
    }
}

impl Session {
    fn new(n: usize) -> Arc<Session> {
        Arc::new(Session { inner: Mutex::new(Inner { status: vec![St::Init; n], granted: None, abort: false, nested: None }), cv: Condvar::new(), clock: AtomicU64::new(0) })
    }

    fn now(&self) -> u64 {
        self.clock.fetch_add(1, Ordering::SeqCst)
    }

    /// worker side: wait at a scheduling point until granted
    fn park(&self, me: usize) {
        let mut g = self.inner.lock().unwrap();
        g.status[me] = St::Parked;
        self.cv.notify_all();
        loop {
            if g.abort {
                drop(g);
                panic!("schedule aborted");
            }
            if g.granted == Some(me) {
                g.granted = None;
                g.status[me] = St::Running;
                self.cv.notify_all();
                return;
            }
            g = self.cv.wait(g).unwrap();
        }
    }

    fn done(&self, me: usize) {
        let mut g = self.inner.lock().unwrap();
        g.status[me] = St::Done;
        self.cv.notify_all();
    }
}

#[derive(Clone, Debug, serde::Serialize, serde::Deserialize, PartialEq)]
pub struct CallRec {
    pub thread: usize,
    pub index: usize,
    pub start: u64,
    pub end: u64,
    pub out: Out,
}

pub struct Execution {
    pub calls: Vec<CallRec>,
    /// thread granted at every scheduling step
    pub schedule: Vec<usize>,
    /// number of runnable threads at every step (for enumeration)
    pub alternatives: Vec<Vec<usize>>,
    pub nested: Option<String>,
    pub stuck: bool,
    pub panicked: Vec<String>,
}

/// Run `program` (one op list per thread) on `mem` under the given schedule prefix.
/// `prefix[i]` = thread to grant at step i (if runnable); beyond the prefix the lowest runnable id.
pub fn run_controlled<V: VirtualFileSystem + Sync>(mem: &V, program: &[Vec<Op>], prefix: &[usize]) -> Execution {
    let n = program.len();
    let s = Session::new(n);
    let results: Mutex<Vec<CallRec>> = Mutex::new(vec![]);
    let panics: Mutex<Vec<String>> = Mutex::new(vec![]);
    let mut schedule = vec![];
    let mut alternatives = vec![];
    let mut stuck = false;
    std::thread::scope(|sc| {
        for (t, ops) in program.iter().enumerate() {
            let s = s.clone();
            let results = &results;
            let panics = &panics;
            sc.spawn(move || {
                CUR.with(|c| *c.borrow_mut() = Some((s.clone(), t)));
                DEPTH.with(|d| d.set(0));
                let r = std::panic::catch_unwind(std::panic::AssertUnwindSafe(|| {
                    s.park(t); // initial scheduling point: the thread has not invoked anything yet
                    for (i, op) in ops.iter().enumerate() {
                        let start = s.now();
                        let out = apply(mem, op);
                        let end = s.now();
                        if let Out::Panic(m) = &out {
                            if m.contains("schedule aborted") {
                                return;
                            }
                        }
                        results.lock().unwrap().push(CallRec { thread: t, index: i, start, end, out });
                    }
                }));
                if r.is_err() {
                    panics.lock().unwrap().push(format!("thread {} unwound", t));
                }
                CUR.with(|c| *c.borrow_mut() = None);
                s.done(t);
            });
        }
        // driver
        let mut step = 0usize;
        loop {
            let mut g = s.inner.lock().unwrap();
            let mut waited = 0u32;
            while g.status.iter().any(|x| matches!(x, St::Running | St::Init)) || g.granted.is_some() {
                let (ng, to) = s.cv.wait_timeout(g, Duration::from_millis(500)).unwrap();
                g = ng;
                if to.timed_out() {
                    waited += 1;
                    if waited > 40 {
                        stuck = true;
                        g.abort = true;
                        s.cv.notify_all();
                        break;
                    }
                }
            }
            if stuck {
                break;
            }
            let runnable: Vec<usize> = g.status.iter().enumerate().filter(|(_, x)| **x == St::Parked).map(|(i, _)| i).collect();
            if runnable.is_empty() {
                break;
            }
            let pick = match prefix.get(step) {
                Some(t) if runnable.contains(t) => *t,
                _ => runnable[0],
            };
            schedule.push(pick);
            alternatives.push(runnable);
            g.granted = Some(pick);
            g.status[pick] = St::Running;
            step += 1;
            s.cv.notify_all();
        }
    });
    let nested = s.inner.lock().unwrap().nested.clone();
    let mut calls = results.into_inner().unwrap();
    calls.sort_by_key(|c| (c.thread, c.index));
    Execution { calls, schedule, alternatives, nested, stuck, panicked: panics.into_inner().unwrap() }
}

/// Next schedule prefix in depth-first order, or None when all interleavings were visited
pub fn next_prefix(e: &Execution) -> Option<Vec<usize>> {
    for i in (0..e.schedule.len()).rev() {
        let alts = &e.alternatives[i];
        let pos = alts.iter().position(|t| *t == e.schedule[i]).unwrap();
        if pos + 1 < alts.len() {
            let mut p = e.schedule[..i].to_vec();
            p.push(alts[pos + 1]);
            return Some(p);
        }
    }
    None
}
