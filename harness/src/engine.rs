//! Run engine shared by every property check: counters, known-finding matching, replay and
//! evidence writing, parallel sharding, CPU-time watchdog, proptest driver.
use std::{
    collections::{BTreeMap, HashSet},
    hash::{Hash, Hasher},
    panic::{self, AssertUnwindSafe},
    path::PathBuf,
    sync::{
        atomic::{AtomicBool, AtomicU64, AtomicUsize, Ordering},
        Arc, Mutex, OnceLock,
    },
    time::Instant,
};

use proptest::{
    strategy::{Strategy, ValueTree},
    test_runner::{Config, RngAlgorithm, TestCaseError, TestError, TestRng, TestRunner},
};
use serde::Serialize;
use serde_json::{json, Value};

#[derive(Clone, Copy, PartialEq, Eq, Debug)]
pub enum Tier {
    Quick,
    Thorough,
}

impl Tier {
    pub fn name(self) -> &'static str {
        match self {
            Tier::Quick => "quick",
            Tier::Thorough => "thorough",
        }
    }
    /// pick a size by tier
    pub fn pick<T>(self, quick: T, thorough: T) -> T {
        match self {
            Tier::Quick => quick,
            Tier::Thorough => thorough,
        }
    }
}

/// A failed check of one case
#[derive(Debug, Clone)]
pub struct Failure {
    /// exact-match key used for known findings; abstract classes only, never raw values
    pub sig: String,
    /// human readable expected/actual
    pub detail: String,
    /// optional (kind, case) to store instead of the generated value (e.g. the concrete ops of a history)
    pub case: Option<(String, Value)>,
}

impl Failure {
    pub fn with_case(mut self, kind: &str, case: Value) -> Self {
        self.case = Some((kind.to_string(), case));
        self
    }
    pub fn new<S: Into<String>, D: Into<String>>(sig: S, detail: D) -> Self {
        Failure { sig: sig.into(), detail: detail.into(), case: None }
    }
}

pub type CaseResult = Result<(), Failure>;

#[derive(Debug, Clone, serde::Deserialize)]
pub struct KnownFinding {
    pub property: String,
    pub signature: String,
    #[serde(default)]
    pub what: String,
}

#[derive(Debug, Default, serde::Deserialize)]
struct KnownFile {
    #[serde(default)]
    findings: Vec<KnownFinding>,
}

struct Violation {
    sig: String,
    kind: String,
    case: Value,
    detail: String,
}

/// the distinct-nontrivial set stops growing here (memory bound); the reported count is then a lower bound
const NONTRIVIAL_CAP: usize = 4_000_000;

pub struct Ctx {
    pub prop: String,
    pub tier: Tier,
    pub seed: u64,
    pub verif_dir: PathBuf,
    start: Instant,
    evaluations: AtomicU64,
    excluded: AtomicU64,
    nontrivial: Mutex<HashSet<u64>>,
    samples: Mutex<Vec<Value>>,
    sample_tick: AtomicU64,
    classes: Mutex<BTreeMap<String, u64>>,
    known: Vec<KnownFinding>,
    kf_hits: Mutex<BTreeMap<String, (u64, Value)>>,
    violations: Mutex<Vec<Violation>>,
    viol_sigs: Mutex<HashSet<String>>,
    exhaustive: AtomicBool,
    inconclusive: Mutex<Vec<String>>,
    notes: Mutex<BTreeMap<String, Value>>,
    rule: Mutex<String>,
    assumptions: Mutex<Vec<String>>,
    /// hang of the code under test counts as a violation of this property
    pub hang_is_violation: bool,
    replay_mode: bool,
}

static CTX: OnceLock<Arc<Ctx>> = OnceLock::new();

pub fn ctx() -> Arc<Ctx> {
    CTX.get().expect("ctx not initialised").clone()
}

pub fn fp<T: Hash>(x: &T) -> u64 {
    let mut h = std::collections::hash_map::DefaultHasher::new();
    x.hash(&mut h);
    h.finish()
}

pub fn splitmix(mut x: u64) -> u64 {
    x = x.wrapping_add(0x9E3779B97F4A7C15);
    let mut z = x;
    z = (z ^ (z >> 30)).wrapping_mul(0xBF58476D1CE4E5B9);
    z = (z ^ (z >> 27)).wrapping_mul(0x94D049BB133111EB);
    z ^ (z >> 31)
}

/// Deterministic seeded selection: true for roughly `num`/`den` of the indices
/// Samples are there to be read: long byte payloads (arrays of numbers) and long strings inside one are cut to
/// their first elements plus their length, so an evidence file stays a few kilobytes whatever the cases carried.
pub fn compact_sample(v: Value) -> Value {
    match v {
        Value::Array(a) if a.len() > 64 && a.iter().all(|x| x.is_number()) => {
            serde_json::json!({"elided_number_array_len": a.len(), "first": a.into_iter().take(16).collect::<Vec<_>>()})
        },
        Value::Array(a) if a.len() > 200 => {
            let n = a.len();
            let mut head: Vec<Value> = a.into_iter().take(40).map(compact_sample).collect();
            head.push(serde_json::json!({"elided_elements": n - 40}));
            Value::Array(head)
        },
        Value::Array(a) => Value::Array(a.into_iter().map(compact_sample).collect()),
        Value::Object(o) => Value::Object(o.into_iter().map(|(k, x)| (k, compact_sample(x))).collect()),
        Value::String(t) if t.len() > 600 => {
            let head: String = t.chars().take(300).collect();
            Value::String(format!("{}... ({} bytes in all)", head, t.len()))
        },
        other => other,
    }
}

pub fn sampled(seed: u64, salt: u64, index: u64, num: u64, den: u64) -> bool {
    splitmix(seed ^ splitmix(salt) ^ splitmix(index.wrapping_mul(0x2545F4914F6CDD1D))) % den < num
}

impl Ctx {
    pub fn init(prop: &str, tier: Tier, seed: u64, replay_mode: bool) -> Arc<Ctx> {
        let verif_dir = std::env::var("VERIF_DIR").map(PathBuf::from).unwrap_or_else(|_| PathBuf::from("/verif"));
        let known = match std::fs::read_to_string(verif_dir.join("known_findings.json")) {
            Ok(s) => match serde_json::from_str::<KnownFile>(&s) {
                Ok(k) => k.findings.into_iter().filter(|f| f.property == prop).collect(),
                Err(e) => {
                    eprintln!("rvh: cannot parse known_findings.json: {}", e);
                    std::process::exit(2);
                },
            },
            Err(_) => vec![],
        };
        let hang_is_violation = matches!(prop, "C01" | "C03" | "C04" | "C08" | "C09" | "C12");
        let c = Arc::new(Ctx {
            prop: prop.to_string(),
            tier,
            seed,
            verif_dir,
            start: Instant::now(),
            evaluations: AtomicU64::new(0),
            excluded: AtomicU64::new(0),
            nontrivial: Mutex::new(HashSet::new()),
            samples: Mutex::new(vec![]),
            sample_tick: AtomicU64::new(0),
            classes: Mutex::new(BTreeMap::new()),
            known,
            kf_hits: Mutex::new(BTreeMap::new()),
            violations: Mutex::new(vec![]),
            viol_sigs: Mutex::new(HashSet::new()),
            exhaustive: AtomicBool::new(false),
            inconclusive: Mutex::new(vec![]),
            notes: Mutex::new(BTreeMap::new()),
            rule: Mutex::new(String::new()),
            assumptions: Mutex::new(vec![]),
            hang_is_violation,
            replay_mode,
        });
        let _ = CTX.set(c.clone());
        c
    }

    pub fn set_rule(&self, rule: &str) {
        *self.rule.lock().unwrap() = rule.to_string();
    }
    pub fn assume(&self, a: &str) {
        self.assumptions.lock().unwrap().push(a.to_string());
    }
    pub fn note<V: Serialize>(&self, key: &str, v: V) {
        self.notes.lock().unwrap().insert(key.to_string(), serde_json::to_value(v).unwrap());
    }
    pub fn note_add(&self, key: &str, n: u64) {
        let mut g = self.notes.lock().unwrap();
        let cur = g.get(key).and_then(|v| v.as_u64()).unwrap_or(0);
        g.insert(key.to_string(), json!(cur + n));
    }
    pub fn note_add_quiet(&self, key: &str, n: u64) {
        if !in_shrink() {
            self.note_add(key, n);
        }
    }
    pub fn set_exhaustive(&self, yes: bool) {
        self.exhaustive.store(yes, Ordering::Relaxed);
    }
    pub fn inconclusive(&self, why: &str) {
        self.inconclusive.lock().unwrap().push(why.to_string());
    }
    #[inline]
    pub fn eval(&self, n: u64) {
        if !in_shrink() {
            self.evaluations.fetch_add(n, Ordering::Relaxed);
        }
    }
    pub fn evaluations(&self) -> u64 {
        self.evaluations.load(Ordering::Relaxed)
    }
    #[inline]
    pub fn exclude(&self, n: u64) {
        if !in_shrink() {
            self.excluded.fetch_add(n, Ordering::Relaxed);
        }
    }
    pub fn nontrivial(&self, fingerprint: u64) {
        if !in_shrink() {
            let mut g = self.nontrivial.lock().unwrap();
            if g.len() < NONTRIVIAL_CAP {
                g.insert(fingerprint);
            }
        }
    }
    pub fn nontrivial_many(&self, fps: &mut Vec<u64>) {
        if !in_shrink() && !fps.is_empty() {
            let mut g = self.nontrivial.lock().unwrap();
            for f in fps.drain(..) {
                if g.len() >= NONTRIVIAL_CAP {
                    break;
                }
                g.insert(f);
            }
        }
    }
    pub fn class(&self, name: &str) {
        if !in_shrink() {
            *self.classes.lock().unwrap().entry(name.to_string()).or_insert(0) += 1;
        }
    }
    pub fn class_n(&self, name: &str, n: u64) {
        if !in_shrink() && n > 0 {
            *self.classes.lock().unwrap().entry(name.to_string()).or_insert(0) += n;
        }
    }
    /// Offer a sample; kept at geometrically spaced ticks so first, some middle and late cases appear
    pub fn sample<F: FnOnce() -> Value>(&self, f: F) {
        if in_shrink() {
            return;
        }
        let t = self.sample_tick.fetch_add(1, Ordering::Relaxed) + 1;
        if t <= 2 || (t.is_power_of_two() && t.trailing_zeros() % 2 == 0) {
            let mut g = self.samples.lock().unwrap();
            if g.len() < 14 {
                g.push(compact_sample(f()));
            }
        }
    }

    pub fn is_known(&self, sig: &str) -> bool {
        self.known.iter().any(|k| k.signature == sig)
    }

    /// Judge the result of one case. Returns true when the case passed or is a listed known finding.
    pub fn judge<C: Serialize>(&self, kind: &str, case: &C, res: CaseResult) -> bool {
        match res {
            Ok(()) => true,
            Err(mut f) => {
                let (kind, case_v) = match f.case.take() {
                    Some((k, v)) => (k, v),
                    None => (kind.to_string(), serde_json::to_value(case).unwrap()),
                };
                if self.is_known(&f.sig) {
                    let mut g = self.kf_hits.lock().unwrap();
                    let e = g.entry(f.sig.clone()).or_insert_with(|| (0, json!({"kind": kind, "case": case_v, "detail": f.detail})));
                    e.0 += 1;
                    true
                } else {
                    self.violation(&kind, case_v, f);
                    false
                }
            },
        }
    }

    pub fn violation(&self, kind: &str, case: Value, f: Failure) {
        if in_shrink() {
            return;
        }
        let mut sigs = self.viol_sigs.lock().unwrap();
        if sigs.contains(&f.sig) {
            // keep the smallest reproducer per signature (enumerations are not visited in order)
            let mut vs = self.violations.lock().unwrap();
            if let Some(v) = vs.iter_mut().find(|v| v.sig == f.sig) {
                if case.to_string().len() < v.case.to_string().len() {
                    v.case = case;
                    v.detail = f.detail;
                    v.kind = kind.to_string();
                }
            }
            return;
        }
        if sigs.len() >= 40 {
            return;
        }
        sigs.insert(f.sig.clone());
        self.violations.lock().unwrap().push(Violation { sig: f.sig, kind: kind.to_string(), case, detail: f.detail });
    }

    pub fn violation_count(&self) -> usize {
        self.violations.lock().unwrap().len()
    }

    /// Machine readable summary for a parent process (used by privilege-dropped workers)
    pub fn export(&self) -> Value {
        let viols = self.violations.lock().unwrap();
        let kf = self.kf_hits.lock().unwrap();
        json!({
            "evaluations": self.evaluations.load(Ordering::Relaxed),
            "excluded": self.excluded.load(Ordering::Relaxed),
            "nontrivial": self.nontrivial.lock().unwrap().len(),
            "violations": viols.iter().map(|v| json!({"sig": v.sig, "kind": v.kind, "case": v.case, "detail": v.detail})).collect::<Vec<_>>(),
            "known": kf.iter().map(|(k, v)| json!({"sig": k, "hits": v.0, "example": v.1})).collect::<Vec<_>>(),
            "inconclusive": self.inconclusive.lock().unwrap().clone(),
        })
    }

    /// Merge the summary of a worker process into this run
    pub fn import(&self, v: &Value, class: &str) {
        let n = v["evaluations"].as_u64().unwrap_or(0);
        self.eval(n);
        self.exclude(v["excluded"].as_u64().unwrap_or(0));
        self.class_n(class, n);
        // distinct non-trivial cases of the worker are counted under fresh fingerprints
        let nt = v["nontrivial"].as_u64().unwrap_or(0);
        let mut fps: Vec<u64> = (0..nt.min(200_000)).map(|i| fp(&(class, i))).collect();
        self.nontrivial_many(&mut fps);
        for x in v["violations"].as_array().cloned().unwrap_or_default() {
            // the worker may be unable to read the known-findings file (it dropped its privileges and the
            // file can lie below a directory only the owner may enter): listed signatures are matched here
            let raw = x["sig"].as_str().unwrap_or("?").to_string();
            if self.is_known(&raw) {
                let mut g = self.kf_hits.lock().unwrap();
                let e = g.entry(raw).or_insert_with(|| (0, json!({"kind": x["kind"], "case": x["case"], "detail": x["detail"]})));
                e.0 += 1;
                continue;
            }
            let f = Failure::new(format!("{}|{}", x["sig"].as_str().unwrap_or("?"), class), x["detail"].as_str().unwrap_or("").to_string());
            self.violation(x["kind"].as_str().unwrap_or("?"), x["case"].clone(), f);
        }
        for x in v["known"].as_array().cloned().unwrap_or_default() {
            let sig = x["sig"].as_str().unwrap_or("?").to_string();
            let mut g = self.kf_hits.lock().unwrap();
            let e = g.entry(sig).or_insert_with(|| (0, x["example"].clone()));
            e.0 += x["hits"].as_u64().unwrap_or(0);
        }
        for w in v["inconclusive"].as_array().cloned().unwrap_or_default() {
            self.inconclusive(&format!("{}: {}", class, w.as_str().unwrap_or("")));
        }
    }

    /// Stop generating more work once enough distinct violations were collected
    pub fn saturated(&self) -> bool {
        self.violation_count() >= 12
    }

    /// Write evidence + replays, print protocol lines, return the exit code
    pub fn finish(&self) -> i32 {
        let wall = self.start.elapsed().as_secs_f64();
        let viols = self.violations.lock().unwrap();
        let kf = self.kf_hits.lock().unwrap();
        let mut replay_paths = vec![];
        if !self.replay_mode {
            let out = self.verif_dir.join("out").join(&self.prop);
            let _ = std::fs::remove_dir_all(&out);
            let _ = std::fs::create_dir_all(&out);
            for v in viols.iter() {
                let p = out.join(format!("violation-{:016x}.json", fp(&v.sig)));
                let body = json!({"property": self.prop, "kind": v.kind, "signature": v.sig, "case": v.case,
                    "detail": v.detail, "seed": self.seed, "tier": self.tier.name()});
                let _ = std::fs::write(&p, serde_json::to_string_pretty(&body).unwrap());
                replay_paths.push(p);
            }
        }
        for (sig, (n, ex)) in kf.iter() {
            let exs = serde_json::to_string(&ex["case"]).unwrap_or_default();
            let exs: String = exs.chars().take(300).collect();
            println!("KNOWN-FINDING: property={} {} (hits={}) e.g. {}", self.prop, sig, n, exs);
        }
        for k in self.known.iter() {
            if !kf.contains_key(&k.signature) {
                println!("note: listed known finding not reproduced in this run: property={} {}", self.prop, k.signature);
            }
        }
        for (i, v) in viols.iter().enumerate() {
            let detail: String = v.detail.chars().take(600).collect();
            println!("violation detail: property={} signature={} :: {}", self.prop, v.sig, detail);
            if self.replay_mode {
                println!("VIOLATION property={} replay=(replayed file)", self.prop);
            } else {
                println!("VIOLATION property={} replay={}", self.prop, replay_paths[i].display());
            }
        }
        let inconc = self.inconclusive.lock().unwrap();
        for w in inconc.iter() {
            println!("INCONCLUSIVE: property={} {}", self.prop, w);
        }
        if !self.replay_mode {
            let nontrivial = self.nontrivial.lock().unwrap().len();
            let mut coverage = serde_json::Map::new();
            coverage.insert("evaluations".into(), json!(self.evaluations.load(Ordering::Relaxed)));
            coverage.insert("distinct_nontrivial".into(), json!(nontrivial));
            if nontrivial >= NONTRIVIAL_CAP {
                coverage.insert("distinct_nontrivial_note".into(), json!("counting stopped at the memory cap: lower bound"));
            }
            coverage.insert("rule".into(), json!(self.rule.lock().unwrap().clone()));
            let mut samples = self.samples.lock().unwrap().clone();
            if samples.is_empty() {
                // fallback: the cases the workers handled last (their write-ahead slots) are actual cases too
                for s in slots().iter() {
                    let (k, d) = (s.kind.lock().unwrap().clone(), s.desc.lock().unwrap().clone());
                    if !d.is_empty() && samples.len() < 4 {
                        samples.push(json!({"kind": k, "case_as_marked": d.chars().take(600).collect::<String>()}));
                    }
                }
            }
            coverage.insert("samples".into(), Value::Array(samples));
            coverage.insert("exhaustive".into(), json!(self.exhaustive.load(Ordering::Relaxed) && viols.is_empty()));
            coverage.insert("classes".into(), json!(self.classes.lock().unwrap().clone()));
            coverage.insert("excluded_by_construction".into(), json!(self.excluded.load(Ordering::Relaxed)));
            coverage.insert(
                "known_findings_hit".into(),
                json!(kf.iter().map(|(k, v)| (k.clone(), v.0)).collect::<BTreeMap<_, _>>()),
            );
            for (k, v) in self.notes.lock().unwrap().iter() {
                coverage.insert(k.clone(), v.clone());
            }
            let ev = json!({
                "property_id": self.prop,
                "tier": self.tier.name(),
                "seed": self.seed,
                "level": "exploration",
                "coverage": Value::Object(coverage),
                "assumptions": self.assumptions.lock().unwrap().clone(),
                "wall_s": wall,
                "violations": viols.len(),
                "inconclusive": inconc.clone(),
            });
            let dir = self.verif_dir.join("evidence");
            let _ = std::fs::create_dir_all(&dir);
            let p = dir.join(format!("{}.json", self.prop));
            if let Err(e) = std::fs::write(&p, serde_json::to_string_pretty(&ev).unwrap()) {
                eprintln!("rvh: cannot write evidence {}: {}", p.display(), e);
                return 2;
            }
        }
        println!(
            "rvh: property={} tier={} seed={} evaluations={} nontrivial={} known_findings={} violations={} wall={:.1}s",
            self.prop,
            self.tier.name(),
            self.seed,
            self.evaluations.load(Ordering::Relaxed),
            self.nontrivial.lock().unwrap().len(),
            kf.len(),
            viols.len(),
            wall
        );
        if !viols.is_empty() {
            1
        } else if !inconc.is_empty() {
            2
        } else {
            0
        }
    }
}

// ---------------------------------------------------------------------------------------------
// panic capture
// ---------------------------------------------------------------------------------------------
thread_local! {
    static LAST_PANIC: std::cell::RefCell<Option<String>> = const { std::cell::RefCell::new(None) };
    static IN_SHRINK: std::cell::Cell<bool> = const { std::cell::Cell::new(false) };
    static SLOT: std::cell::Cell<usize> = const { std::cell::Cell::new(usize::MAX) };
    /// panics that started on this thread since the last `catch` boundary: a second one while the first is still
    /// unwinding (a destructor that panics during cleanup) makes the runtime abort the whole process
    static IN_FLIGHT: std::cell::Cell<u32> = const { std::cell::Cell::new(0) };
}

/// Called from the panic hook when a panic starts while another one is unwinding on the same thread: the process
/// is about to be aborted, so the case is reported here (a violation where a call that does not return is one)
fn report_imminent_abort(msg: &str) {
    let i = SLOT.with(|c| c.get());
    let (kind, desc) = if i != usize::MAX {
        let s = &slots()[i];
        (s.kind.lock().map(|k| k.clone()).unwrap_or_default(), s.desc.lock().map(|k| k.clone()).unwrap_or_default())
    } else {
        (String::new(), String::new())
    };
    let c = ctx();
    let why = format!("a panic inside a destructor while another panic was unwinding ({}): the runtime aborts the process", msg);
    let case: Value = serde_json::from_str(&desc).or_else(|_| serde_json::from_str(&format!("{}]", desc.trim_end_matches(',')))).or_else(|_| serde_json::from_str(&format!("{}]}}", desc.trim_end_matches(',')))).unwrap_or(Value::String(desc.clone()));
    if c.hang_is_violation {
        c.violation(&kind, case, Failure::new(format!("abort|{}", kind), why));
    } else {
        c.inconclusive(&format!("{} in case {} {}", why, kind, desc));
    }
    let code = c.finish();
    std::process::exit(code);
}

static SHRINK_BUDGET: AtomicUsize = AtomicUsize::new(3000);

/// Limit shrink iterations for checks whose single case is expensive
pub fn set_shrink_budget(n: usize) {
    SHRINK_BUDGET.store(n, Ordering::Relaxed);
}

pub fn in_shrink() -> bool {
    IN_SHRINK.with(|c| c.get())
}
fn set_shrink(b: bool) {
    IN_SHRINK.with(|c| c.set(b));
}

pub fn install_panic_hook() {
    panic::set_hook(Box::new(|info| {
        let msg = if let Some(s) = info.payload().downcast_ref::<&str>() {
            s.to_string()
        } else if let Some(s) = info.payload().downcast_ref::<String>() {
            s.clone()
        } else {
            "<non-string panic>".to_string()
        };
        let loc = info.location().map(|l| format!("{}:{}", l.file(), l.line())).unwrap_or_default();
        LAST_PANIC.with(|p| *p.borrow_mut() = Some(format!("{} @ {}", msg, loc)));
        let earlier = IN_FLIGHT.with(|c| {
            let n = c.get();
            c.set(n + 1);
            n
        });
        if earlier >= 1 && std::thread::panicking() {
            report_imminent_abort(&format!("{} @ {}", msg, loc));
        }
    }));
}

/// For fuzz targets: record the message like `install_panic_hook` but still let libFuzzer see the
/// default report of a panic that escapes (the FUZZ-VIOLATION line)
pub fn install_panic_hook_keep_default() {
    let default = panic::take_hook();
    panic::set_hook(Box::new(move |info| {
        let msg = if let Some(s) = info.payload().downcast_ref::<&str>() {
            s.to_string()
        } else if let Some(s) = info.payload().downcast_ref::<String>() {
            s.clone()
        } else {
            "<non-string panic>".to_string()
        };
        let loc = info.location().map(|l| format!("{}:{}", l.file(), l.line())).unwrap_or_default();
        LAST_PANIC.with(|p| *p.borrow_mut() = Some(format!("{} @ {}", msg, loc)));
        if msg.starts_with("FUZZ-VIOLATION") {
            default(info);
        }
    }));
}

/// Run `f`, converting a panic into Err(message @ location)
pub fn catch<T, F: FnOnce() -> T>(f: F) -> Result<T, String> {
    let outer = IN_FLIGHT.with(|c| c.replace(0));
    let r = panic::catch_unwind(AssertUnwindSafe(f));
    IN_FLIGHT.with(|c| c.set(outer));
    match r {
        Ok(v) => Ok(v),
        Err(_) => Err(LAST_PANIC.with(|p| p.borrow_mut().take()).unwrap_or_else(|| "<panic>".into())),
    }
}

/// File name (no line) part of a captured panic message, for signatures
pub fn panic_site(msg: &str) -> String {
    match msg.rfind(" @ ") {
        Some(i) => {
            let loc = &msg[i + 3..];
            let file = loc.rsplit('/').next().unwrap_or(loc);
            file.split(':').next().unwrap_or(file).to_string()
        },
        None => "?".into(),
    }
}

// ---------------------------------------------------------------------------------------------
// watchdog
// ---------------------------------------------------------------------------------------------
const MAX_SLOTS: usize = 64;
const HANG_CPU_SECS: f64 = 20.0;
const RSS_GROWTH_LIMIT_BYTES: u64 = 6 << 30;

struct Slot {
    active: AtomicBool,
    seq: AtomicU64,
    thread: AtomicU64, // pthread_t
    kind: Mutex<String>,
    desc: Mutex<String>,
}

static SLOTS: OnceLock<Vec<Slot>> = OnceLock::new();
static NEXT_SLOT: AtomicUsize = AtomicUsize::new(0);

fn slots() -> &'static Vec<Slot> {
    SLOTS.get_or_init(|| {
        (0..MAX_SLOTS)
            .map(|_| Slot {
                active: AtomicBool::new(false),
                seq: AtomicU64::new(0),
                thread: AtomicU64::new(0),
                kind: Mutex::new(String::new()),
                desc: Mutex::new(String::new()),
            })
            .collect()
    })
}

/// Register the calling thread as a worker watched by the watchdog
pub fn worker_enter() {
    let i = NEXT_SLOT.fetch_add(1, Ordering::SeqCst) % MAX_SLOTS;
    let s = &slots()[i];
    s.thread.store(unsafe { libc::pthread_self() } as u64, Ordering::SeqCst);
    s.seq.fetch_add(1, Ordering::SeqCst);
    s.active.store(true, Ordering::SeqCst);
    SLOT.with(|c| c.set(i));
}

pub fn worker_exit() {
    let i = SLOT.with(|c| c.get());
    if i != usize::MAX {
        slots()[i].active.store(false, Ordering::SeqCst);
        SLOT.with(|c| c.set(usize::MAX));
    }
}

/// Write-ahead: describe the case about to run (cheap: string copy)
#[inline]
pub fn mark(kind: &str, desc: &str) {
    let i = SLOT.with(|c| c.get());
    if i == usize::MAX {
        return;
    }
    let s = &slots()[i];
    {
        let mut k = s.kind.lock().unwrap();
        if *k != kind {
            k.clear();
            k.push_str(kind);
        }
    }
    {
        let mut d = s.desc.lock().unwrap();
        d.clear();
        d.push_str(desc);
    }
    s.seq.fetch_add(1, Ordering::Relaxed);
}

/// Append to the write-ahead description (histories: one op at a time)
#[inline]
pub fn mark_append(more: &str) {
    let i = SLOT.with(|c| c.get());
    if i == usize::MAX {
        return;
    }
    let s = &slots()[i];
    s.desc.lock().unwrap().push_str(more);
    s.seq.fetch_add(1, Ordering::Relaxed);
}

/// Progress tick without changing the description
#[inline]
pub fn tick() {
    let i = SLOT.with(|c| c.get());
    if i != usize::MAX {
        slots()[i].seq.fetch_add(1, Ordering::Relaxed);
    }
}

fn thread_cpu_secs(t: u64) -> Option<f64> {
    unsafe {
        let mut cid: libc::clockid_t = 0;
        if libc::pthread_getcpuclockid(t as libc::pthread_t, &mut cid) != 0 {
            return None;
        }
        let mut ts: libc::timespec = std::mem::zeroed();
        if libc::clock_gettime(cid, &mut ts) != 0 {
            return None;
        }
        Some(ts.tv_sec as f64 + ts.tv_nsec as f64 * 1e-9)
    }
}

fn rss_bytes() -> u64 {
    std::fs::read_to_string("/proc/self/statm")
        .ok()
        .and_then(|s| s.split_whitespace().nth(1).and_then(|x| x.parse::<u64>().ok()))
        .map(|pages| pages * 4096)
        .unwrap_or(0)
}

/// wall-clock seconds without progress (and without CPU use) after which a worker counts as blocked for good
const BLOCKED_WALL_SECS: f64 = 60.0;

pub fn start_watchdog() {
    std::thread::Builder::new()
        .name("watchdog".into())
        .spawn(|| {
            let mut last_seq = vec![0u64; MAX_SLOTS];
            let mut cpu_at_change = vec![0f64; MAX_SLOTS];
            let mut rss_at_change = vec![0u64; MAX_SLOTS];
            let mut wall_at_change = vec![std::time::Instant::now(); MAX_SLOTS];
            loop {
                std::thread::sleep(std::time::Duration::from_millis(100));
                let rss = rss_bytes();
                let mut worst: Option<(usize, f64)> = None;
                let mut grown: u64 = 0;
                for (i, s) in slots().iter().enumerate() {
                    if !s.active.load(Ordering::SeqCst) {
                        continue;
                    }
                    let seq = s.seq.load(Ordering::SeqCst);
                    let cpu = match thread_cpu_secs(s.thread.load(Ordering::SeqCst)) {
                        Some(c) => c,
                        None => continue,
                    };
                    if seq != last_seq[i] {
                        last_seq[i] = seq;
                        cpu_at_change[i] = cpu;
                        rss_at_change[i] = rss;
                        wall_at_change[i] = std::time::Instant::now();
                        continue;
                    }
                    let burned = cpu - cpu_at_change[i];
                    // blocked = no progress for a long wall-clock time while the thread used (almost) no CPU:
                    // it sleeps on a lock that is never released (self dead-lock on the filesystem's RwLock)
                    if wall_at_change[i].elapsed().as_secs_f64() > BLOCKED_WALL_SECS && burned < 2.0 {
                        let s = &slots()[i];
                        let kind = s.kind.lock().map(|k| k.clone()).unwrap_or_default();
                        let desc = s.desc.lock().map(|k| k.clone()).unwrap_or_default();
                        let why = format!("call blocked: no progress for {:.0}s wall clock with {:.2}s thread cpu time (dead-lock)", wall_at_change[i].elapsed().as_secs_f64(), burned);
                        let c = ctx();
                        let case: Value = serde_json::from_str(&desc)
                            .or_else(|_| serde_json::from_str(&format!("{}]", desc.trim_end_matches(','))))
                            .unwrap_or(Value::String(desc.clone()));
                        if c.hang_is_violation {
                            c.violation(&kind, case, Failure::new(format!("blocked|{}", kind), why));
                        } else {
                            c.inconclusive(&format!("{} in case {} {}", why, kind, desc));
                        }
                        let code = c.finish();
                        std::process::exit(code);
                    }
                    if worst.map(|w| burned > w.1).unwrap_or(true) {
                        worst = Some((i, burned));
                        // memory the process gained while this one case has been running
                        grown = rss.saturating_sub(rss_at_change[i]);
                    }
                }
                if let Some((i, burned)) = worst {
                    // runaway = the process grew by gigabytes while ONE case was executing (the
                    // harness' own bookkeeping grows slowly and across cases, never within one)
                    let runaway = grown > RSS_GROWTH_LIMIT_BYTES && burned > 0.3;
                    if burned > HANG_CPU_SECS || runaway {
                        let s = &slots()[i];
                        let kind = s.kind.lock().map(|k| k.clone()).unwrap_or_default();
                        let desc = s.desc.lock().map(|k| k.clone()).unwrap_or_default();
                        let why = if runaway {
                            format!("runaway allocation (process grew by {} MiB within one case) after {:.1}s cpu", grown >> 20, burned)
                        } else {
                            format!("no progress after {:.1}s thread cpu time", burned)
                        };
                        let c = ctx();
                        let case: Value = serde_json::from_str(&desc)
                            .or_else(|_| serde_json::from_str(&format!("{}]", desc.trim_end_matches(','))))
                            .unwrap_or(Value::String(desc.clone()));
                        if c.hang_is_violation {
                            let f = Failure::new(format!("hang|{}", kind), why);
                            if c.is_known(&f.sig) {
                                // cannot continue past a hang: report and stop the run here
                                println!("KNOWN-FINDING: property={} {} e.g. {}", c.prop, f.sig, desc);
                                c.inconclusive("run cut short by a listed hang finding");
                            } else {
                                c.violation(&kind, case, f);
                            }
                        } else {
                            c.inconclusive(&format!("{} in case {} {}", why, kind, desc));
                        }
                        let code = c.finish();
                        std::process::exit(code);
                    }
                }
            }
        })
        .unwrap();
}

// ---------------------------------------------------------------------------------------------
// parallel helpers
// ---------------------------------------------------------------------------------------------
pub fn n_workers() -> usize {
    std::env::var("VERIF_JOBS").ok().and_then(|s| s.parse().ok()).unwrap_or_else(|| {
        std::thread::available_parallelism().map(|n| n.get()).unwrap_or(4).min(16)
    })
}

/// Run `f(index)` for every index in 0..n on all workers (dynamic chunks)
pub fn par_for<F: Fn(u64) + Sync>(n: u64, chunk: u64, f: F) {
    let next = AtomicU64::new(0);
    let workers = n_workers().max(1);
    std::thread::scope(|sc| {
        for _ in 0..workers {
            sc.spawn(|| {
                worker_enter();
                loop {
                    let start = next.fetch_add(chunk, Ordering::Relaxed);
                    if start >= n || ctx().saturated() {
                        break;
                    }
                    let end = (start + chunk).min(n);
                    for i in start..end {
                        f(i);
                    }
                }
                worker_exit();
            });
        }
    });
}

/// Run `f(worker_index)` once on each of the workers
pub fn par_workers<F: Fn(usize, usize) + Sync>(f: F) {
    let workers = n_workers().max(1);
    std::thread::scope(|sc| {
        for w in 0..workers {
            let f = &f;
            sc.spawn(move || {
                worker_enter();
                f(w, workers);
                worker_exit();
            });
        }
    });
}

// ---------------------------------------------------------------------------------------------
// proptest driver
// ---------------------------------------------------------------------------------------------
fn rng_for(seed: u64, salt: u64) -> TestRng {
    let mut bytes = [0u8; 32];
    let mut x = splitmix(seed ^ splitmix(salt));
    for chunk in bytes.chunks_mut(8) {
        x = splitmix(x);
        chunk.copy_from_slice(&x.to_le_bytes());
    }
    TestRng::from_seed(RngAlgorithm::ChaCha, &bytes)
}

/// Drive `cases` generated values of `strategy` through `check` on all workers, shrink failures.
/// `check` must be a pure function of the value. Known findings are recorded and do not stop the run.
pub fn run_proptest<S, F, C>(kind: &str, salt: u64, make_strategy: F, cases: u32, check: C)
where
    S: Strategy,
    F: Fn() -> S + Sync,
    S::Value: Serialize + Clone + std::fmt::Debug,
    C: Fn(&S::Value) -> CaseResult + Sync,
{
    let c = ctx();
    let workers = n_workers().max(1);
    let per = (cases as usize + workers - 1) / workers;
    std::thread::scope(|sc| {
        for w in 0..workers {
            let make_strategy = &make_strategy;
            let check = &check;
            let c = c.clone();
            sc.spawn(move || {
                worker_enter();
                let strategy = make_strategy();
                let config = Config {
                    cases: per as u32,
                    failure_persistence: None,
                    max_shrink_iters: 4000,
                    max_global_rejects: 1_000_000,
                    max_local_rejects: 1_000_000,
                    ..Config::default()
                };
                let mut runner = TestRunner::new_with_rng(config, rng_for(c.seed, salt.wrapping_add(w as u64 * 7919)));
                let mut done = 0usize;
                // Explicit loop (instead of runner.run) so known findings never abort the campaign
                while done < per && !c.saturated() {
                    done += 1;
                    let tree = match strategy.new_tree(&mut runner) {
                        Ok(t) => t,
                        Err(_) => continue,
                    };
                    let value = tree.current();
                    let res = check(&value);
                    match res {
                        Ok(()) => {},
                        Err(f) if c.is_known(&f.sig) => {
                            c.judge(kind, &value, Err(f));
                        },
                        Err(first) => {
                            // shrink: keep simplifying while a non-known failure persists
                            set_shrink(true);
                            let mut tree = tree;
                            let mut best = (value.clone(), first);
                            let mut iters = 0;
                            if tree.simplify() {
                                loop {
                                    iters += 1;
                                    if iters > SHRINK_BUDGET.load(Ordering::Relaxed) {
                                        break;
                                    }
                                    let v = tree.current();
                                    tick();
                                    match check(&v) {
                                        Err(f) if !c.is_known(&f.sig) => {
                                            best = (v, f);
                                            if !tree.simplify() {
                                                break;
                                            }
                                        },
                                        _ => {
                                            if !tree.complicate() {
                                                break;
                                            }
                                        },
                                    }
                                }
                            }
                            set_shrink(false);
                            c.judge(kind, &best.0, Err(best.1));
                        },
                    }
                }
                worker_exit();
            });
        }
    });
    let _ = (TestCaseError::fail("unused"), None::<TestError<()>>);
}

/// Run committed regression replays for this property (always first)
pub fn replay_dir(c: &Ctx) -> Vec<(PathBuf, Value)> {
    let dir = c.verif_dir.join("replays").join(&c.prop);
    let mut out = vec![];
    if let Ok(rd) = std::fs::read_dir(&dir) {
        let mut files: Vec<_> = rd.filter_map(|e| e.ok()).map(|e| e.path()).filter(|p| p.extension().map(|e| e == "json").unwrap_or(false)).collect();
        files.sort();
        for p in files {
            match std::fs::read_to_string(&p).ok().and_then(|s| serde_json::from_str::<Value>(&s).ok()) {
                Some(v) => out.push((p, v)),
                None => {
                    c.inconclusive(&format!("unreadable replay file {}", p.display()));
                },
            }
        }
    }
    out
}
