//! `rvh envprobe`: evaluates requests (JSON lines on stdin) in this process' environment and
//! prints one JSON line per request. Started by the parent with env_clear() + exactly the
//! generated variables, so every configuration lives in its own process.
use std::io::{BufRead, Write};

use rivia::prelude::*;
use serde_json::{json, Value};

use crate::{engine::catch, obs::errkind};

fn res_path(r: Result<RvResult<std::path::PathBuf>, String>) -> Value {
    match r {
        Ok(Ok(p)) => {
            use std::os::unix::ffi::OsStrExt;
            match p.to_str() {
                Some(s) => json!({"ok": s}),
                None => json!({"ok": null, "ok_bytes": p.as_os_str().as_bytes().iter().map(|b| format!("{:02x}", b)).collect::<String>()}),
            }
        },
        Ok(Err(e)) => json!({"err": errkind(&e)}),
        Err(m) => json!({"panic": m}),
    }
}

fn res_paths(r: Result<RvResult<Vec<std::path::PathBuf>>, String>) -> Value {
    match r {
        Ok(Ok(v)) => json!({"ok": v.iter().map(|p| p.to_str().map(|s| s.to_string())).collect::<Vec<_>>()}),
        Ok(Err(e)) => json!({"err": errkind(&e)}),
        Err(m) => json!({"panic": m}),
    }
}

fn memfs_at(cwd: &str) -> Memfs {
    let m = Memfs::new();
    let _ = m.mkdir_p(cwd);
    let _ = m.set_cwd(cwd);
    m
}

pub fn main() {
    crate::engine::install_panic_hook();
    let stdin = std::io::stdin();
    let stdout = std::io::stdout();
    let mut out = stdout.lock();
    for line in stdin.lock().lines() {
        let line = match line {
            Ok(l) => l,
            Err(_) => break,
        };
        if line.trim().is_empty() {
            continue;
        }
        let req: Value = match serde_json::from_str(&line) {
            Ok(v) => v,
            Err(e) => {
                let _ = writeln!(out, "{}", json!({"bad_request": e.to_string()}));
                continue;
            },
        };
        let s = req["s"].as_str().unwrap_or("").to_string();
        let resp = match req["op"].as_str().unwrap_or("") {
            // environment changes inside this process (histories over environments)
            "setenv" => {
                std::env::set_var(req["k"].as_str().unwrap_or("X"), req["v"].as_str().unwrap_or(""));
                json!({"ok": null})
            },
            "unsetenv" => {
                std::env::remove_var(req["k"].as_str().unwrap_or("X"));
                json!({"ok": null})
            },
            "expand" => res_path(catch(|| sys::expand(&s))),
            "expand_ext" => res_path(catch(|| std::path::Path::new(&s).expand())),
            "abs_mem" => {
                let cwd = req["cwd"].as_str().unwrap_or("/");
                let m = memfs_at(cwd);
                res_path(catch(|| m.abs(&s)))
            },
            "abs_std" => {
                let cwd = req["cwd"].as_str().unwrap_or("/");
                match std::env::set_current_dir(cwd) {
                    Ok(_) => res_path(catch(|| Stdfs::abs(&s))),
                    Err(e) => json!({"harness_error": format!("chdir {}: {}", cwd, e)}),
                }
            },
            // "does no IO": with the process cwd deleted from under it, arguments that do not need the cwd
            // still resolve. LAST request of a child (the cwd stays broken)
            // Stdfs::set_cwd the three ways (associated function, trait method on the value, Vfs::Stdfs) on a cwd
            // reached through a link; every way starts from the same directory. Only in a child: the cwd is the
            // process's
            "set_cwd_ways" => {
                let dir = req["dir"].as_str().unwrap_or("/nonexistent").to_string();
                let prep = std::fs::create_dir_all(format!("{}/real/sub", dir)).and_then(|_| std::os::unix::fs::symlink(format!("{}/real", dir), format!("{}/link", dir)));
                match prep {
                    Ok(_) => {
                        let mut rows = vec![];
                        for spelled in [format!("{}/link", dir), format!("{}/link/sub", dir), format!("{}/real/sub", dir), format!("{}/link/../link/sub", dir), "link/sub".to_string(), format!("{}/missing", dir)] {
                            let mut row = vec![];
                            for way in 0..3 {
                                let _ = std::env::set_current_dir(&dir);
                                let r = match way {
                                    0 => catch(|| Stdfs::set_cwd(&spelled)),
                                    1 => catch(|| Stdfs::new().set_cwd(&spelled)),
                                    _ => catch(|| Vfs::stdfs().set_cwd(&spelled)),
                                };
                                let after = std::env::current_dir().ok().map(|p| p.to_string_lossy().to_string());
                                row.push(json!({"result": res_path(r), "process_cwd": after}));
                            }
                            rows.push(json!({"spelled": spelled, "ways": row}));
                        }
                        let _ = std::env::set_current_dir("/");
                        let _ = std::fs::remove_dir_all(&dir);
                        json!({"rows": rows})
                    },
                    Err(e) => json!({"harness_error": format!("prepare {}: {}", dir, e)}),
                }
            },
            // give up root for good (the child exits after its requests): what follows runs as uid/gid 65534
            "drop_privileges" => {
                let r = unsafe {
                    let a = libc::setgroups(0, std::ptr::null());
                    let b = libc::setgid(65534);
                    let c = libc::setuid(65534);
                    (a, b, c, libc::geteuid())
                };
                json!({"ok": r.3})
            },
            "abs_std_nocwd" => {
                let dir = req["dir"].as_str().unwrap_or("/nonexistent");
                let prep = std::fs::create_dir_all(dir).and_then(|_| std::env::set_current_dir(dir)).and_then(|_| std::fs::remove_dir(dir));
                match prep {
                    Ok(_) => {
                        let list: Vec<Value> = req["paths"].as_array().cloned().unwrap_or_default().iter().map(|p| {
                            let p = p.as_str().unwrap_or("").to_string();
                            res_path(catch(|| Stdfs::abs(&p)))
                        }).collect();
                        json!({"list": list})
                    },
                    Err(e) => json!({"harness_error": format!("prepare deleted cwd {}: {}", dir, e)}),
                }
            },
            // Stdfs::abs of relative arguments from a cwd whose own name is not valid UTF-8 (a Latin-1 directory name)
            "abs_std_oddcwd" => {
                use std::os::unix::ffi::{OsStrExt, OsStringExt};
                let dir = req["dir"].as_str().unwrap_or("/nonexistent");
                let mut odd = dir.as_bytes().to_vec();
                odd.extend_from_slice(b"/\xe9t\xe9");
                let odd = std::path::PathBuf::from(std::ffi::OsString::from_vec(odd));
                let prep = std::fs::create_dir_all(&odd).and_then(|_| std::env::set_current_dir(&odd));
                match prep {
                    Ok(_) => {
                        let list: Vec<Value> = req["paths"].as_array().cloned().unwrap_or_default().iter().map(|p| {
                            let p = p.as_str().unwrap_or("").to_string();
                            res_path(catch(|| Stdfs::abs(&p)))
                        }).collect();
                        let cwd = std::env::current_dir().map(|c| c.as_os_str().as_bytes().iter().map(|b| format!("{:02x}", b)).collect::<String>()).unwrap_or_default();
                        let _ = std::env::set_current_dir("/");
                        let _ = std::fs::remove_dir_all(dir);
                        json!({"list": list, "cwd_bytes": cwd})
                    },
                    Err(e) => json!({"harness_error": format!("prepare odd cwd under {}: {}", dir, e)}),
                }
            },
            "xdg" => json!({
                "home_dir": res_path(catch(user::home_dir)),
                "config_dir": res_path(catch(user::config_dir)),
                "cache_dir": res_path(catch(user::cache_dir)),
                "data_dir": res_path(catch(user::data_dir)),
                "state_dir": res_path(catch(user::state_dir)),
                "runtime_dir": res_path(catch(|| Ok(user::runtime_dir()))),
                "sys_config_dirs": res_paths(catch(user::sys_config_dirs)),
                "sys_data_dirs": res_paths(catch(user::sys_data_dirs)),
                "path_dirs": res_paths(catch(user::path_dirs)),
            }),
            "config_dir_mem" => {
                // files: absolute-or-relative paths to create (parents made first) on a fresh Memfs; an optional cwd
                // is entered first (relative candidates are relative to the filesystem's cwd)
                let m = Memfs::new();
                if let Some(cwd) = req["cwd"].as_str() {
                    let _ = m.mkdir_p(cwd);
                    let _ = m.set_cwd(cwd);
                }
                for f in req["files"].as_array().cloned().unwrap_or_default() {
                    if let Some(f) = f.as_str() {
                        if let Ok(abs) = m.abs(f) {
                            if let Ok(d) = abs.dir() {
                                let _ = m.mkdir_p(d);
                            }
                            let _ = m.mkfile(&abs);
                        }
                    }
                }
                let name = req["name"].as_str().unwrap_or("");
                match catch(|| {
                    let direct = m.config_dir(name);
                    let v = m.upcast();
                    let via = v.config_dir(name);
                    (direct, via)
                }) {
                    Ok((a, b)) => json!({"ok": a.as_ref().map(|p| p.to_str().map(|s| s.to_string())), "vfs_same": a == b}),
                    Err(m) => json!({"panic": m}),
                }
            },
            "config_dir_std" => {
                let name = req["name"].as_str().unwrap_or("");
                match catch(|| Stdfs::new().config_dir(name)) {
                    Ok(a) => json!({"ok": a.map(|p| p.to_str().map(|s| s.to_string()))}),
                    Err(m) => json!({"panic": m}),
                }
            },
            "getrids" => {
                let uid = req["uid"].as_u64().unwrap_or(0) as u32;
                let gid = req["gid"].as_u64().unwrap_or(0) as u32;
                match catch(|| user::getrids(uid, gid)) {
                    Ok((u, g)) => json!({"ok": [u, g]}),
                    Err(m) => json!({"panic": m}),
                }
            },
            other => json!({"bad_request": format!("unknown op {}", other)}),
        };
        let _ = writeln!(out, "{}", resp);
    }
    let _ = out.flush();
}

