//! Reference path algebra written from the documentation / property statements.
//! Never calls rivia. Works on UTF-8 strings; the only shared trusted piece is
//! `std::path::Path::components` where a law is stated at component level.
use std::collections::BTreeMap;
use std::path::{Component, Path, PathBuf};

/// Port of Go's `path.Clean`
pub fn ref_clean(path: &str) -> String {
    let p = path.as_bytes();
    if p.is_empty() {
        return ".".to_string();
    }
    let rooted = p[0] == b'/';
    let n = p.len();
    let mut out: Vec<u8> = Vec::with_capacity(n);
    let (mut r, mut dotdot) = (0usize, 0usize);
    if rooted {
        out.push(b'/');
        r = 1;
        dotdot = 1;
    }
    while r < n {
        if p[r] == b'/' {
            r += 1;
        } else if p[r] == b'.' && (r + 1 == n || p[r + 1] == b'/') {
            r += 1;
        } else if p[r] == b'.' && p[r + 1] == b'.' && (r + 2 == n || p[r + 2] == b'/') {
            r += 2;
            if out.len() > dotdot {
                let mut w = out.len() - 1;
                while w > dotdot && out[w] != b'/' {
                    w -= 1;
                }
                out.truncate(w);
            } else if !rooted {
                if !out.is_empty() {
                    out.push(b'/');
                }
                out.push(b'.');
                out.push(b'.');
                dotdot = out.len();
            }
        } else {
            if (rooted && out.len() != 1) || (!rooted && !out.is_empty()) {
                out.push(b'/');
            }
            while r < n && p[r] != b'/' {
                out.push(p[r]);
                r += 1;
            }
        }
    }
    if out.is_empty() {
        return ".".to_string();
    }
    String::from_utf8(out).expect("clean keeps utf8: only splits at '/' and '.'")
}

/// Remove one leading file/ftp/http/https scheme, case-insensitively, and nothing else
pub fn ref_trim_protocol(s: &str) -> String {
    for scheme in ["file://", "ftp://", "http://", "https://"] {
        if s.len() >= scheme.len() && s.is_char_boundary(scheme.len()) && s[..scheme.len()].eq_ignore_ascii_case(scheme) {
            return s[scheme.len()..].to_string();
        }
    }
    s.to_string()
}

#[derive(Debug, Clone, PartialEq, Eq)]
pub enum ExpandErr {
    MultipleHome,
    HomeNotLeading,
    EmptyVarName,
    VarNotSet(String),
}

pub type Env = BTreeMap<String, String>;

/// Is the template inside the documented grammar, i.e. every `$` starts `$NAME` that runs to the end
/// of its component or to the next `$`, or a well-formed `${NAME}`; NAME made of [A-Za-z0-9_]
/// (possibly empty = the documented error). Anything else ("${V" unterminated, stray '}', "$V-x")
/// has no documented meaning and is outside the comparison domain.
pub fn expand_in_grammar(s: &str) -> bool {
    for comp in s.split('/') {
        let b: Vec<char> = comp.chars().collect();
        let mut i = 0;
        while i < b.len() {
            if b[i] == '$' {
                i += 1;
                if i < b.len() && b[i] == '{' {
                    i += 1;
                    while i < b.len() && (b[i].is_ascii_alphanumeric() || b[i] == '_') {
                        i += 1;
                    }
                    if i >= b.len() || b[i] != '}' {
                        return false;
                    }
                    i += 1;
                } else {
                    while i < b.len() && (b[i].is_ascii_alphanumeric() || b[i] == '_') {
                        i += 1;
                    }
                    if i < b.len() && b[i] != '$' {
                        return false;
                    }
                }
            } else if b[i] == '{' || b[i] == '}' {
                return false;
            } else {
                i += 1;
            }
        }
    }
    true
}

/// Reference expansion. Returns the admitted results (component-level meaning; compare with
/// `Path` equality): one textual reading and, where a substituted value that starts with '/' forms
/// a whole non-first component, additionally the `PathBuf::push` reading pinned by the repo's tests.
pub fn ref_expand(env: &Env, s: &str) -> Result<Vec<PathBuf>, ExpandErr> {
    let tildes = s.matches('~').count();
    if tildes > 1 {
        return Err(ExpandErr::MultipleHome);
    }
    let mut lead: Option<PathBuf> = None;
    let mut rest: &str = s;
    if tildes == 1 {
        if s == "~" {
            rest = "";
        } else if let Some(r) = s.strip_prefix("~/") {
            rest = r;
        } else {
            return Err(ExpandErr::HomeNotLeading);
        }
        match env.get("HOME") {
            Some(h) => lead = Some(PathBuf::from(h)),
            None => return Err(ExpandErr::VarNotSet("HOME".into())),
        }
    }
    let pre: PathBuf = match lead {
        Some(h) => {
            if s == "~" {
                h
            } else {
                join_rel(&h, rest)
            }
        },
        None => PathBuf::from(rest),
    };
    let pre_s = pre.to_str().unwrap().to_string();
    if !pre_s.contains('$') {
        return Ok(vec![pre]);
    }
    // Reading T: substitute textually inside every component
    let mut textual = String::new();
    for (idx, comp) in pre_s.split('/').enumerate() {
        if idx > 0 {
            textual.push('/');
        }
        textual.push_str(&subst_component(env, comp)?);
    }
    let t = PathBuf::from(textual);
    // Reading P: each substituted component is pushed (an absolute value restarts the path);
    // pinned by the repository's own test_pathext_expand ("/foo/${HOME}" -> HOME)
    let mut p = PathBuf::new();
    for c in pre.components() {
        match c {
            Component::Normal(x) => p.push(subst_component(env, x.to_str().unwrap())?),
            other => p.push(other),
        }
    }
    let mut out = vec![t];
    if out[0] != p {
        out.push(p);
    }
    Ok(out)
}

fn join_rel(home: &Path, rest: &str) -> PathBuf {
    let rest = rest.trim_start_matches('/');
    if rest.is_empty() {
        home.components().collect()
    } else {
        home.join(rest).components().collect()
    }
}

fn subst_component(env: &Env, comp: &str) -> Result<String, ExpandErr> {
    let b: Vec<char> = comp.chars().collect();
    let mut out = String::new();
    let mut i = 0;
    while i < b.len() {
        if b[i] == '$' {
            i += 1;
            let mut name = String::new();
            if i < b.len() && b[i] == '{' {
                i += 1;
                while i < b.len() && b[i] != '}' {
                    name.push(b[i]);
                    i += 1;
                }
                i += 1; // '}'
            } else {
                while i < b.len() && b[i] != '$' {
                    name.push(b[i]);
                    i += 1;
                }
            }
            if name.is_empty() {
                return Err(ExpandErr::EmptyVarName);
            }
            match env.get(&name) {
                Some(v) => out.push_str(v),
                None => return Err(ExpandErr::VarNotSet(name)),
            }
        } else {
            out.push(b[i]);
            i += 1;
        }
    }
    Ok(out)
}

#[derive(Debug, Clone, PartialEq, Eq)]
pub enum AbsErr {
    Empty,
    Expand(ExpandErr),
    AboveRoot,
}

/// Reference abs(): admitted successful results and admitted errors (more than one only where
/// the two readings of an absolute substituted value differ)
pub fn ref_abs_admit(cwd: &str, env: &Env, s: &str) -> (Vec<String>, Vec<AbsErr>) {
    if s.is_empty() {
        return (vec![], vec![AbsErr::Empty]);
    }
    // protocol prefix first, then ~ / variable expansion, then Go-Clean, then the lexical join
    let t = ref_trim_protocol(s);
    if t.is_empty() {
        return (vec![cwd.to_string()], vec![]);
    }
    let expanded = match ref_expand(env, &t) {
        Ok(e) => e,
        Err(x) => return (vec![], vec![AbsErr::Expand(x)]),
    };
    let mut oks: Vec<String> = vec![];
    let mut errs: Vec<AbsErr> = vec![];
    for e in expanded {
        let e = e.to_str().unwrap().to_string();
        let c = ref_clean(&e);
        match join_clean(cwd, &c) {
            Ok(r) => {
                if !oks.contains(&r) {
                    oks.push(r)
                }
            },
            Err(x) => errs.push(x),
        }
    }
    (oks, errs)
}

pub fn ref_abs(cwd: &str, env: &Env, s: &str) -> Result<Vec<String>, AbsErr> {
    let (oks, errs) = ref_abs_admit(cwd, env, s);
    if oks.is_empty() {
        Err(errs.into_iter().next().unwrap_or(AbsErr::AboveRoot))
    } else {
        Ok(oks)
    }
}

/// Join a cleaned path onto an absolute clean cwd lexically
pub fn join_clean(cwd: &str, c: &str) -> Result<String, AbsErr> {
    if c.starts_with('/') {
        return Ok(c.to_string());
    }
    let mut stack: Vec<&str> = cwd.split('/').filter(|x| !x.is_empty()).collect();
    for comp in c.split('/') {
        match comp {
            "" | "." => {},
            ".." => {
                if stack.pop().is_none() {
                    return Err(AbsErr::AboveRoot);
                }
            },
            x => stack.push(x),
        }
    }
    Ok(format!("/{}", stack.join("/")))
}

/// Simple abs for paths without `~`/`$`/protocol (used by the filesystem model)
pub fn abs_plain(cwd: &str, s: &str) -> Result<String, AbsErr> {
    if s.is_empty() {
        return Err(AbsErr::Empty);
    }
    join_clean(cwd, &ref_clean(s))
}

pub fn parent(p: &str) -> String {
    match p.rfind('/') {
        Some(0) => "/".to_string(),
        Some(i) => p[..i].to_string(),
        None => "".to_string(),
    }
}

pub fn base(p: &str) -> String {
    match p.rfind('/') {
        Some(i) => p[i + 1..].to_string(),
        None => p.to_string(),
    }
}

pub fn join(dir: &str, name: &str) -> String {
    if dir == "/" {
        format!("/{}", name)
    } else {
        format!("{}/{}", dir, name)
    }
}

/// true when `p` is `anc` or lies below it (clean absolute paths)
pub fn is_under(p: &str, anc: &str) -> bool {
    p == anc || anc == "/" || (p.starts_with(anc) && p.as_bytes().get(anc.len()) == Some(&b'/'))
}

/// Navigation from clean absolute dir `from` to clean absolute `to` (reference for link `rel`)
pub fn ref_relative(to: &str, from: &str) -> String {
    let a: Vec<&str> = to.split('/').filter(|x| !x.is_empty()).collect();
    let b: Vec<&str> = from.split('/').filter(|x| !x.is_empty()).collect();
    let mut i = 0;
    while i < a.len() && i < b.len() && a[i] == b[i] {
        i += 1;
    }
    let mut parts: Vec<&str> = vec![];
    for _ in i..b.len() {
        parts.push("..");
    }
    parts.extend(&a[i..]);
    parts.join("/")
}

/// Components as comparable strings
pub fn comps(p: &Path) -> Vec<String> {
    p.components()
        .map(|c| match c {
            Component::RootDir => "/".to_string(),
            Component::CurDir => ".".to_string(),
            Component::ParentDir => "..".to_string(),
            Component::Normal(x) => x.to_string_lossy().to_string(),
            Component::Prefix(_) => "<prefix>".to_string(),
        })
        .collect()
}

#[cfg(test)]
mod tests {
    use super::*;
    #[test]
    fn go_clean_table() {
        // Go's path_test.go cleantests
        let t = [
            ("", "."), ("abc", "abc"), ("abc/def", "abc/def"), ("a/b/c", "a/b/c"), (".", "."), ("..", ".."),
            ("../..", "../.."), ("../../abc", "../../abc"), ("/abc", "/abc"), ("/", "/"), ("abc/", "abc"),
            ("abc/def/", "abc/def"), ("a/b/c/", "a/b/c"), ("./", "."), ("../", ".."), ("../../", "../.."),
            ("/abc/", "/abc"), ("abc//def//ghi", "abc/def/ghi"), ("//abc", "/abc"), ("///abc", "/abc"),
            ("//abc//", "/abc"), ("abc//", "abc"), ("abc/./def", "abc/def"), ("/./abc/def", "/abc/def"),
            ("abc/.", "abc"), ("abc/def/ghi/../jkl", "abc/def/jkl"), ("abc/def/../ghi/../jkl", "abc/jkl"),
            ("abc/def/..", "abc"), ("abc/def/../..", "."), ("/abc/def/../..", "/"),
            ("abc/def/../../..", ".."), ("/abc/def/../../..", "/"),
            ("abc/def/../../../ghi/jkl/../../../mno", "../../mno"), ("abc/./../def", "def"),
            ("abc//./../def", "def"), ("abc/../../././../def", "../../def"),
        ];
        for (i, o) in t {
            assert_eq!(ref_clean(i), o, "clean({:?})", i);
        }
    }
}
