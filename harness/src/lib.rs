//! rvh library: shared by the `rvh` binary and the cargo-fuzz targets
pub mod child;
pub mod engine;
pub mod envprobe;
pub mod fsalpha;
pub mod fsapply;
pub mod fsdrive;
pub mod fsgen;
pub mod fsmodel;
pub mod fstypes;
pub mod hsweep;
pub mod obs;
pub mod props;
pub mod refpath;
pub mod sandbox;
pub mod sched;
pub mod stdassoc;
pub mod strgen;
