//! Per-process scratch directories on tmpfs for Stdfs cases: /dev/shm/rvh-<pid>/<name>
use std::path::PathBuf;

pub fn root() -> PathBuf {
    let base = if std::path::Path::new("/dev/shm").is_dir() { PathBuf::from("/dev/shm") } else { std::env::temp_dir() };
    base.join(format!("rvh-{}", std::process::id()))
}

pub fn dir(name: &str) -> PathBuf {
    let d = root().join(name);
    let _ = std::fs::remove_dir_all(&d);
    if let Err(e) = std::fs::create_dir_all(&d) {
        eprintln!("rvh: cannot create sandbox {}: {}", d.display(), e);
        std::process::exit(2);
    }
    d
}

pub fn cleanup() {
    if std::fs::remove_dir_all(root()).is_err() && root().exists() {
        // e.g. a tree nested too deep for a recursive walk
        let _ = std::process::Command::new("rm").arg("-rf").arg("--").arg(root()).status();
    }
}
