//! C13 — the Vfs and VfsEntry enums are transparent wrappers
use std::collections::BTreeMap;
use std::sync::Mutex;

use rivia::prelude::*;
use serde_json::{json, Value};

use crate::{engine::*, fsalpha::*, fsapply::*, fsdrive::*, fsgen::*, fsmodel::Model, fstypes::*};

/// results that legitimately depend on per-instance hash order are compared as multisets
fn norm(o: &Out) -> Out {
    match o {
        Out::Seq(v) => {
            let mut v = v.clone();
            v.sort();
            Out::Seq(v)
        },
        x => x.clone(),
    }
}

/// All Entry accessors of the inner entry vs the wrapper, including follow/upcast/clone
fn entry_wrapper_diff(e: &VfsEntry) -> Option<String> {
    fn variants<E: Entry + Clone>(e: &E) -> Vec<EntryInfo> {
        vec![
            entry_info(e),
            entry_info(&e.clone()),
            entry_info(&e.clone().follow(false)),
            entry_info(&e.clone().follow(true)),
            entry_info(&e.clone().follow(true).follow(true)),
            entry_info(&e.clone().follow(true).follow(false)),
            entry_info(&e.clone().follow(false).follow(true)),
            entry_info(&e.clone().follow(true).follow(false).follow(true)),
            entry_info(&e.clone().upcast()),
            entry_info(&e.clone().upcast().follow(true)),
        ]
    }
    let (inner, outer) = match e {
        VfsEntry::Memfs(x) => (variants(x), variants(e)),
        VfsEntry::Stdfs(x) => (variants(x), variants(e)),
    };
    if inner != outer {
        for (i, (a, b)) in inner.iter().zip(outer.iter()).enumerate() {
            if a != b {
                return Some(format!("variant {}: inner {:?} wrapper {:?}", i, a, b));
            }
        }
    }
    // follow sequences: every step through the backend entry's own follow vs through the wrapper's
    fn chain(mut e: VfsEntry, seq: &[bool], via_wrapper: bool) -> EntryInfo {
        for b in seq {
            e = if via_wrapper {
                e.follow(*b)
            } else {
                match e {
                    VfsEntry::Memfs(x) => x.follow(*b),
                    VfsEntry::Stdfs(x) => x.follow(*b),
                }
            };
        }
        entry_info(&e)
    }
    for seq in [&[true][..], &[false], &[true, true], &[true, false], &[false, true], &[true, false, true], &[false, false, true, false]] {
        let (a, b) = (chain(e.clone(), seq, false), chain(e.clone(), seq, true));
        if a != b {
            return Some(format!("follow sequence {:?}: backend entry {:?} wrapper {:?}", seq, a, b));
        }
    }
    // every accessor of the wrapper vs the same accessor of the entry it wraps, after every follow chain
    // (follow() hands back a VfsEntry, so the wrapped entry has to be taken out again)
    fn unwrapped(e: &VfsEntry) -> EntryInfo {
        match e {
            VfsEntry::Memfs(x) => entry_info(x),
            VfsEntry::Stdfs(x) => entry_info(x),
        }
    }
    for seq in [&[][..], &[true], &[false], &[true, true], &[true, false], &[false, true]] {
        let mut v = e.clone();
        for b in seq {
            v = v.follow(*b);
        }
        let (a, b) = (unwrapped(&v), entry_info(&v));
        if a != b {
            return Some(format!("after follow {:?}: wrapped entry {:?} wrapper {:?}", seq, a, b));
        }
    }
    // path()/alt()/rel() reference accessors vs *_buf
    if e.path() != e.path_buf().as_path() || e.alt() != e.alt_buf().as_path() || e.rel() != e.rel_buf().as_path() {
        return Some("path()/alt()/rel() differ from their *_buf forms".into());
    }
    None
}

static SEEN: Mutex<BTreeMap<&'static str, (u64, u64, u64)>> = Mutex::new(BTreeMap::new());

fn record(op: &Op, o: &Out) {
    if in_shrink() {
        return;
    }
    let mut g = SEEN.lock().unwrap();
    let e = g.entry(op.name()).or_insert((0, 0, 0));
    e.0 += 1;
    match o {
        Out::Err(_) | Out::Bool(false) => e.2 += 1,
        _ => e.1 += 1,
    }
}

/// Execute ops on a plain Memfs and through Vfs::Memfs in lock step
pub fn check_ops(ops: &[Op]) -> CaseResult {
    let direct = Memfs::new();
    let wrapped = Vfs::Memfs(Memfs::new());
    let upcast = Memfs::new().upcast();
    // a fourth instance is driven directly and only upcast at the END of the history
    let late = Memfs::new();
    let (mut ha, mut hb, mut hc, mut hl) = (Handles::default(), Handles::default(), Handles::default(), Handles::default());
    mark("ops", "[");
    let mut any_partial = false;
    let mut loose_link_kinds = false;
    for (i, op) in ops.iter().enumerate() {
        mark_append(&format!("{},", serde_json::to_string(op).unwrap()));
        let a = apply_h(&direct, op, &mut ha);
        let _ = apply_h(&late, op, &mut hl);
        let b = apply_h(&wrapped, op, &mut hb);
        let c = apply_h(&upcast, op, &mut hc);
        record(op, &a);
        if let Out::Panic(m) = &a {
            // a panic of the backend itself is C12's business; here only the wrapper relation matters
            if !matches!(b, Out::Panic(_)) {
                return Err(Failure::new(format!("{}|panic-only-direct", op.name()), format!("step {}: {:?} panicked directly ({}) but not through Vfs", i + 1, op, m)));
            }
            continue;
        }
        let multi = matches!(op.name(), "chmod" | "chmod_b" | "chown" | "chown_b" | "copy" | "copy_b" | "remove_all");
        // which error a failing multi-entry call meets first depends on the per-instance traversal order
        let both_err = multi && a.is_err() && b.is_err() && c.is_err();
        if !both_err && (norm(&a) != norm(&b) || norm(&a) != norm(&c)) {
            return Err(Failure::new(
                format!("{}|result-differs-through-wrapper", op.name()),
                format!("step {}: {:?} direct {:?} Vfs::Memfs {:?} upcast {:?}", i + 1, op, a, b, c),
            ));
        }
        let partial = a.is_err() && matches!(op.name(), "chmod" | "chmod_b" | "chown" | "chown_b" | "copy" | "copy_b" | "remove_all");
        if partial {
            // how far a failing multi-entry call got depends on the per-instance traversal order: from here on
            // the fourth (late upcast) instance, which is not compared step by step, may differ in such leftovers
            any_partial = true;
        }
        let (da, db, dc) = (direct.verif_dump(), match &wrapped {
            Vfs::Memfs(m) => m.verif_dump(),
            _ => unreachable!(),
        }, match &upcast {
            Vfs::Memfs(m) => m.verif_dump(),
            _ => unreachable!(),
        });
        let (ta, tb, tc) = (tree_from_dump(&da), tree_from_dump(&db), tree_from_dump(&dc));
        // the fourth instance is only compared at the end; where a call's effect depends on the per-instance
        // traversal order (it can even succeed on one instance and fail on another) the two drift apart
        // legitimately - remembered, the final comparison is then the lenient one
        if !any_partial && tree_from_dump(&late.verif_dump()) != ta {
            any_partial = true;
        }
        // a copy creates the links of the source in the (per-instance) order its traversal meets them; whether a
        // copied link is typed as a directory link depends on whether its target had been copied already. That
        // flag is not comparable across instances after such a copy: from then on trees are compared without it
        let strip = |t: &Tree| -> Tree {
            let mut t = t.clone();
            for n in t.nodes.values_mut() {
                if let Node::Link { to_dir, .. } = n {
                    *to_dir = false;
                }
            }
            t
        };
        if (ta != tb || ta != tc) && !loose_link_kinds && matches!(op.name(), "copy" | "copy_b") && strip(&ta) == strip(&tb) && strip(&ta) == strip(&tc) {
            // later answers (is_symlink_dir, entry kinds, set_cwd on such a link ...) inherit the difference:
            // the history ends here, counted as excluded
            loose_link_kinds = true;
            ctx().exclude(1);
            return Ok(());
        }
        let (ta, tb, tc) = if loose_link_kinds { (strip(&ta), strip(&tb), strip(&tc)) } else { (ta, tb, tc) };
        if (ta != tb || ta != tc) && partial {
            // a failing multi-entry call stops wherever the (per-instance, unordered) traversal was:
            // the partial effect is not comparable across instances; the history ends here
            ctx().exclude(1);
            return Ok(());
        }
        if ta != tb || ta != tc {
            return Err(Failure::new(
                format!("{}|effect-differs-through-wrapper", op.name()),
                format!("step {}: {:?}: trees differ: direct {:?} wrapped {:?}", i + 1, op, ta.nodes.keys().collect::<Vec<_>>(), tb.nodes.keys().collect::<Vec<_>>()),
            ));
        }
        if let Op::Entry(p) = op {
            if let Ok(e) = wrapped.entry(p) {
                if let Some(d) = entry_wrapper_diff(&e) {
                    return Err(Failure::new("entry|accessor-differs-through-VfsEntry", format!("step {}: entry({:?}): {}", i + 1, p, d)));
                }
            }
        }
    }
    // upcast after the history, while write/append handles obtained before it are still open: the Vfs is the same
    // filesystem, so what those handles flush afterwards (here: when dropped) arrives in it
    let late = late.upcast();
    drop(hl);
    drop(ha);
    let late_tree = match &late {
        Vfs::Memfs(m) => tree_from_dump(&m.verif_dump()),
        _ => unreachable!(),
    };
    let direct_tree = tree_from_dump(&direct.verif_dump());
    if late_tree.cwd != direct_tree.cwd || (!any_partial && late_tree != direct_tree) {
        return Err(Failure::new("upcast|has-an-effect", format!("after the history, upcast changed the instance: cwd {:?} vs {:?}, {} vs {} entries", late_tree.cwd, direct_tree.cwd, late_tree.nodes.len(), direct_tree.nodes.len())));
    }
    for op in [Op::Cwd, Op::Abs("rel/x".into()), Op::Abs("..".into()), Op::Exists(".".into()), Op::Mkfile("late-probe".into()), Op::Paths(".".into()), Op::AllPaths("/".into())] {
        let (a, b) = (apply(&direct, &op), apply(&late, &op));
        // listings and probes below the cwd depend on the tree: skipped once the two instances drifted apart
        if any_partial && !matches!(op, Op::Cwd | Op::Abs(_)) {
            continue;
        }
        if norm(&a) != norm(&b) {
            return Err(Failure::new(format!("upcast|then-{}-differs", op.name()), format!("after the history + upcast: {:?} direct {:?} upcast {:?}", op, a, b)));
        }
    }
    // every entry of the final tree through the wrapper
    if let Ok(es) = wrapped.entries("/") {
        for e in es.into_iter().flatten() {
            if let Some(d) = entry_wrapper_diff(&e) {
                return Err(Failure::new("entry|accessor-differs-through-VfsEntry", format!("final entries: {:?}: {}", e.path(), d)));
            }
        }
    }
    Ok(())
}

/// Stdfs (trait impl on the unit struct) vs Vfs::Stdfs on twin sandbox directories
pub fn check_stdfs_twin(op_t: &Op) -> CaseResult {
    check_stdfs_twin_prog(std::slice::from_ref(op_t))
}

/// A program of calls (persistent write/append handles included) on twin sandbox directories: the result of
/// every call and the std::fs-observed tree after every call are the same for Stdfs and Vfs::Stdfs
pub fn check_stdfs_twin_prog(prog: &[Op]) -> CaseResult {
    use std::sync::atomic::{AtomicU64, Ordering};
    static SEQ: AtomicU64 = AtomicU64::new(0);
    let base = crate::sandbox::root();
    type Obs = Vec<(Out, Vec<(String, String)>)>;
    // way 0: the trait implementation on the Stdfs value; 1: through Vfs::Stdfs; 2: the associated functions
    // Stdfs::<name> (through the delegating adapter `StdfsAssoc`)
    let run = |way: u8| -> (Obs, Option<String>) {
        let wrapped = way == 1;
        let root = format!("{}/tw{}", base.to_str().unwrap(), SEQ.fetch_add(1, Ordering::Relaxed));
        let _ = std::fs::create_dir_all(&root);
        let sub = |o: &Op| -> Op { serde_json::from_str(&serde_json::to_string(o).unwrap().replace('@', &root)).unwrap() };
        let direct = Stdfs::new();
        let vfs = Vfs::stdfs();
        let assoc = crate::stdassoc::StdfsAssoc;
        for o in scenario_at("@") {
            let o = sub(&o);
            if matches!(o, Op::SetCwd(_) | Op::Chown(..)) {
                continue;
            }
            let _ = match way {
                1 => apply(&vfs, &o),
                2 => apply(&assoc, &o),
                _ => apply(&direct, &o),
            };
        }
        // links the crate itself would never write: the stored target text is absolute (made by ln -s or another tool)
        let _ = std::os::unix::fs::symlink(format!("{}/d/f", root), format!("{}/absl", root));
        let _ = std::os::unix::fs::symlink(format!("{}/d", root), format!("{}/absd", root));
        let mut handles = Handles::default();
        let mut obs: Obs = vec![];
        let mut acc = None;
        let st = |s: String| s.replace(&root, "@");
        for op_t in prog {
            let op = sub(op_t);
            let out = match way {
                1 => apply_h(&vfs, &op, &mut handles),
                2 => apply_h(&assoc, &op, &mut handles),
                _ => apply_h(&direct, &op, &mut handles),
            };
            // the trait implementation on the unit struct answers what the associated function answers
            if way == 0 && acc.is_none() {
                let assoc: Option<Out> = match &op {
                    Op::Exists(p) => Some(Out::Bool(Stdfs::exists(p))),
                    Op::IsDir(p) => Some(Out::Bool(Stdfs::is_dir(p))),
                    Op::IsFile(p) => Some(Out::Bool(Stdfs::is_file(p))),
                    Op::IsSymlink(p) => Some(Out::Bool(Stdfs::is_symlink(p))),
                    Op::IsSymlinkDir(p) => Some(Out::Bool(Stdfs::is_symlink_dir(p))),
                    Op::IsSymlinkFile(p) => Some(Out::Bool(Stdfs::is_symlink_file(p))),
                    Op::IsExec(p) => Some(Out::Bool(Stdfs::is_exec(p))),
                    Op::IsReadonly(p) => Some(Out::Bool(Stdfs::is_readonly(p))),
                    _ => None,
                };
                if let Some(a) = assoc {
                    if a != out {
                        acc = Some(format!("{:?}: trait method on the Stdfs value gives {:?}, the associated function Stdfs::{} gives {:?}", op_t, out, op.name(), a));
                    }
                }
            }
            // entry accessors through the wrapper
            if wrapped && acc.is_none() {
                if let Op::Entry(p) = &op {
                    if let Ok(e) = vfs.entry(p) {
                        acc = entry_wrapper_diff(&e);
                    }
                }
            }
            let t = crate::props::c20::tree_from_disk(&root);
            let out = match out {
                Out::Path(p) => Out::Path(st(p)),
                Out::Paths(v) => Out::Paths(v.into_iter().map(st).collect()),
                Out::Seq(v) => {
                    let mut v: Vec<String> = v.into_iter().map(st).collect();
                    v.sort();
                    Out::Seq(v)
                },
                Out::Entry(mut e) => {
                    e.path = st(e.path);
                    e.alt = st(e.alt);
                    if e.path == "@" {
                        e.file_name = None; // the twin directories are named differently
                    }
                    Out::Entry(e)
                },
                // (the stage at which a builder call fails is part of what the caller sees)
                // (the stage at which a builder call fails, and which error it is - kinds carry no path)
                Out::Err(e) => Out::Err(e),
                x => x,
            };
            let tree: Vec<(String, String)> = t.nodes.iter().map(|(k, n)| (k.clone(), match n {
                Node::Dir { mode, .. } => format!("dir {:o}", mode),
                Node::File { data, mode, .. } => format!("file {:o} {:?}", mode, data),
                Node::Link { target, .. } => format!("link {}", target),
            })).collect();
            obs.push((out, tree));
        }
        drop(handles);
        let _ = std::fs::remove_dir_all(&root);
        (obs, acc)
    };
    let (a, acc0) = run(0);
    if let Some(d) = acc0 {
        return Err(Failure::new("trait-impl-differs-from-associated-function|stdfs", d));
    }
    let (z, _) = run(2);
    for (i, op_t) in prog.iter().enumerate() {
        if a[i].0 != z[i].0 {
            return Err(Failure::new(format!("{}|trait-impl-result-differs-from-associated-function|stdfs", op_t.name()), format!("step {} of {:?}: method on the Stdfs value {:?}, Stdfs::{} {:?}", i + 1, prog, a[i].0, op_t.name(), z[i].0)));
        }
        if a[i].1 != z[i].1 {
            return Err(Failure::new(format!("{}|trait-impl-effect-differs-from-associated-function|stdfs", op_t.name()), format!("step {} of {:?}: trees differ {:?} vs {:?}", i + 1, prog, a[i].1, z[i].1)));
        }
    }
    let (b, acc) = run(1);
    if let Some(d) = acc {
        return Err(Failure::new("entry|accessor-differs-through-VfsEntry|stdfs", d));
    }
    for (i, op_t) in prog.iter().enumerate() {
        if a[i].0 != b[i].0 {
            return Err(Failure::new(format!("{}|result-differs-through-wrapper|stdfs", op_t.name()), format!("step {} of {:?}: Stdfs {:?} Vfs::Stdfs {:?}", i + 1, prog, a[i].0, b[i].0)));
        }
        if a[i].1 != b[i].1 {
            return Err(Failure::new(format!("{}|effect-differs-through-wrapper|stdfs", op_t.name()), format!("step {} of {:?}: trees differ {:?} vs {:?}", i + 1, prog, a[i].1, b[i].1)));
        }
    }
    Ok(())
}

fn scenario() -> Vec<Op> {
    scenario_at("")
}

fn scenario_at(root: &str) -> Vec<Op> {
    scenario_inner().into_iter().map(|o| serde_json::from_str(&serde_json::to_string(&o).unwrap().replace("\"/", &format!("\"{}/", root))).unwrap()).collect()
}

fn scenario_inner() -> Vec<Op> {
    vec![
        Op::MkdirM("/d/sub".into(), 0o750),
        Op::WriteAll("/d/f".into(), b"x\ny".to_vec()),
        Op::MkfileM("/d/sub/g".into(), 0o600),
        Op::MkfileM("/exe".into(), 0o755),
        // permission bits that differ between owner, group and other (a query looking at one class only shows)
        Op::MkfileM("/d/gw".into(), 0o464),
        Op::MkfileM("/d/gx".into(), 0o610),
        // siblings named like the directory plus a byte that sorts below the separator: depth-first name order
        // and byte order of the whole path differ (a wrapper that re-sorts would show)
        Op::WriteAll("/d-1".into(), b"s".to_vec()),
        Op::WriteAll("/d.txt".into(), b"t".to_vec()),
        Op::Chmod("/d/f".into(), 0o444),
        Op::Symlink("/lf".into(), "/d/f".into()),
        Op::Symlink("/ld".into(), "/d".into()),
        Op::Symlink("/dang".into(), "/nope".into()),
        Op::Chown("/d/sub".into(), 5, 6),
        Op::SetCwd("/d".into()),
    ]
}

pub fn run(c: &Ctx) {
    c.set_rule("(a) matrix: from a fixed mixed scenario (dirs, files with different modes/owners/bytes, link to file, link to dir, dangling link, cwd below root) every call form of the finite alphabet (every trait method incl. builder variants, builders executed after a cwd change, and handles) on every path of the scenario (absolute and cwd-relative; ordered pairs for copy/move/symlink) is executed on a plain Memfs, through Vfs::Memfs(..) and through Memfs::upcast(): identical result (value / error kind) and identical dump-derived tree after every call; every Entry accessor (path, alt, rel, *_buf, file_name, follow(true/false/twice), following, is_*, mode, upcast, clone) of the inner MemfsEntry vs the VfsEntry. (b) the same matrix on the real-filesystem backend: the Stdfs unit struct (trait impl) vs Vfs::Stdfs vs the associated functions Stdfs::<name> (through a purely delegating adapter) on triplet tmpfs directories, results and std::fs-observed trees equal, builders also split into creation and exec with resolvable and unresolvable arguments (the stage of a refusal is compared); plus every program of length 4 (quick) / 5 (thorough) over {open append x2 handles, open write, write x2, flush, drop x2, read} on one file with a tree observation after every step (buffering inside the wrapper would show). (c) every sequence of 3 calls over the 67-form alphabet of the C01 history sweep after 3 seed prefixes (quick: a seeded quarter) and the C01 random histories (with persistent write/append handles) executed the three Memfs ways. Non-trivial = call whose result is not an error and not 'false' on at least one path (a mis-routed arm would differ); distinct by (scenario prefix, call).");
    c.assume("Stdfs twin runs use absolute paths inside a sandbox (set_cwd excluded: process-global)");
    let base = scenario();
    let paths = ["/d/gw", "/d/gx", "/", "/d", "/d/f", "/d/sub", "/d/sub/g", "/exe", "/lf", "/ld", "/dang", "/nope", "f", "sub/g", "..", "../lf", "/d/new", "/new/deep"];
    let mut cases: Vec<Vec<Op>> = vec![];
    for p in paths {
        for op in single_path_ops(p, true) {
            let mut v = base.clone();
            v.push(op);
            v.push(Op::Entry(p.to_string()));
            cases.push(v);
        }
    }
    for a in paths {
        for b in paths {
            for op in two_path_ops(a, b, true) {
                let mut v = base.clone();
                v.push(op);
                v.push(Op::AllPaths("/".into()));
                cases.push(v);
            }
        }
    }
    for op in nullary_ops() {
        let mut v = base.clone();
        v.push(op);
        cases.push(v);
    }
    // builders whose exec() happens after a cwd change: whatever the backend does (bind the path when the
    // builder is made, or when it runs), the wrapper must do the same
    for p in ["f", "sub/g", "sub", "..", "/d/f", "", "~x"] {
        for cwd2 in ["/", "/d/sub", "/nope"] {
            let late = |o: Op| Op::Late(Box::new(o), cwd2.to_string());
            for op in [
                late(Op::ChmodB(p.into(), ChmodOpt { sel: ChmodSel::All(0o700), recursive: false, follow: false })),
                late(Op::ChownB(p.into(), ChownOpt { uid: Some(5), gid: Some(7), recursive: true, follow: false })),
                late(Op::CopyB(p.into(), "copied".into(), CopyOpt { mode: CopyMode::None, follow: false })),
                late(Op::CopyB("/exe".into(), p.into(), CopyOpt { mode: CopyMode::All(0o640), follow: false })),
            ] {
                let mut v = base.clone();
                v.push(op);
                v.push(Op::Cwd);
                cases.push(v);
            }
        }
    }
    par_for(cases.len() as u64, 16, |i| {
        let ops = &cases[i as usize];
        c.eval(1);
        let r = check_ops(ops);
        c.nontrivial(fp(&format!("{:?}", ops.last())) ^ fp(&format!("{:?}", ops.get(ops.len() - 2))));
        if i % 499 == 0 {
            c.sample(|| json!({"kind":"ops","ops": &ops[base.len()..]}));
        }
        c.judge("ops", ops, r);
    });
    c.note("matrix_cases", cases.len());
    // the same matrix for the real-filesystem backend: Stdfs vs Vfs::Stdfs on twin sandbox directories, under a
    // umask other than the usual 022 (a way that picks a mode of its own instead of leaving it to the backend and
    // the umask shows only then); restored after the Stdfs parts
    let old_umask = unsafe { libc::umask(0o027) };
    let spaths = ["@/absl", "@/absd", "@/dang", "@/d/gw", "@/d/gx", "@", "@/d", "@/d/f", "@/d/sub", "@/d/sub/g", "@/exe", "@/lf", "@/ld", "@/nope", "@/d/new", "@/new/deep"];
    let mut twin: Vec<Op> = vec![];
    for p in spaths {
        twin.extend(single_path_ops(p, true).into_iter().filter(|o| !matches!(o, Op::SetCwd(_))));
    }
    for a in spaths.iter().take(10) {
        for b in spaths.iter().take(10) {
            twin.extend(two_path_ops(a, b, false));
        }
    }
    // builders split into creation and exec (the cwd 'change' in between is to the cwd itself: process-global),
    // with arguments that resolve and arguments that do not: the stage at which the refusal comes is compared too
    for p in ["@/d/f", "@/d", "@/ld", "@/nope", "", "~x/y"] {
        let late = |o: Op| Op::Late(Box::new(o), ".".to_string());
        twin.push(late(Op::ChmodB(p.into(), ChmodOpt { sel: ChmodSel::All(0o700), recursive: false, follow: false })));
        twin.push(late(Op::ChownB(p.into(), ChownOpt { uid: Some(5), gid: Some(7), recursive: true, follow: false })));
        twin.push(late(Op::CopyB(p.into(), "@/copied".into(), CopyOpt { mode: CopyMode::None, follow: false })));
        twin.push(late(Op::CopyB("@/exe".into(), if p.starts_with('@') { format!("{}-c", p) } else { p.to_string() }, CopyOpt { mode: CopyMode::All(0o640), follow: false })));
    }
    for p in ["@/nope", "@/d/f", "@/d/new"] {
        twin.push(Op::MkfileM(p.into(), 0));
        twin.push(Op::MkdirM(format!("{}-dir", p), 0));
        twin.push(Op::MkfileM(p.into(), 0o7777));
    }
    par_for(twin.len() as u64, 8, |i| {
        let op = &twin[i as usize];
        mark("stdfs-twin", &serde_json::to_string(op).unwrap());
        c.eval(1);
        c.nontrivial(fp(&("twin", i)));
        c.class("stdfs-twin");
        record(op, &Out::Unit);
        c.judge("stdfs-twin", op, check_stdfs_twin(op));
    });
    // handle programs on the twins: every sequence over two handles on one file with writes, flushes, drops and reads
    let hf = "@/d/new".to_string();
    let alpha = vec![
        Op::HOpen(0, true, hf.clone()),
        Op::HOpen(1, true, hf.clone()),
        Op::HOpen(0, false, hf.clone()),
        Op::HWrite(0, b"a1".to_vec()),
        Op::HWrite(1, b"b1".to_vec()),
        Op::HFlush(0),
        Op::HDrop(0),
        Op::HDrop(1),
        Op::ReadAll(hf.clone()),
    ];
    let len = c.tier.pick(4u32, 5);
    let k = alpha.len() as u64;
    par_for(k.pow(len), 8, |i| {
        let mut prog = vec![];
        let mut x = i;
        for _ in 0..len {
            prog.push(alpha[(x % k) as usize].clone());
            x /= k;
        }
        // a final read makes buffered bytes that never reached the file observable as a result as well
        prog.push(Op::ReadAll(hf.clone()));
        mark("stdfs-twin-prog", &serde_json::to_string(&prog).unwrap());
        c.eval(1);
        let writes_on_open = {
            let mut open = [false; 2];
            let mut w = 0;
            for o in &prog {
                match o {
                    Op::HOpen(s, ..) => open[*s as usize] = true,
                    Op::HDrop(s) => open[*s as usize] = false,
                    Op::HWrite(s, _) if open[*s as usize] => w += 1,
                    _ => {},
                }
            }
            w
        };
        if writes_on_open > 0 {
            c.nontrivial(fp(&("twin-prog", i)));
            c.class("stdfs-twin:handle-program-with-write");
        }
        if i % 211 == 0 {
            c.sample(|| json!({"kind":"stdfs-twin-prog","ops":prog}));
        }
        c.judge("stdfs-twin-prog", &prog, check_stdfs_twin_prog(&prog));
    });
    // a read handle that stays open across a rewrite of its file: what it returns afterwards is what the backend's
    // own handle returns (a wrapper that reads ahead on its own hands back stale bytes)
    {
        c.eval(1);
        c.nontrivial(fp(&"read-handle-liveness"));
        c.class("stdfs-twin:read-handle-across-a-rewrite");
        let dir = crate::sandbox::root().join("c13-live");
        let _ = std::fs::create_dir_all(&dir);
        let mut obs: Vec<(Vec<u8>, usize, usize)> = vec![];
        let mut err: Option<String> = None;
        for way in 0..3u8 {
            let f = dir.join(format!("f{}", way));
            let _ = std::fs::write(&f, vec![b'o'; 20_000]);
            let opened: RvResult<Box<dyn ReadSeek>> = match way {
                0 => Stdfs::new().read(&f),
                1 => Vfs::stdfs().read(&f),
                _ => Stdfs::read(&f),
            };
            match opened {
                Ok(mut h) => {
                    let mut head = vec![0u8; 10];
                    let _ = h.read_exact(&mut head);
                    // rewritten in place (same inode), behind the handle's back
                    let _ = std::fs::OpenOptions::new().write(true).open(&f).and_then(|mut w| std::io::Write::write_all(&mut w, &vec![b'N'; 20_000]));
                    let mut rest = vec![];
                    let _ = h.read_to_end(&mut rest);
                    obs.push((head, rest.iter().filter(|b| **b == b'o').count(), rest.iter().filter(|b| **b == b'N').count()));
                },
                Err(e) => err = Some(e.to_string()),
            }
        }
        let _ = std::fs::remove_dir_all(&dir);
        let res = match err {
            Some(e) => {
                c.inconclusive(&format!("cannot open a read handle on the sandbox: {}", e));
                Ok(())
            },
            None if obs[0] == obs[1] && obs[0] == obs[2] => Ok(()),
            None => Err(Failure::new("read|handle-across-a-rewrite-differs-between-the-three-ways|stdfs", format!("(first 10 bytes, old bytes, new bytes in the rest): method on the Stdfs value {:?}, Vfs::Stdfs {:?}, Stdfs::read {:?}", obs[0], obs[1], obs[2]))),
        };
        c.judge("read-liveness", &json!(null), res);
    }
    unsafe { libc::umask(old_umask) };
    crate::sandbox::cleanup();
    // set_cwd on the real filesystem, the three ways, in a child process (the cwd is process-global): also when
    // the new cwd is reached through a link (what the call returns is the backend's answer, not a second opinion)
    {
        let dir = format!("{}/c13-cwd-{}", crate::sandbox::root().to_str().unwrap(), std::process::id());
        let e: std::collections::BTreeMap<String, String> = [("HOME".to_string(), "/h".to_string())].into_iter().collect();
        match crate::child::probe(&e, &[json!({"op":"set_cwd_ways","dir":dir})]) {
            Ok(resp) => match resp[0].get("rows").and_then(|r| r.as_array()) {
                Some(rows) => {
                    for row in rows {
                        c.eval(1);
                        c.nontrivial(fp(&("set_cwd-ways", row["spelled"].as_str())));
                        c.class("stdfs-twin:set_cwd-in-child");
                        let w = row["ways"].as_array().cloned().unwrap_or_default();
                        let res = if w.len() == 3 && w[0] == w[1] && w[0] == w[2] {
                            Ok(())
                        } else {
                            Err(Failure::new("set_cwd|result-differs-between-the-three-ways|stdfs", format!("set_cwd({}) from {}: Stdfs::set_cwd {} / method on the Stdfs value {} / Vfs::Stdfs {}", row["spelled"], dir, w.first().unwrap_or(&Value::Null), w.get(1).unwrap_or(&Value::Null), w.get(2).unwrap_or(&Value::Null))))
                        };
                        c.judge("set_cwd-ways", &json!([row["spelled"]]), res);
                    }
                },
                None => c.inconclusive(&format!("set_cwd child gave no rows: {}", resp[0])),
            },
            Err(x) => c.inconclusive(&format!("envprobe child failed: {}", x)),
        }
    }
    // every short history, the four ways (a wrapper that answers from what it remembers of earlier calls)
    crate::hsweep::history_sweep(c, 3, 1303, c.tier.pick(4, 1), "four-ways", check_ops);
    // (b) random histories
    let cfg = GenCfg { names: NAMES3, avoid_through_link: false, plain_spelling: false, wild: true, handles: true };
    let n = c.tier.pick(20_000, 200_000);
    run_proptest("ops", 1301, || history(40), n, |specs: &Vec<OpSpec>| {
        // resolve against a model that follows a scratch Memfs
        let mem = Memfs::new();
        let mut model = Model::fresh();
        let mut ops = vec![];
        let mut ex = 0u64;
        for s in specs {
            let op = resolve(&model, &cfg, s, &mut ex);
            let _ = step(&mem, &mut model, &op, &StepOpts { model_compare: false, api_view: false });
            ops.push(op);
        }
        c.eval(1);
        c.nontrivial(fp(&format!("{:?}", ops)));
        c.sample(|| json!({"kind":"ops","ops": ops.iter().take(10).collect::<Vec<_>>()}));
        match check_ops(&ops) {
            Ok(()) => Ok(()),
            Err(f) => Err(f.with_case("ops", json!(ops))),
        }
    });
    let seen = SEEN.lock().unwrap();
    let table: BTreeMap<String, Value> = seen.iter().map(|(k, v)| (k.to_string(), json!({"calls": v.0, "ok_or_true": v.1, "err_or_false": v.2}))).collect();
    let never_distinguishing: Vec<&str> = seen.iter().filter(|(_, v)| v.1 == 0).map(|(k, _)| *k).collect();
    c.note("per_method_counts", table);
    c.note("methods_without_distinguishing_case", never_distinguishing);
}

pub fn replay(kind: &str, case: &Value) -> Option<CaseResult> {
    match kind {
        "stdfs-twin-prog" => {
            let ops: Vec<Op> = serde_json::from_value(case.clone()).ok()?;
            let r = check_stdfs_twin_prog(&ops);
            crate::sandbox::cleanup();
            Some(r)
        },
        "ops" => {
            let ops: Vec<Op> = serde_json::from_value(case.clone()).ok()?;
            Some(check_ops(&ops))
        },
        "stdfs-twin" => {
            let op: Op = serde_json::from_value(case.clone()).ok()?;
            let r = check_stdfs_twin(&op);
            crate::sandbox::cleanup();
            Some(r)
        },
        _ => None,
    }
}
