//! C06 — file contents round-trip exactly: write truncates, append extends, read agrees
use std::collections::BTreeMap;
use std::io::{BufRead, Read, Write};
use std::sync::atomic::{AtomicU64, Ordering};

use proptest::prelude::*;
use rivia::prelude::*;
use serde::{Deserialize, Serialize};
use serde_json::{json, Value};

use crate::engine::*;

const FILES: &[&str] = &["d1/f1", "d1/f2", "d1/f3", "d2/f1", "d2/f2", "d2/f3"];

#[derive(Debug, Clone, Serialize, Deserialize, PartialEq)]
pub enum FOp {
    WriteAll(usize, Vec<u8>),
    AppendAll(usize, Vec<u8>),
    WriteLines(usize, Vec<String>),
    AppendLine(usize, String),
    AppendLines(usize, Vec<String>),
    /// handle write: chunks + flush flags
    WriteH(usize, Vec<Vec<u8>>, Vec<bool>),
    AppendH(usize, Vec<Vec<u8>>, Vec<bool>),
    /// copy file i onto path j
    CopyFile(usize, usize),
    /// copy file i into directory d (0 = d1, 1 = d2)
    CopyInto(usize, usize),
    Move(usize, usize),
    MoveInto(usize, usize),
    Remove(usize),
    /// handles that stay open across later steps (slot 0..2): open(slot, file, append), write, flush, drop
    HOpen(usize, usize, bool),
    HWrite(usize, Vec<u8>),
    HFlush(usize),
    HDrop(usize),
    /// a writing call addressed to a symlink that points at file 0 (kind: 0 write_all, 1 append_all, 2 write_lines,
    /// 3 write handle, 4 append handle): whatever it answers, "writing one path never changes another"
    ViaLink(u8, Vec<u8>),
}

#[derive(Debug, Clone, Serialize, Deserialize)]
pub struct FileCase {
    pub stdfs: bool,
    pub ops: Vec<FOp>,
}

static SEQ: AtomicU64 = AtomicU64::new(0);

fn idx(i: usize) -> usize {
    i % FILES.len()
}

fn into_target(i: usize, d: usize) -> usize {
    // index of dir d / name of file i
    let name = FILES[idx(i)].split('/').nth(1).unwrap();
    let dir = if d % 2 == 0 { "d1" } else { "d2" };
    FILES.iter().position(|f| *f == format!("{}/{}", dir, name)).unwrap()
}

fn lines_expect(lines: &[String]) -> Vec<u8> {
    lines.iter().map(|l| format!("{}\n", l)).collect::<String>().into_bytes()
}

pub fn check_files(case: &FileCase) -> CaseResult {
    let backend = if case.stdfs { "stdfs" } else { "memfs" };
    let (v, base, cleanup): (Vfs, String, Option<std::path::PathBuf>) = if case.stdfs {
        let d = crate::sandbox::root().join(format!("c06-{}", SEQ.fetch_add(1, Ordering::Relaxed)));
        let _ = std::fs::create_dir_all(&d);
        (Vfs::stdfs(), d.to_str().unwrap().to_string(), Some(d))
    } else {
        (Vfs::memfs(), "/w".to_string(), None)
    };
    let p = |i: usize| format!("{}/{}", base, FILES[idx(i)]);
    let res = catch(|| -> CaseResult {
        for d in ["d1", "d2"] {
            v.mkdir_p(format!("{}/{}", base, d)).map_err(|e| Failure::new(format!("setup|{}", backend), e.to_string()))?;
        }
        // a link to file 0 (dangling until that file exists): writing calls addressed to it must leave every file alone
        let _ = v.symlink(format!("{}/lnk", base), p(0));
        let mut model: BTreeMap<usize, Vec<u8>> = BTreeMap::new();
        // open handles: slot -> (file index, expected content once flushed, handle, settled)
        let mut open: Vec<Option<(usize, Vec<u8>, Box<dyn Write>, bool)>> = vec![None, None, None];
        // every handle is dropped at the end so that its bytes are checked too
        let mut all_ops = case.ops.clone();
        all_ops.extend([FOp::HDrop(0), FOp::HDrop(1), FOp::HDrop(2)]);
        for (step, op) in all_ops.iter().enumerate() {
            // a file with an open handle is left alone by every other call (when such bytes become
            // visible relative to other writers is not specified); counted as excluded
            let busy = |k: usize, open: &Vec<Option<(usize, Vec<u8>, Box<dyn Write>, bool)>>| open.iter().flatten().any(|h| h.0 == k);
            let touches: Vec<usize> = match op {
                FOp::WriteAll(i, _) | FOp::AppendAll(i, _) | FOp::WriteLines(i, _) | FOp::AppendLine(i, _) | FOp::AppendLines(i, _) | FOp::WriteH(i, ..) | FOp::AppendH(i, ..) | FOp::Remove(i) => vec![idx(*i)],
                FOp::CopyFile(i, j) | FOp::Move(i, j) => vec![idx(*i), idx(*j)],
                FOp::CopyInto(i, d) | FOp::MoveInto(i, d) => vec![idx(*i), into_target(*i, *d)],
                FOp::HOpen(_, i, _) => vec![idx(*i)],
                FOp::ViaLink(..) => vec![0],
                _ => vec![],
            };
            if touches.iter().any(|k| busy(*k, &open)) {
                ctx().exclude(1);
                continue;
            }
            let opname;
            // admitted alternatives for the documented-ambiguous empty-line cases
            let mut alt: Option<BTreeMap<usize, Vec<u8>>> = None;
            let r: Result<(), String> = match op {
                FOp::WriteAll(i, d) => {
                    opname = "write_all";
                    model.insert(idx(*i), d.clone());
                    v.write_all(p(*i), d).map_err(|e| e.to_string())
                },
                FOp::AppendAll(i, d) => {
                    opname = "append_all";
                    model.entry(idx(*i)).or_default().extend_from_slice(d);
                    v.append_all(p(*i), d).map_err(|e| e.to_string())
                },
                FOp::WriteLines(i, l) => {
                    opname = "write_lines";
                    if l.join("\n").is_empty() {
                        alt = Some(model.clone());
                    }
                    model.insert(idx(*i), lines_expect(l));
                    v.write_lines(p(*i), l).map_err(|e| e.to_string())
                },
                FOp::AppendLine(i, l) => {
                    opname = "append_line";
                    if l.is_empty() {
                        alt = Some(model.clone());
                    }
                    model.entry(idx(*i)).or_default().extend_from_slice(format!("{}\n", l).as_bytes());
                    v.append_line(p(*i), l).map_err(|e| e.to_string())
                },
                FOp::AppendLines(i, l) => {
                    opname = "append_lines";
                    if l.join("\n").is_empty() {
                        alt = Some(model.clone());
                    }
                    model.entry(idx(*i)).or_default().extend_from_slice(&lines_expect(l));
                    v.append_lines(p(*i), l).map_err(|e| e.to_string())
                },
                FOp::WriteH(i, chunks, fl) | FOp::AppendH(i, chunks, fl) => {
                    let append = matches!(op, FOp::AppendH(..));
                    opname = if append { "append-handle" } else { "write-handle" };
                    let e = model.entry(idx(*i)).or_default();
                    if !append {
                        e.clear();
                    }
                    e.extend_from_slice(&chunks.concat());
                    (|| -> Result<(), String> {
                        let mut h = if append { v.append(p(*i)) } else { v.write(p(*i)) }.map_err(|e| e.to_string())?;
                        for (k, c) in chunks.iter().enumerate() {
                            h.write_all(c).map_err(|e| e.to_string())?;
                            if fl.get(k).copied().unwrap_or(false) {
                                h.flush().map_err(|e| e.to_string())?;
                            }
                        }
                        drop(h);
                        Ok(())
                    })()
                },
                FOp::CopyFile(i, j) | FOp::CopyInto(i, j) => {
                    let into = matches!(op, FOp::CopyInto(..));
                    opname = if into { "copy-into-dir" } else { "copy-file" };
                    let (src, dst) = (idx(*i), if into { into_target(*i, *j) } else { idx(*j) });
                    let dstp = if into { format!("{}/{}", base, if j % 2 == 0 { "d1" } else { "d2" }) } else { p(*j) };
                    if !model.contains_key(&src) {
                        // source missing: whether and how the call fails is C01's business, but no file's
                        // content may change (the destination's least of all)
                        let _ = v.copy(p(*i), dstp);
                        ctx().class("files:copy-from-missing-source");
                        Ok(())
                    } else {
                        let data = model[&src].clone();
                        model.insert(dst, data);
                        v.copy(p(*i), dstp).map_err(|e| e.to_string())
                    }
                },
                FOp::Move(i, j) | FOp::MoveInto(i, j) => {
                    let into = matches!(op, FOp::MoveInto(..));
                    opname = if into { "move-into-dir" } else { "move" };
                    let (src, dst) = (idx(*i), if into { into_target(*i, *j) } else { idx(*j) });
                    if src == dst {
                        continue;
                    }
                    let dstp = if into { format!("{}/{}", base, if j % 2 == 0 { "d1" } else { "d2" }) } else { p(*j) };
                    if !model.contains_key(&src) {
                        let _ = v.move_p(p(*i), dstp);
                        ctx().class("files:move-from-missing-source");
                        Ok(())
                    } else {
                        let data = model.remove(&src).unwrap();
                        model.insert(dst, data);
                        v.move_p(p(*i), dstp).map_err(|e| e.to_string())
                    }
                },
                FOp::ViaLink(kind, d) => {
                    opname = "write-addressed-to-a-link";
                    let lnk = format!("{}/lnk", base);
                    ctx().class("files:write-addressed-to-a-link");
                    match kind % 5 {
                        0 => drop(v.write_all(&lnk, d)),
                        1 => drop(v.append_all(&lnk, d)),
                        2 => drop(v.write_lines(&lnk, &[String::from_utf8_lossy(d).replace(['\n', '\r'], "_")])),
                        k => {
                            if let Ok(mut h) = if k == 3 { v.write(&lnk) } else { v.append(&lnk) } {
                                let _ = h.write_all(d);
                                let _ = h.flush();
                            }
                        },
                    }
                    Ok(())
                },
                FOp::Remove(i) => {
                    opname = "remove";
                    model.remove(&idx(*i));
                    v.remove(p(*i)).map_err(|e| e.to_string())
                },
                FOp::HOpen(slot, i, append) => {
                    opname = if *append { "handle-open-append" } else { "handle-open-write" };
                    let k = idx(*i);
                    let s = slot % 3;
                    if open[s].is_some() {
                        continue;
                    }
                    // on Memfs every other slot opens through a cwd-relative spelling and the cwd moves on right after:
                    // a handle writes back to the file it was opened on, wherever the cwd is by then
                    let opened = if !case.stdfs && slot % 2 == 1 {
                        let full = p(*i);
                        let (d, name) = full.rsplit_once('/').unwrap();
                        let _ = v.set_cwd(d);
                        let r = if *append { v.append(name) } else { v.write(name) };
                        let _ = v.set_cwd("/");
                        r
                    } else if *append {
                        v.append(p(*i))
                    } else {
                        v.write(p(*i))
                    };
                    match opened {
                        Ok(h) => {
                            let base = if *append { model.get(&k).cloned().unwrap_or_default() } else { vec![] };
                            // the file exists from now on; a write handle's truncation may become visible only at flush
                            let settled = *append || !model.contains_key(&k) || model.get(&k).map(|d| d.is_empty()).unwrap_or(true);
                            model.entry(k).or_default();
                            open[s] = Some((k, base, h, settled));
                            Ok(())
                        },
                        Err(e) => Err(e.to_string()),
                    }
                },
                FOp::HWrite(slot, d) => {
                    opname = "handle-write";
                    match open[slot % 3].as_mut() {
                        Some(h) => {
                            h.1.extend_from_slice(d);
                            h.2.write_all(d).map_err(|e| e.to_string())
                        },
                        None => continue,
                    }
                },
                FOp::HFlush(slot) => {
                    opname = "handle-flush";
                    match open[slot % 3].as_mut() {
                        Some(h) => {
                            model.insert(h.0, h.1.clone());
                            h.3 = true;
                            h.2.flush().map_err(|e| e.to_string())
                        },
                        None => continue,
                    }
                },
                FOp::HDrop(slot) => {
                    opname = "handle-drop";
                    match open[slot % 3].take() {
                        Some(h) => {
                            model.insert(h.0, h.1.clone());
                            drop(h.2);
                            Ok(())
                        },
                        None => continue,
                    }
                },
            };
            if let Err(e) = r {
                return Err(Failure::new(format!("{}|unexpected-err|{}", opname, backend), format!("step {} {:?}: Err({})", step + 1, op, e)));
            }
            // observe every file after every step
            let mut matches_alt = alt.is_some();
            let mut first_bad: Option<Failure> = None;
            for k in 0..FILES.len() {
                // content under an open handle is only specified at flush/drop
                if open.iter().flatten().any(|h| h.0 == k) {
                    let settled_and_flushed = false;
                    if !settled_and_flushed {
                        continue;
                    }
                }
                let path = p(k);
                let mut got: Option<Vec<u8>> = None;
                if v.exists(&path) {
                    let mut b = vec![];
                    match v.read(&path).map(|mut h| h.read_to_end(&mut b).map(|_| h)) {
                        Ok(Ok(mut h)) => {
                            // the same handle, moved around with seeks from every origin, keeps returning the file's bytes
                            if let Some(d) = crate::fsapply::handle_session_mismatch(&mut h, &b) {
                                return Err(Failure::new(format!("read|handle-session-differs-from-cursor|{}", backend), format!("step {}: read({}): {}", step + 1, FILES[k], d)));
                            }
                            got = Some(b)
                        },
                        _ => return Err(Failure::new(format!("read|err-on-existing-file|{}", backend), format!("step {}: read({}) failed", step + 1, FILES[k]))),
                    }
                }
                if case.stdfs {
                    let direct = std::fs::read(&path).ok();
                    if direct != got {
                        return Err(Failure::new("read|differs-from-std-fs-read|stdfs", format!("step {}: {} handle {:?} vs std::fs::read {:?}", step + 1, FILES[k], got, direct)));
                    }
                }
                let want = model.get(&k);
                if got.as_ref() != want {
                    if first_bad.is_none() {
                        let target = match op {
                            FOp::HWrite(..) | FOp::HFlush(..) | FOp::HDrop(..) | FOp::HOpen(..) | FOp::ViaLink(..) => false,
                            FOp::WriteAll(i, _) | FOp::AppendAll(i, _) | FOp::WriteLines(i, _) | FOp::AppendLine(i, _) | FOp::AppendLines(i, _) | FOp::WriteH(i, ..) | FOp::AppendH(i, ..) | FOp::Remove(i) => idx(*i) == k,
                            _ => true,
                        };
                        first_bad = Some(Failure::new(
                            format!("{}|{}|{}", opname, if target { "wrong-content" } else { "other-file-changed" }, backend),
                            format!("step {} {:?}: {} holds {:?} want {:?}", step + 1, op, FILES[k], got.as_ref().map(|b| String::from_utf8_lossy(b).to_string()), want.map(|b| String::from_utf8_lossy(b).to_string())),
                        ));
                    }
                }
                if let Some(a) = &alt {
                    if got.as_ref() != a.get(&k) {
                        matches_alt = false;
                    }
                }
                // read_all / read_lines agree with the bytes
                if let Some(bytes) = &got {
                    let ra = v.read_all(&path);
                    match (String::from_utf8(bytes.clone()), &ra) {
                        (Ok(s), Ok(r)) if s == *r => {},
                        (Err(_), Err(_)) => {},
                        _ => return Err(Failure::new(format!("read_all|disagrees-with-bytes|{}", backend), format!("step {}: {} read_all = {:?} bytes {:?}", step + 1, FILES[k], ra.map_err(|e| e.to_string()), String::from_utf8_lossy(bytes)))),
                    }
                    let want_lines: Result<Vec<String>, ()> = (&bytes[..]).lines().map(|l| l.map_err(|_| ())).collect();
                    let rl = v.read_lines(&path);
                    match (&want_lines, &rl) {
                        (Ok(a), Ok(b)) if a == b => {},
                        (Err(_), Err(_)) => {},
                        _ => return Err(Failure::new(format!("read_lines|disagrees-with-bytes|{}", backend), format!("step {}: {} read_lines = {:?} want {:?}", step + 1, FILES[k], rl.map_err(|e| e.to_string()), want_lines))),
                    }
                }
            }
            if let Some(f) = first_bad {
                if matches_alt {
                    model = alt.unwrap(); // the deliberately skipped empty-line case
                } else {
                    return Err(f);
                }
            }
            // round trip of proper lines
            if let FOp::WriteLines(i, l) = op {
                if !l.is_empty() && l.iter().all(|x| !x.is_empty() && !x.contains('\n') && !x.contains('\r')) {
                    match v.read_lines(p(*i)) {
                        Ok(back) if back == *l => {},
                        other => return Err(Failure::new(format!("write_lines|read_lines-round-trip|{}", backend), format!("wrote {:?} read back {:?}", l, other.map_err(|e| e.to_string())))),
                    }
                }
            }
        }
        Ok(())
    });
    if let Some(d) = cleanup {
        let _ = std::fs::remove_dir_all(d);
    }
    match res {
        Ok(r) => r,
        Err(m) => Err(Failure::new(format!("panic|{}|{}", panic_site(&m), backend), format!("history panicked: {}", m))),
    }
}

fn data() -> impl Strategy<Value = Vec<u8>> {
    prop_oneof![
        3 => prop::collection::vec(prop::sample::select(&b"ab \n"[..]), 0..8),
        2 => "[a-c é日😀\n]{0,8}".prop_map(|s| s.into_bytes()),
        1 => "\u{feff}[a-c\n]{0,6}".prop_map(|s| s.into_bytes()),
        2 => prop::collection::vec(prop::sample::select(&[0xffu8, 0xc3, 0xa9, b'\r', b'\n', 0, b'z'][..]), 0..10),
        1 => prop::collection::vec(any::<u8>(), 0..64),
        1 => (1usize..17).prop_map(|k| (0..k * 1024).map(|i| (i % 251) as u8).collect()),
        1 => (63usize..67).prop_map(|k| (0..k * 1024 + 1).map(|i| (i % 249) as u8).collect()),
        // multi-kilobyte VALID text whose multi-byte characters straddle every power-of-two offset for some shift
        // (a reader that decodes chunk by chunk shows only there)
        1 => (0usize..4, prop::sample::select(&[1usize, 4, 5, 8, 9, 17, 65][..])).prop_map(|(o, k)| {
            let mut s = "x".repeat(o);
            while s.len() < k * 1024 + 7 {
                s.push_str("日é😀a");
            }
            s.into_bytes()
        }),
    ]
}

fn line() -> impl Strategy<Value = String> {
    prop_oneof![
        5 => "[a-c é日]{1,6}",
        1 => "\u{feff}[a-c é]{0,4}",
        1 => Just(String::new()),
        1 => "[ab]{0,3}\n[ab]{0,2}",
        1 => "[ab]{1,3}\n",
        1 => "[ab]{1,3}\r",
    ]
}

fn fop() -> impl Strategy<Value = FOp> {
    let i = 0usize..6;
    prop_oneof![
        3 => (i.clone(), data()).prop_map(|(i, d)| FOp::WriteAll(i, d)),
        3 => (i.clone(), data()).prop_map(|(i, d)| FOp::AppendAll(i, d)),
        2 => (i.clone(), prop::collection::vec(line(), 0..4)).prop_map(|(i, l)| FOp::WriteLines(i, l)),
        2 => (i.clone(), line()).prop_map(|(i, l)| FOp::AppendLine(i, l)),
        2 => (i.clone(), prop::collection::vec(line(), 0..4)).prop_map(|(i, l)| FOp::AppendLines(i, l)),
        2 => (i.clone(), prop::collection::vec(data(), 0..4), prop::collection::vec(any::<bool>(), 4)).prop_map(|(i, c, f)| FOp::WriteH(i, c, f)),
        3 => (i.clone(), prop::collection::vec(data(), 0..4), prop::collection::vec(any::<bool>(), 4)).prop_map(|(i, c, f)| FOp::AppendH(i, c, f)),
        2 => (i.clone(), i.clone()).prop_map(|(a, b)| FOp::CopyFile(a, b)),
        1 => (i.clone(), 0usize..2).prop_map(|(a, b)| FOp::CopyInto(a, b)),
        2 => (i.clone(), i.clone()).prop_map(|(a, b)| FOp::Move(a, b)),
        1 => (i.clone(), 0usize..2).prop_map(|(a, b)| FOp::MoveInto(a, b)),
        1 => i.clone().prop_map(FOp::Remove),
        1 => (0u8..5, data()).prop_map(|(k, d)| FOp::ViaLink(k, d)),
        2 => (0usize..3, i, any::<bool>()).prop_map(|(s, f, a)| FOp::HOpen(s, f, a)),
        3 => (0usize..3, data()).prop_map(|(s, d)| FOp::HWrite(s, d)),
        1 => (0usize..3).prop_map(FOp::HFlush),
        2 => (0usize..3).prop_map(FOp::HDrop),
    ]
}

pub fn run(c: &Ctx) {
    c.set_rule("histories of 1..30 file operations (write_all, append_all, write_lines, append_line, append_lines, write()/append() handles with chunked writes and flushes, copy file->file and into a directory, move_p file->file and into a directory, copies and moves from a missing source (whatever they answer, no file's content may change), remove+recreate, writing calls addressed to a symlink that points at one of the files (whatever they answer, no file's content may change); write()/append() handles that stay open across later steps on other files and are flushed/dropped at arbitrary later points) over six file paths in two directories; data: empty, ASCII with newlines, multi-byte UTF-8, invalid UTF-8 / CR / NUL, random bytes, 1-16 KiB and 63-67 KiB blocks, 1-65 KiB of valid text made of 1-4 byte characters at every alignment; lines incl. empty ones and ones carrying a terminator. After EVERY step every path is read back (read handle, read_all, read_lines; on Stdfs also std::fs::read) and compared with a byte-vector model: write replaces, append extends, helpers add one newline per line, untouched files unchanged, copies/moves do not alias; read_lines(write_lines(ls))==ls for proper lines. Both backends. Plus, on Stdfs, every program of length 5/6 over several append writers of one file (two append handles with write+flush, append_all, append_line): old content plus every chunk in call order after every step. Non-trivial = history with >=2 writes/appends to one file and a multi-byte or invalid-UTF-8 payload; distinct by history.");
    c.assume("append_line(\"\") and write_lines/append_lines whose joined text is empty: no-op or newline form both admitted (deliberately skipped by both backends; outside the statement's round-trip clause)");
    // a copy duplicates content whatever the clocks say: same length, other bytes, destination (or source) stamped
    // ten seconds / a day into the future or the past
    {
        let d = crate::sandbox::root().join("c06-mtime");
        let _ = std::fs::create_dir_all(&d);
        let v = Vfs::stdfs();
        let now = std::time::SystemTime::now();
        for (k, (src_shift, dst_shift)) in [(0i64, 10i64), (0, 86_400), (10, 0), (-86_400, 0), (0, -10), (3, 3)].iter().enumerate() {
            let (src, dst) = (d.join(format!("s{}", k)), d.join(format!("t{}", k)));
            let _ = std::fs::write(&src, b"source bytes");
            let _ = std::fs::write(&dst, b"older bytes!");
            let stamp = |p: &std::path::Path, shift: i64| {
                let t = if shift >= 0 { now + std::time::Duration::from_secs(shift as u64) } else { now - std::time::Duration::from_secs((-shift) as u64) };
                let _ = std::fs::OpenOptions::new().write(true).open(p).and_then(|f| f.set_modified(t));
            };
            stamp(&src, *src_shift);
            stamp(&dst, *dst_shift);
            c.eval(1);
            c.nontrivial(fp(&("mtime", k)));
            c.class("files:copy-vs-timestamps");
            let r = v.copy(&src, &dst);
            let got = std::fs::read(&dst).unwrap_or_default();
            let res = if r.is_ok() && got != b"source bytes" {
                Err(Failure::new("copy-file|wrong-content|timestamps|stdfs", format!("copy(src stamped {:+}s, dst stamped {:+}s) returned Ok but dst holds {:?}", src_shift, dst_shift, String::from_utf8_lossy(&got))))
            } else {
                Ok(())
            };
            c.judge("files", &json!({"stdfs": true, "ops": []}), res);
        }
        let _ = std::fs::remove_dir_all(&d);
    }
    // files whose reported size is not their length (procfs and sysfs say 0 or 4096): the readers return the content,
    // as std::fs does, not what the size promises
    {
        let v = Vfs::stdfs();
        for p in ["/proc/version", "/proc/filesystems", "/proc/cmdline", "/proc/sys/kernel/ostype", "/sys/kernel/mm/transparent_hugepage/enabled", "/proc/self/comm"] {
            let want = match std::fs::read_to_string(p) {
                Ok(w) if !w.is_empty() => w,
                _ => continue,
            };
            c.eval(1);
            c.nontrivial(fp(&("pseudo", p)));
            c.class("files:size-is-not-length");
            let all = v.read_all(p).map_err(|e| e.to_string());
            let lines = v.read_lines(p).map_err(|e| e.to_string());
            let mut buf = vec![];
            let rd = v.read(p).map_err(|e| e.to_string()).and_then(|mut r| std::io::Read::read_to_end(&mut r, &mut buf).map_err(|e| e.to_string()));
            let res = if all.as_ref() != Ok(&want) {
                Err(Failure::new("read_all|differs-from-std|size-is-not-length|stdfs", format!("read_all({:?}) = {:?}, std::fs::read_to_string = {:?}", p, all, want)))
            } else if lines.as_ref().map(|l| l.len()).ok() != Some(want.lines().count()) {
                Err(Failure::new("read_lines|differs-from-std|size-is-not-length|stdfs", format!("read_lines({:?}) = {:?}, content {:?}", p, lines, want)))
            } else if rd.is_err() || buf != want.as_bytes() {
                Err(Failure::new("read|differs-from-std|size-is-not-length|stdfs", format!("read({:?}) gave {:?} / {} bytes, content has {}", p, rd, buf.len(), want.len())))
            } else {
                Ok(())
            };
            c.judge("files", &json!({"stdfs": true, "ops": []}), res);
        }
    }
    // "an append adds at the end and never alters the existing prefix" with several writers on one Stdfs file
    crate::props::c07::run_append_interleave(c, c.tier.pick(5, 6));
    for (stdfs, n, salt) in [(false, c.tier.pick(30_000, 300_000), 600u64), (true, c.tier.pick(2_000, 20_000), 601)] {
        run_proptest("files", salt, || prop::collection::vec(fop(), 1..30).prop_map(move |ops| FileCase { stdfs, ops }), n, |case: &FileCase| {
            mark("files", &serde_json::to_string(&json!({"stdfs": case.stdfs, "n": case.ops.len()})).unwrap());
            c.eval(1);
            let mut per: BTreeMap<usize, usize> = BTreeMap::new();
            let mut odd = false;
            for op in &case.ops {
                match op {
                    FOp::WriteAll(i, d) | FOp::AppendAll(i, d) => {
                        *per.entry(idx(*i)).or_default() += 1;
                        odd |= std::str::from_utf8(d).map(|s| !s.is_ascii()).unwrap_or(true);
                    },
                    FOp::WriteH(i, ch, _) | FOp::AppendH(i, ch, _) => {
                        *per.entry(idx(*i)).or_default() += 1;
                        odd |= std::str::from_utf8(&ch.concat()).map(|s| !s.is_ascii()).unwrap_or(true);
                    },
                    FOp::WriteLines(i, _) | FOp::AppendLine(i, _) | FOp::AppendLines(i, _) => *per.entry(idx(*i)).or_default() += 1,
                    _ => {},
                }
            }
            if odd && per.values().any(|n| *n >= 2) {
                c.nontrivial(fp(&format!("{:?}", case)));
                c.class(if stdfs { "stdfs:nontrivial" } else { "memfs:nontrivial" });
            }
            if case.ops.iter().any(|o| matches!(o, FOp::CopyFile(..) | FOp::CopyInto(..))) && case.ops.iter().any(|o| matches!(o, FOp::Move(..) | FOp::MoveInto(..))) {
                c.class("history:copy-and-move");
            }
            c.sample(|| json!({"kind":"files","stdfs":case.stdfs,"ops": case.ops.iter().take(6).map(|o| format!("{:?}", o).chars().take(80).collect::<String>()).collect::<Vec<_>>()}));
            check_files(case)
        });
    }
    crate::sandbox::cleanup();
}

pub fn replay(kind: &str, case: &Value) -> Option<CaseResult> {
    if kind == "append-interleave" {
        let p: Vec<u8> = serde_json::from_value(case.clone()).ok()?;
        let r = crate::props::c07::check_append_interleave(&p);
        crate::sandbox::cleanup();
        return Some(r);
    }
    match kind {
        "files" => {
            let r = check_files(&serde_json::from_value(case.clone()).ok()?);
            crate::sandbox::cleanup();
            Some(r)
        },
        _ => None,
    }
}
