//! C03 — Memfs namespace stays a well-formed tree after any history, even failed calls
use serde_json::{json, Value};

use crate::{engine::*, fsdrive::*, fsgen::*, fstypes::Op, props::c01::check_history};

pub const OPTS: StepOpts = StepOpts { model_compare: false, api_view: true };

pub fn cfg_wild() -> GenCfg {
    GenCfg { names: NAMES_ADV, avoid_through_link: false, plain_spelling: false, wild: true, handles: true }
}
pub fn cfg_wild_small() -> GenCfg {
    GenCfg { names: NAMES3, avoid_through_link: false, plain_spelling: false, wild: true, handles: true }
}

pub fn run(c: &Ctx) {
    c.set_rule("histories of every trait method with the unrestricted argument generator (paths through links, root as any argument, empty string, long '..' chains, 300-byte names, src==dst, src ancestor/descendant of dst, every builder option, failing calls kept in; write()/append() handles that stay open across later steps - so a handle can outlive, or be flushed after, the removal, replacement or move of its file), from a fresh Memfs; after EVERY step the raw dump (hook H2) must satisfy: every key but the root has a parent key that is a real directory and lists it; every listed name exists; regular non-link files and only they have byte content; entry.path == key; cwd/root absolute and clean; no children below non-directories; lock not poisoned; and the public API view (exists/mode/owner/read/readlink_abs/cwd) equals the stored state. Concurrent part: every two-thread program with one call each over the 46-form C04 alphabet from two seed states, all interleavings at guard granularity: no panic, every call returns, the same invariants at quiescence. Plus EVERY sequence of 3 calls (thorough: a seeded 1/16 of those of 4) over a 67-form alphabet after 3 seed prefixes, each from a fresh instance (bookkeeping one call leaves for the next - a memoised parent, a cached resolution - shows only to particular short histories). Non-trivial = history containing a failing call or a two-path op; distinct by concrete op list.");
    c.assume("Memfs::verif_dump (hook H2) is a faithful copy of the internal indexes");
    let n = c.tier.pick(30_000, 300_000);
    let cfg = cfg_wild_small();
    run_proptest("ops", 301, || history(50), n, |specs: &Vec<OpSpec>| check_history(c, specs, &cfg, &OPTS, "ops"));
    crate::hsweep::history_sweep(c, 3, 303, 1, "integrity", |ops| run_ops(ops, &StepOpts { model_compare: false, api_view: false }));
    if c.tier == Tier::Thorough {
        crate::hsweep::history_sweep(c, 4, 304, 16, "integrity", |ops| run_ops(ops, &StepOpts { model_compare: false, api_view: false }));
    }
    // arguments outside the documented domain: path arguments that are not valid UTF-8
    for (desc, res, _same, bad) in crate::hsweep::odd_path_calls() {
        c.eval(1);
        c.nontrivial(fp(&("odd", &desc)));
        c.class("non-utf8-path-argument");
        let r = match (res, bad.first()) {
            (Err(p), _) => Err(Failure::new("panic|non-utf8-path", format!("{}: {}", desc, p))),
            (_, Some((cls, detail))) => Err(Failure::new(format!("integrity|{}|non-utf8-path", cls), format!("{}: {}", desc, detail))),
            _ => Ok(()),
        };
        c.judge("odd", &json!(desc), r);
    }
    let cfg2 = cfg_wild();
    let n2 = c.tier.pick(2_000, 40_000);
    run_proptest("ops", 302, || history(c.tier.pick(80, 200)), n2, |specs: &Vec<OpSpec>| check_history(c, specs, &cfg2, &OPTS, "ops"));
    // "... and at quiescence after every explored concurrent schedule": every (1,1) two-thread program over the
    // C04 call alphabet from two seed states, ALL interleavings at critical-section granularity (controlled
    // scheduler on hook H1); judged here for panics, returned calls and the tree invariants only
    crate::sched::install_hook();
    let alpha = crate::props::c04::alphabet(true);
    let mut jobs: Vec<(u8, Vec<Vec<Op>>)> = vec![];
    for seed in [2u8, 3] {
        for a in &alpha {
            for b in &alpha {
                let mut p = vec![vec![a.clone()], vec![b.clone()]];
                crate::props::c04::tag_appends(&mut p);
                jobs.push((seed, p));
            }
        }
    }
    let execs = std::sync::atomic::AtomicU64::new(0);
    par_for(jobs.len() as u64, 4, |i| {
        let (seed, p) = &jobs[i as usize];
        let n = crate::props::c04::explore(c, *seed, p.clone(), 400, i % 2 == 1, true);
        execs.fetch_add(n as u64, std::sync::atomic::Ordering::Relaxed);
    });
    c.note("concurrent_programs", jobs.len());
    c.note("concurrent_executions", execs.load(std::sync::atomic::Ordering::Relaxed));
}

pub fn replay(kind: &str, case: &Value) -> Option<CaseResult> {
    match kind {
        "sched" => crate::props::c04::replay(kind, case),
        "ops" => {
            let ops: Vec<Op> = serde_json::from_value(case.clone()).ok()?;
            Some(run_ops(&ops, &OPTS))
        },
        _ => None,
    }
}

#[allow(dead_code)]
fn _unused() -> Value {
    json!(null)
}
