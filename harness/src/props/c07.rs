//! C07 — handles from read/write/append honour the std Read, Seek and Write contracts
use std::io::{Cursor, Read, Seek, SeekFrom, Write};
use std::sync::atomic::{AtomicU64, Ordering};

use proptest::prelude::*;
use rivia::prelude::*;
use serde::{Deserialize, Serialize};
use serde_json::{json, Value};

use crate::engine::*;

#[derive(Debug, Clone, Serialize, Deserialize)]
pub enum RStep {
    Read(usize),
    Start(u64),
    Current(i64),
    End(i64),
    Pos,
    ReadToEnd,
    /// read_exact of n bytes (n equal to what is left is the edge): Ok-ness and bytes like the Cursor's; after a
    /// failed one both are re-positioned (where a failed read_exact leaves the position is unspecified)
    #[serde(alias = "ReadExact")]
    ReadExact(usize),
}

#[derive(Debug, Clone, Serialize, Deserialize)]
pub struct ReadCase {
    pub stdfs: bool,
    pub data: Vec<u8>,
    pub script: Vec<RStep>,
}

#[derive(Debug, Clone, Serialize, Deserialize)]
pub struct WriteCase {
    pub stdfs: bool,
    pub append: bool,
    /// None = file does not exist before
    pub existing: Option<Vec<u8>>,
    pub chunks: Vec<Vec<u8>>,
    pub flush: Vec<bool>,
    /// drop the handle after this many chunks
    pub drop_after: usize,
    /// how the existing file came to be: 0 written in place, 1 moved here, 2 copied here, 3 moved then copied
    #[serde(default)]
    pub prelude: u8,
}

static SEQ: AtomicU64 = AtomicU64::new(0);

/// A scratch location on the chosen backend
fn with_backend<R>(stdfs: bool, f: impl FnOnce(&Vfs, &str) -> R) -> R {
    if stdfs {
        let d = crate::sandbox::root().join(format!("h{}", SEQ.fetch_add(1, Ordering::Relaxed)));
        let _ = std::fs::create_dir_all(&d);
        let v = Vfs::stdfs();
        let r = f(&v, d.to_str().unwrap());
        let _ = std::fs::remove_dir_all(&d);
        r
    } else {
        let v = Vfs::memfs();
        let _ = v.mkdir_p("/w");
        f(&v, "/w")
    }
}

const FILE_POS_LIMIT: u64 = 1 << 62;

pub fn check_read(case: &ReadCase) -> CaseResult {
    let backend = if case.stdfs { "stdfs" } else { "memfs" };
    with_backend(case.stdfs, |v, dir| {
        let path = format!("{}/f", dir);
        if let Err(e) = v.write_all(&path, &case.data) {
            ctx().inconclusive(&format!("cannot prepare file on {}: {}", backend, e));
            return Ok(());
        }
        let res = catch(|| -> CaseResult {
            let mut h = match v.read(&path) {
                Ok(h) => h,
                Err(e) => return Err(Failure::new(format!("read-open|err|{}", backend), format!("read({}) = Err({})", path, e))),
            };
            let mut cur = Cursor::new(case.data.clone());
            for (i, st) in case.script.iter().enumerate() {
                let at_eof = cur.position() >= case.data.len() as u64;
                let what;
                let (a, b): (Result<(u64, Vec<u8>), ()>, Result<(u64, Vec<u8>), ()>) = match st {
                    RStep::Read(n) => {
                        what = if at_eof { "read-at-or-beyond-end" } else { "read" };
                        let mut b1 = vec![0u8; *n];
                        let mut b2 = vec![0u8; *n];
                        // a short read is allowed by the Read contract: read until both are filled as far as possible
                        let r1 = cur.read(&mut b1).map(|k| (k as u64, b1[..k].to_vec())).map_err(|_| ());
                        let mut got = 0usize;
                        let mut failed = false;
                        while got < *n {
                            match h.read(&mut b2[got..]) {
                                Ok(0) => break,
                                Ok(k) => got += k,
                                Err(_) => {
                                    failed = true;
                                    break;
                                },
                            }
                        }
                        (r1, if failed { Err(()) } else { Ok((got as u64, b2[..got].to_vec())) })
                    },
                    RStep::ReadExact(n) => {
                        what = "read_exact";
                        let before = cur.position();
                        let mut b1 = vec![0u8; *n];
                        let mut b2 = vec![0u8; *n];
                        let r1 = cur.read_exact(&mut b1).map(|_| (*n as u64, b1)).map_err(|_| ());
                        let r2 = h.read_exact(&mut b2).map(|_| (*n as u64, b2)).map_err(|_| ());
                        if r1.is_err() || r2.is_err() {
                            let back = before.min(FILE_POS_LIMIT);
                            let _ = cur.seek(SeekFrom::Start(back));
                            let _ = h.seek(SeekFrom::Start(back));
                        }
                        (r1, r2)
                    },
                    RStep::ReadToEnd => {
                        what = "read_to_end";
                        // (into buffers that already hold something: the count is what was appended)
                        let mut b1 = vec![7u8; i % 4];
                        let mut b2 = vec![7u8; i % 4];
                        (cur.read_to_end(&mut b1).map(|k| (k as u64, b1)).map_err(|_| ()), h.read_to_end(&mut b2).map(|k| (k as u64, b2)).map_err(|_| ()))
                    },
                    RStep::Pos => {
                        what = "stream_position";
                        (cur.stream_position().map(|p| (p, vec![])).map_err(|_| ()), h.stream_position().map(|p| (p, vec![])).map_err(|_| ()))
                    },
                    RStep::Start(_) | RStep::Current(_) | RStep::End(_) => {
                        let sf = match st {
                            RStep::Start(x) => SeekFrom::Start(*x),
                            RStep::Current(x) => SeekFrom::Current(*x),
                            RStep::End(x) => SeekFrom::End(*x),
                            _ => unreachable!(),
                        };
                        // where would the reference end up?
                        let mut probe = cur.clone();
                        let target = probe.seek(sf);
                        what = match (&target, st) {
                            (Err(_), _) => "seek-before-start-or-overflow",
                            (Ok(p), _) if *p > case.data.len() as u64 => "seek-beyond-end",
                            _ => "seek",
                        };
                        if case.stdfs {
                            if let Ok(p) = target {
                                if p > FILE_POS_LIMIT {
                                    ctx().exclude(1);
                                    continue; // the kernel, not rivia, limits file offsets
                                }
                            } else if matches!(st, RStep::Start(_)) {
                                ctx().exclude(1);
                                continue;
                            }
                        }
                        (cur.seek(sf).map(|p| (p, vec![])).map_err(|_| ()), h.seek(sf).map(|p| (p, vec![])).map_err(|_| ()))
                    },
                };
                if a != b {
                    return Err(Failure::new(
                        format!("read-handle|{}|differs-from-cursor|{}", what, backend),
                        format!("step {} {:?} on {} bytes: handle {:?} vs std::io::Cursor {:?} (script {:?})", i + 1, st, case.data.len(), b, a, case.script),
                    ));
                }
                // position must agree after every call (a failed seek leaves it unchanged)
                let (pa, pb) = (cur.stream_position().map_err(|_| ()), h.stream_position().map_err(|_| ()));
                if pa != pb {
                    return Err(Failure::new(
                        format!("read-handle|{}|position-differs-afterwards|{}", what, backend),
                        format!("after step {} {:?}: handle position {:?} vs Cursor {:?} (script {:?})", i + 1, st, pb, pa, case.script),
                    ));
                }
            }
            Ok(())
        });
        match res {
            Ok(r) => r,
            Err(m) => Err(Failure::new(format!("read-handle|panic|{}|{}", panic_site(&m), backend), format!("script {:?} on {} bytes panicked: {}", case.script, case.data.len(), m))),
        }
    })
}

pub fn check_write(case: &WriteCase) -> CaseResult {
    let backend = if case.stdfs { "stdfs" } else { "memfs" };
    let mode = if case.append { "append" } else { "write" };
    with_backend(case.stdfs, |v, dir| {
        let path = format!("{}/f", dir);
        let (orig, moved) = (format!("{}/orig", dir), format!("{}/moved", dir));
        if let Some(old) = &case.existing {
            let prep = match case.prelude % 4 {
                0 => v.write_all(&path, old),
                1 => v.write_all(&orig, old).and_then(|_| v.move_p(&orig, &path)),
                2 => v.write_all(&orig, old).and_then(|_| v.copy(&orig, &path)),
                _ => v.write_all(&orig, old).and_then(|_| v.move_p(&orig, &moved)).and_then(|_| v.copy(&moved, &path)),
            };
            if let Err(e) = prep {
                ctx().inconclusive(&format!("cannot prepare file on {}: {}", backend, e));
                return Ok(());
            }
        }
        // the files the prelude left behind must not be touched by the handle
        let bystanders: Vec<(String, Option<String>)> = [&orig, &moved].iter().map(|p| (p.to_string(), v.read_all(p).ok())).collect();
        let res = catch(|| -> CaseResult {
            let mut expect: Vec<u8> = if case.append { case.existing.clone().unwrap_or_default() } else { vec![] };
            let readback = |v: &Vfs| -> Result<Vec<u8>, String> {
                let mut b = vec![];
                v.read(&path).map_err(|e| e.to_string())?.read_to_end(&mut b).map_err(|e| e.to_string())?;
                Ok(b)
            };
            // (prelude / 4 selects how the path is spelled at open: the write-back must find the file it resolved to)
            let spelled = match (case.prelude / 4) % 4 {
                0 => path.clone(),
                1 => format!("{}/./f", dir),
                2 => format!("{}/zz/../f", dir),
                _ => format!("{}//f/", dir),
            };
            // (prelude / 16: on Memfs the handle is opened through a cwd-relative spelling and the cwd changes while
            // it is open - the path a handle writes back to is bound when the handle is opened)
            let rel_then_chdir = (case.prelude / 16) % 2 == 1 && !case.stdfs;
            let spelled = if rel_then_chdir {
                let _ = v.set_cwd(dir);
                "f".to_string()
            } else {
                spelled
            };
            let unwind_drop = (case.prelude / 32) % 2 == 1;
            let opened = if case.append { v.append(&spelled) } else { v.write(&spelled) };
            if rel_then_chdir {
                let _ = v.set_cwd("/");
            }
            let mut h = match opened {
                Ok(h) => h,
                Err(e) => return Err(Failure::new(format!("{}-open|err|{}", mode, backend), format!("{}({}) = Err({})", mode, path, e))),
            };
            for (i, ch) in case.chunks.iter().enumerate().take(case.drop_after) {
                if let Err(e) = h.write_all(ch) {
                    return Err(Failure::new(format!("{}-handle|write-err|{}", mode, backend), format!("write_all chunk {}: {}", i, e)));
                }
                expect.extend_from_slice(ch);
                if case.flush.get(i).copied().unwrap_or(false) {
                    if let Err(e) = h.flush() {
                        return Err(Failure::new(format!("{}-handle|flush-err|{}", mode, backend), format!("flush after chunk {}: {}", i, e)));
                    }
                    match readback(v) {
                        Ok(b) if b == expect => {},
                        other => {
                            return Err(Failure::new(
                                format!("{}-handle|not-visible-at-flush|{}", mode, backend),
                                format!("after flush following chunk {}: file holds {:?} want {:?} (case {:?})", i, other.map(|b| String::from_utf8_lossy(&b).to_string()), String::from_utf8_lossy(&expect), case),
                            ))
                        },
                    }
                }
            }
            if unwind_drop {
                // the handle goes out of scope while its thread unwinds from a panic ("dropping the handle at any
                // point persists exactly the bytes written through it")
                let _ = crate::engine::catch(move || {
                    let _held = h;
                    panic!("rvh: unwinding with a handle in scope");
                });
            } else {
                drop(h);
            }
            for (p, before) in &bystanders {
                if v.read_all(p).ok() != *before {
                    return Err(Failure::new(
                        format!("{}-handle|other-file-changed|prelude={}|{}", mode, case.prelude % 4, backend),
                        format!("writing through the handle of {} changed {} (case {:?})", path, p, case),
                    ));
                }
            }
            match readback(v) {
                Ok(b) if b == expect => Ok(()),
                other => Err(Failure::new(
                    format!("{}-handle|wrong-content-after-drop|existing={}|prelude={}|{}", mode, case.existing.is_some(), case.prelude % 4, backend),
                    format!("after drop: file holds {:?} want {:?} (case {:?})", other.map(|b| String::from_utf8_lossy(&b).to_string()), String::from_utf8_lossy(&expect), case),
                )),
            }
        });
        match res {
            Ok(r) => r,
            Err(m) => Err(Failure::new(format!("{}-handle|panic|{}|{}", mode, panic_site(&m), backend), format!("case {:?} panicked: {}", case, m))),
        }
    })
}

fn rstep(len_hint: usize) -> impl Strategy<Value = RStep> {
    let l = len_hint as i64;
    prop_oneof![
        5 => (0usize..64).prop_map(RStep::Read),
        1 => prop_oneof![Just(4096usize), Just(65_536), Just(70_000)].prop_map(RStep::Read),
        2 => prop_oneof![0u64..12, (l.max(1) as u64 - 1)..(l as u64 + 4), Just(u64::MAX), Just(1u64 << 40), Just(i64::MAX as u64)].prop_map(RStep::Start),
        3 => prop_oneof![-12i64..12, Just(i64::MAX), Just(i64::MIN), Just(-l), Just(-l - 1), Just(l + 3)].prop_map(RStep::Current),
        3 => prop_oneof![-12i64..6, Just(i64::MAX), Just(i64::MIN), Just(-l), Just(-l - 1), Just(0)].prop_map(RStep::End),
        1 => Just(RStep::Pos),
        1 => Just(RStep::ReadToEnd),
        2 => prop_oneof![0usize..8, Just(l.max(0) as usize), Just((l.max(1) - 1) as usize), Just(l as usize + 1)].prop_map(RStep::ReadExact),
    ]
}

fn read_case(stdfs: bool) -> impl Strategy<Value = ReadCase> {
    // mostly small files; one case in ten is larger than any plausible internal block (64 KiB)
    prop_oneof![
        9 => prop::collection::vec(any::<u8>(), 0..300),
        1 => (65_530usize..66_000, any::<u8>()).prop_map(|(n, s)| (0..n).map(|i| (i as u8).wrapping_mul(31).wrapping_add(s)).collect::<Vec<u8>>()),
    ]
    .prop_flat_map(move |data| {
        let n = data.len();
        (Just(data), prop::collection::vec(rstep(n), 1..14)).prop_map(move |(data, script)| ReadCase { stdfs, data, script })
    })
}

fn write_case(stdfs: bool) -> impl Strategy<Value = WriteCase> {
    (
        any::<bool>(),
        prop::option::of(prop::collection::vec(any::<u8>(), 0..20)),
        prop::collection::vec(prop_oneof![12 => prop::collection::vec(any::<u8>(), 0..24), 1 => (65_000usize..70_000).prop_map(|n| (0..n).map(|i| (i % 253) as u8).collect::<Vec<u8>>())], 0..6),
        prop::collection::vec(any::<bool>(), 6),
        0usize..7,
        0u8..64,
    )
        .prop_map(move |(append, existing, chunks, flush, d, prelude)| {
            let drop_after = d.min(chunks.len());
            WriteCase { stdfs, append, existing, chunks, flush, drop_after, prelude }
        })
}

/// Stdfs only: several append writers on one file (two append handles, append_all, append_line). Every handle
/// write is flushed at once, so whether or not a handle buffers, the file must hold the old content plus every
/// chunk in the order the calls were made - an append lands at the end as it is at that moment and never
/// overwrites what another writer added meanwhile. (Memfs handles work on a private copy and write it back as a
/// whole; how two writers combine there is not specified and not asserted.)
/// ops: 0 open A, 1 open B, 2 A.write+flush, 3 B.write+flush, 4 append_all, 5 append_line, 6 drop A, 7 drop B
pub fn check_append_interleave(prog: &[u8]) -> CaseResult {
    with_backend(true, |v, dir| {
        let path = format!("{}/f", dir);
        let initial = b"init-".to_vec();
        if let Err(e) = v.write_all(&path, &initial) {
            ctx().inconclusive(&format!("cannot prepare file on stdfs: {}", e));
            return Ok(());
        }
        let res = catch(|| -> CaseResult {
            let mut content = initial.clone();
            let mut hs: [Option<Box<dyn Write>>; 2] = [None, None];
            let mut n = 0u32;
            for (step, op) in prog.iter().enumerate() {
                n += 1;
                let what;
                match op % 8 {
                    x @ (0 | 1) => {
                        what = "open-append-handle";
                        if hs[x as usize].is_none() {
                            hs[x as usize] = Some(v.append(&path).map_err(|e| Failure::new("append-interleave|open-err|stdfs", e.to_string()))?);
                        }
                    },
                    x @ (2 | 3) => {
                        what = "handle-write";
                        if let Some(h) = hs[(x - 2) as usize].as_mut() {
                            let chunk = format!("<{}{}>", if x == 2 { "A" } else { "B" }, n).into_bytes();
                            h.write_all(&chunk).and_then(|_| h.flush()).map_err(|e| Failure::new("append-interleave|write-err|stdfs", e.to_string()))?;
                            content.extend_from_slice(&chunk);
                        }
                    },
                    4 => {
                        what = "append_all";
                        let chunk = format!("<all{}>", n).into_bytes();
                        v.append_all(&path, &chunk).map_err(|e| Failure::new("append-interleave|append_all-err|stdfs", e.to_string()))?;
                        content.extend_from_slice(&chunk);
                    },
                    5 => {
                        what = "append_line";
                        let line = format!("<line{}>", n);
                        v.append_line(&path, &line).map_err(|e| Failure::new("append-interleave|append_line-err|stdfs", e.to_string()))?;
                        content.extend_from_slice(format!("{}\n", line).as_bytes());
                    },
                    x => {
                        what = "handle-drop";
                        hs[(x - 6) as usize] = None;
                    },
                }
                let got = std::fs::read(&path).unwrap_or_default();
                if got != content {
                    return Err(Failure::new(
                        format!("append-interleave|{}|prefix-altered-or-bytes-lost|stdfs", what),
                        format!("program {:?} step {}: file holds {:?} want {:?}", prog, step + 1, String::from_utf8_lossy(&got), String::from_utf8_lossy(&content)),
                    ));
                }
            }
            Ok(())
        });
        match res {
            Ok(r) => r,
            Err(p) => Err(Failure::new(format!("append-interleave|panic|{}", panic_site(&p)), format!("program {:?} panicked: {}", prog, p))),
        }
    })
}

/// every program of the given length over the 8 ops of `check_append_interleave`
pub fn run_append_interleave(c: &Ctx, len: u32) {
    par_for(8u64.pow(len), 64, |i| {
        let mut prog = vec![];
        let mut x = i;
        for _ in 0..len {
            prog.push((x % 8) as u8);
            x /= 8;
        }
        mark("append-interleave", &serde_json::to_string(&prog).unwrap());
        c.eval(1);
        c.class("stdfs:several-append-writers");
        // non-trivial: a handle writes after another writer extended the file since the handle was opened
        let mut open = [false; 2];
        let mut grown_since = [false; 2];
        let mut nt = false;
        for o in &prog {
            match o {
                0 | 1 => {
                    if !open[*o as usize] {
                        open[*o as usize] = true;
                        grown_since[*o as usize] = false;
                    }
                },
                2 | 3 => {
                    let k = (*o - 2) as usize;
                    if open[k] {
                        if grown_since[k] {
                            nt = true;
                        }
                        grown_since[1 - k] = true;
                    }
                },
                4 | 5 => grown_since = [true, true],
                x => open[(*x - 6) as usize] = false,
            }
        }
        if nt {
            c.nontrivial(fp(&("append-interleave", i)));
        }
        if i % 4099 == 1 {
            c.sample(|| json!({"kind":"append-interleave","program":prog}));
        }
        c.judge("append-interleave", &prog, check_append_interleave(&prog));
    });
    crate::sandbox::cleanup();
}

pub fn run(c: &Ctx) {
    c.set_rule("read side: file bytes (0..300) + generated scripts of read(buf 0..64) / seek(Start|Current|End with offsets around 0, around len, negative beyond the start, +-i64::MAX/MIN, u64::MAX) / stream_position / read_to_end, executed in lock step on the handle returned by read() and on std::io::Cursor over the same bytes: same Ok value + bytes / same Err-ness per call and the same position after every call; both backends (Stdfs on tmpfs; resulting offsets above 2^62 excluded there because the kernel rejects them). Write side: data split into generated chunks, flush at generated points, handle dropped after any prefix, for write() and append(), file absent / present before (written in place, moved there, copied there, or moved then copied): after each flush and after drop the file read back must hold exactly the bytes written so far (append: old content + them). Several append writers (Stdfs only): every program of length 5 (quick) / 6 (thorough) over {open append handle A/B, A/B write+flush, append_all, append_line, drop A/B} on one file: after every step the file holds the old content plus every chunk in call order (an append lands at the current end and never overwrites another writer's bytes). Non-trivial = script with an out-of-range seek followed by a read, or a drop without a final flush; distinct by case.");
    c.assume("std::io::Cursor is the reference for Read+Seek; std::fs semantics on this kernel/tmpfs for the Stdfs side");
    run_append_interleave(c, c.tier.pick(5, 6));
    let n = c.tier.pick(20_000, 400_000);
    let ns = c.tier.pick(3_000, 40_000);
    for (stdfs, cases, salt) in [(false, n, 700u64), (true, ns, 701)] {
        run_proptest("read", salt, || read_case(stdfs), cases, |case: &ReadCase| {
            mark("read", &serde_json::to_string(case).unwrap_or_default());
            c.eval(1);
            let mut cur = Cursor::new(&case.data);
            let mut oor = false;
            let mut nt = false;
            for s in &case.script {
                match s {
                    RStep::Start(x) => {
                        oor = *x > case.data.len() as u64;
                        let _ = cur.seek(SeekFrom::Start(*x));
                    },
                    RStep::Current(x) => {
                        let r = cur.seek(SeekFrom::Current(*x));
                        oor = r.is_err() || cur.position() > case.data.len() as u64;
                    },
                    RStep::End(x) => {
                        let r = cur.seek(SeekFrom::End(*x));
                        oor = r.is_err() || cur.position() > case.data.len() as u64;
                    },
                    RStep::Read(_) | RStep::ReadToEnd => {
                        if oor {
                            nt = true;
                        }
                    },
                    _ => {},
                }
            }
            if nt {
                c.nontrivial(fp(&format!("{:?}", case)));
                c.class(if stdfs { "read:stdfs:out-of-range-seek-then-read" } else { "read:memfs:out-of-range-seek-then-read" });
            }
            c.sample(|| json!({"kind":"read","len":case.data.len(),"script":case.script,"stdfs":case.stdfs}));
            check_read(case)
        });
        run_proptest("write", salt + 10, || write_case(stdfs), cases, |case: &WriteCase| {
            mark("write", &serde_json::to_string(case).unwrap_or_default());
            c.eval(1);
            let last_flushed = case.drop_after == 0 || case.flush.get(case.drop_after - 1).copied().unwrap_or(false);
            if !last_flushed {
                c.nontrivial(fp(&format!("{:?}", case)));
                c.class(if stdfs { "write:stdfs:drop-without-final-flush" } else { "write:memfs:drop-without-final-flush" });
            }
            if case.drop_after < case.chunks.len() {
                c.class("write:dropped-before-all-chunks");
            }
            c.sample(|| json!({"kind":"write","case":case}));
            check_write(case)
        });
    }
    crate::sandbox::cleanup();
}

pub fn replay(kind: &str, case: &Value) -> Option<CaseResult> {
    let r = match kind {
        "read" => Some(check_read(&serde_json::from_value(case.clone()).ok()?)),
        "write" => Some(check_write(&serde_json::from_value(case.clone()).ok()?)),
        "append-interleave" => {
            let p: Vec<u8> = serde_json::from_value(case.clone()).ok()?;
            Some(check_append_interleave(&p))
        },
        _ => None,
    };
    crate::sandbox::cleanup();
    r
}
