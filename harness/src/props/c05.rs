//! C05 — abs() maps any path to a clean absolute path, identically on both backends, and every
//! other method resolves its arguments the same way
use std::collections::BTreeMap;
use std::sync::atomic::{AtomicU64, Ordering};

use rivia::prelude::*;
use serde::{Deserialize, Serialize};
use serde_json::{json, Value};

use crate::{child::probe, engine::*, fsalpha::*, fsapply::*, fstypes::*, props::c20::tree_from_disk, refpath::*, strgen::*};

const ALPHA: &[&str] = &["/", ".", "~", "$", ":", "a", "é"];

fn env_now() -> Env {
    let mut e = Env::new();
    for k in ["HOME", "V1", "V2"] {
        if let Ok(v) = std::env::var(k) {
            e.insert(k.to_string(), v);
        }
    }
    e
}

fn err_class(k: &str) -> &'static str {
    match k {
        "Path::Empty" => "empty",
        "Path::ParentNotFound" => "above-root",
        "Path::InvalidExpansion" | "Path::MultipleHomeSymbols" | "Var" => "expansion",
        _ => "other",
    }
}

/// abs(s) on a Memfs whose cwd is `cwd`, against the reference
pub fn check_abs(cwd: &str, s: &str, env: &Env, also_stdfs: bool) -> CaseResult {
    check_abs_x(cwd, false, s, env, also_stdfs)
}

/// With `cwd_is_link` the current directory is entered through a symlink to a directory elsewhere: the
/// resolution stays a lexical join onto whatever cwd() reports
pub fn check_abs_x(cwd: &str, cwd_is_link: bool, s: &str, env: &Env, also_stdfs: bool) -> CaseResult {
    let m = Memfs::new();
    if cwd_is_link && cwd != "/" {
        let _ = m.mkdir_p("/zz/t/u");
        let _ = m.mkdir_p(parent(cwd));
        let _ = m.symlink(cwd, "/zz/t/u");
    } else {
        let _ = m.mkdir_p(cwd);
    }
    let _ = m.set_cwd(cwd);
    let cwd_now = m.cwd().ok().and_then(|p| p.to_str().map(|x| x.to_string())).unwrap_or_else(|| cwd.to_string());
    let cwd = cwd_now.as_str();
    let got = match catch(|| m.abs(s)) {
        Ok(r) => r,
        Err(p) => return Err(Failure::new(format!("abs|panic|{}", panic_site(&p)), format!("abs({:?}) from {:?} panicked: {}", s, cwd, p))),
    };
    let in_grammar = expand_in_grammar(s);
    let got_s = got.as_ref().ok().and_then(|p| p.to_str().map(|x| x.to_string()));
    if let Some(g) = &got_s {
        // form: absolute and clean
        if !g.starts_with('/') || ref_clean(g) != *g {
            return Err(Failure::new("abs|result-not-clean-absolute", format!("abs({:?}) from {:?} = {:?}", s, cwd, g)));
        }
        // idempotent
        match catch(|| m.abs(g)) {
            Ok(Ok(again)) if again.to_str() == Some(g) || g.contains('$') || g.contains('~') => {},
            other => return Err(Failure::new("abs|not-idempotent", format!("abs({:?}) = {:?} but abs of that = {:?}", s, g, other.map(|r| r.map_err(|e| e.to_string())))))
        }
        // independent of what exists
        let _ = m.mkdir_p(g);
        match m.abs(s) {
            Ok(p) if p.to_str() == Some(g) => {},
            other => return Err(Failure::new("abs|depends-on-filesystem-content", format!("abs({:?}) changed to {:?} after creating it", s, other.map_err(|e| e.to_string())))),
        }
    }
    if in_grammar {
        let (oks, errs) = ref_abs_admit(cwd, env, s);
        let class_of = |w: &AbsErr| match w {
            AbsErr::Empty => "empty",
            AbsErr::AboveRoot => "above-root",
            AbsErr::Expand(_) => "expansion",
        };
        match &got {
            Ok(_) => {
                if !oks.contains(got_s.as_ref().unwrap()) {
                    if oks.is_empty() {
                        return Err(Failure::new(format!("abs|accepted-invalid-path|{}", errs.first().map(class_of).unwrap_or("?")), format!("abs({:?}) from {:?} = {:?} but must fail ({:?})", s, cwd, got_s, errs)));
                    }
                    let cls = if s.contains("://") { "with-protocol" } else if s.contains('~') || s.contains('$') { "with-expansion" } else if s.contains("..") { "with-dotdot" } else { "plain" };
                    return Err(Failure::new(format!("abs|value|{}", cls), format!("abs({:?}) from {:?} = {:?} want one of {:?}", s, cwd, got_s, oks)));
                }
            },
            Err(e) => {
                let k = crate::obs::errkind(e);
                if errs.is_empty() {
                    return Err(Failure::new("abs|rejected-valid-path", format!("abs({:?}) from {:?} = Err({}) want {:?}", s, cwd, e, oks)));
                }
                if !errs.iter().any(|w| class_of(w) == err_class(&k)) {
                    return Err(Failure::new(format!("abs|wrong-error-kind|want={}", class_of(&errs[0])), format!("abs({:?}) from {:?} = Err({}) want a {} error", s, cwd, k, class_of(&errs[0]))));
                }
            },
        }
    }
    if also_stdfs {
        // the process cwd equals `cwd` for these calls (set once at start of the run)
        let st = catch(|| Stdfs::abs(s)).map_err(|p| Failure::new(format!("Stdfs::abs|panic|{}", panic_site(&p)), format!("Stdfs::abs({:?}) panicked: {}", s, p)))?;
        let a = got.as_ref().map(|p| p.clone()).map_err(|e| err_class(&crate::obs::errkind(e)));
        let b = st.as_ref().map(|p| p.clone()).map_err(|e| err_class(&crate::obs::errkind(e)));
        if a != b {
            return Err(Failure::new("abs|backends-differ", format!("cwd {:?}: Memfs::abs({:?}) = {:?}, Stdfs::abs = {:?}", cwd, s, a, b)));
        }
        let v = Vfs::stdfs();
        if v.abs(s).ok() != st.as_ref().ok().cloned() {
            return Err(Failure::new("abs|Vfs-Stdfs-differs-from-Stdfs", format!("{:?}", s)));
        }
    }
    Ok(())
}

// ---------------------------------------------------------------------------------------------
// (b) spelling independence
// ---------------------------------------------------------------------------------------------
#[derive(Debug, Clone, Serialize, Deserialize)]
pub struct SpellCase {
    pub stdfs: bool,
    pub scenario: usize,
    /// op template with path placeholders "@P" (respelled path) and "@Q" (a second, canonical path)
    pub op: Op,
    pub spelling: usize,
}

static SEQ: AtomicU64 = AtomicU64::new(0);

fn scenarios() -> Vec<Vec<Op>> {
    let s = |x: &str| x.to_string();
    vec![
        vec![Op::MkdirM(s("@/d/sub"), 0o750), Op::WriteAll(s("@/d/f"), b"x\ny".to_vec()), Op::Symlink(s("@/lf"), s("@/d/f")), Op::Symlink(s("@/ld"), s("@/d")), Op::Symlink(s("@/ls"), s("@/d/sub")), Op::MkfileM(s("@/exe"), 0o755)],
        vec![Op::MkdirP(s("@/a/b/c")), Op::WriteAll(s("@/a/b/c/deep"), b"deep".to_vec()), Op::WriteAll(s("@/a/top"), b"t".to_vec())],
        vec![Op::MkdirP(s("@/é/日本")), Op::WriteAll(s("@/é/d e"), b"sp".to_vec()), Op::Symlink(s("@/é/l"), s("@/é/d e"))],
    ]
}

fn scenario_paths(i: usize) -> Vec<&'static str> {
    match i {
        0 => vec!["/d", "/d/f", "/d/sub", "/lf", "/ld", "/exe", "/d/new", "/nope/x"],
        1 => vec!["/a", "/a/b", "/a/b/c", "/a/b/c/deep", "/a/top", "/a/b/n"],
        _ => vec!["/é", "/é/日本", "/é/d e", "/é/l", "/é/new"],
    }
}

fn subst(op: &Op, root: &str, p: &str, q: &str) -> Op {
    let v = serde_json::to_string(op).unwrap().replace("@P", &p.replace('\\', "\\\\").replace('"', "\\\"")).replace("@Q", q).replace("@", root);
    serde_json::from_str(&v).unwrap()
}

/// spellings of canonical path `p` (absolute, below `base`), given cwd == HOME == $V1 == base
fn spellings(base: &str, p: &str) -> Vec<(String, &'static str)> {
    let rel = p.strip_prefix(&format!("{}/", base)).unwrap_or("").to_string();
    let bname = crate::refpath::base(base);
    vec![
        (p.to_string(), "absolute"),
        (rel.clone(), "relative"),
        (format!("./{}", rel), "dot-relative"),
        (format!("{}/", p.replace('/', "//")), "doubled-separators"),
        (format!("{}/zz/../{}", base, rel), "detour-missing-name"),
        (format!("~/{}", rel), "home"),
        (format!("$V1/{}", rel), "variable"),
        (format!("${{V1}}/./{}", rel), "braced-variable"),
        (format!("file://{}", p), "file-protocol"),
        (format!("HTTPS://{}", p), "https-protocol-upper"),
        (format!("../{}/{}", bname, rel), "up-and-down"),
        (format!("{}/$VB/{}", parent(base), rel), "absolute-with-variable-inside"),
        (format!("{}/x${{V2}}/../${{VB}}/{}", parent(base), rel), "absolute-with-braced-variables-inside"),
        (format!("{}/.", rel), "trailing-dot"),
        // ".." after a symlink to a deeper directory (scenario 0 has @/ls -> @/d/sub): the resolution is lexical
        {
            let rroot = format!("{}/@R", base);
            let below = p.strip_prefix(&rroot).unwrap_or("");
            (format!("{}/ls/..{}", rroot, below), "through-a-link-and-back")
        },
    ]
}

fn norm_out(o: Out, prefix: &str) -> Out {
    let st = |s: String| s.strip_prefix(prefix).map(|r| if r.is_empty() { "/".to_string() } else { r.to_string() }).unwrap_or(s);
    match o {
        Out::Path(p) => Out::Path(st(p)),
        Out::Paths(v) => Out::Paths(v.into_iter().map(st).collect()),
        Out::Seq(mut v) => {
            v = v.into_iter().map(st).collect();
            v.sort();
            Out::Seq(v)
        },
        Out::Entry(mut e) => {
            e.path = st(e.path);
            e.alt = st(e.alt);
            Out::Entry(e)
        },
        Out::Err(k) => Out::Err(k),
        x => x,
    }
}

/// run setup + op on a fresh replica; returns normalised (outcome, tree)
fn replica(stdfs: bool, base: &str, scenario: usize, op_t: &Op, spelled: &str, q_rel: &str) -> (Out, Tree) {
    let id = SEQ.fetch_add(1, Ordering::Relaxed);
    let root = format!("{}/r{}", base, id);
    let setup: Vec<Op> = scenarios()[scenario].iter().map(|o| subst(o, &root, "", "")).collect();
    let spelled = spelled.replace("@R", &format!("r{}", id));
    let q = format!("{}{}", root, q_rel);
    let op = subst(op_t, &root, &spelled, &q);
    if stdfs {
        let v = Vfs::stdfs();
        let _ = std::fs::create_dir_all(&root);
        for o in &setup {
            let _ = apply(&v, o);
        }
        let out = apply(&v, &op);
        let t = tree_from_disk(&root);
        let _ = std::fs::remove_dir_all(&root);
        (norm_out(out, &root), t)
    } else {
        let m = Memfs::new();
        let _ = m.mkdir_p(&root);
        let _ = m.set_cwd(base);
        for o in &setup {
            let _ = apply(&m, o);
        }
        let out = apply(&m, &op);
        let mut t = tree_from_dump(&m.verif_dump());
        // keep only the replica's subtree, relative to its root
        let pre = root.clone();
        t.nodes = t
            .nodes
            .into_iter()
            .filter(|(k, _)| is_under(k, &pre))
            .map(|(k, mut n)| {
                if let Node::Link { target, .. } = &mut n {
                    *target = target.strip_prefix(&pre).map(|r| if r.is_empty() { "/".to_string() } else { r.to_string() }).unwrap_or(target.clone());
                }
                (k.strip_prefix(&pre).map(|r| if r.is_empty() { "/".to_string() } else { r.to_string() }).unwrap(), n)
            })
            .collect();
        t.cwd = t.cwd.strip_prefix(&pre).map(|r| if r.is_empty() { "/".to_string() } else { r.to_string() }).unwrap_or(t.cwd);
        (norm_out(out, &root), t)
    }
}

fn tree_cmp(a: &Tree, b: &Tree) -> bool {
    // link text on disk / mtime are irrelevant: names, kinds, bytes, targets, modes
    let f = |t: &Tree| -> Vec<(String, String)> {
        t.nodes
            .iter()
            .map(|(k, n)| {
                (
                    k.clone(),
                    match n {
                        Node::Dir { mode, .. } => format!("dir {:o}", mode),
                        Node::File { data, mode, .. } => format!("file {:o} {:?}", mode, data),
                        Node::Link { target, .. } => format!("link {}", target),
                    },
                )
            })
            .collect()
    };
    f(a) == f(b) && a.cwd == b.cwd
}

pub fn check_spelling(case: &SpellCase, base: &str, p_rel: &str, q_rel: &str) -> CaseResult {
    let backend = if case.stdfs { "stdfs" } else { "memfs" };
    // canonical run
    let canonical = "@R_CANON";
    let _ = canonical;
    let sp_of = |id_placeholder: &str| -> Vec<(String, &'static str)> { spellings(base, &format!("{}/{}{}", base, id_placeholder, p_rel)) };
    let sps = sp_of("@R");
    let (spelled, sname) = &sps[case.spelling % sps.len()];
    let (canon, _) = &sps[0];
    let r = catch(|| {
        let a = replica(case.stdfs, base, case.scenario, &case.op, canon, q_rel);
        let b = replica(case.stdfs, base, case.scenario, &case.op, spelled, q_rel);
        (a, b)
    });
    let ((oa, ta), (ob, tb)) = match r {
        Ok(x) => x,
        Err(p) => return Err(Failure::new(format!("{}|panic|{}|{}", case.op.name(), panic_site(&p), backend), format!("{:?} panicked: {}", case, p))),
    };
    // which error is reported first for a multi-entry call may differ; compare Err-ness there
    let same_out = match (&oa, &ob) {
        (Out::Err(_), Out::Err(_)) => true,
        (x, y) => x == y,
    };
    if !same_out {
        return Err(Failure::new(
            format!("{}|result-depends-on-spelling|{}|{}", case.op.name(), sname, backend),
            format!("{:?} with path {:?}: canonical spelling -> {:?}, {} spelling -> {:?}", case.op, p_rel, oa, sname, ob),
        ));
    }
    if !tree_cmp(&ta, &tb) {
        return Err(Failure::new(
            format!("{}|effect-depends-on-spelling|{}|{}", case.op.name(), sname, backend),
            format!("{:?} with path {:?}: trees differ: canonical {:?} vs {} {:?}", case.op, p_rel, ta.nodes.keys().collect::<Vec<_>>(), sname, tb.nodes.keys().collect::<Vec<_>>()),
        ));
    }
    Ok(())
}

fn op_templates() -> Vec<Op> {
    let mut v = single_path_ops("@P", true);
    v.retain(|o| !matches!(o, Op::SetCwd(_))); // changes the meaning of every later relative path: compared via Cwd below
    v.push(Op::Copy("@P".into(), "@Q".into()));
    v.push(Op::Copy("@Q".into(), "@P".into()));
    v.push(Op::MoveP("@P".into(), "@Q".into()));
    v.push(Op::MoveP("@Q".into(), "@P".into()));
    v.push(Op::Symlink("@P".into(), "@Q".into()));
    v.push(Op::CopyB("@P".into(), "@Q".into(), CopyOpt { mode: CopyMode::All(0o700), follow: false }));
    // chmod_b / chown_b interpret their path when the builder is made: an exec() after the cwd moved on
    // still acts on abs(path) as it was (Memfs only: the process cwd of Stdfs is global). copy_b resolves
    // when it runs on both backends - undocumented either way, not asserted here
    v.push(Op::Late(Box::new(Op::ChmodB("@P".into(), ChmodOpt { sel: ChmodSel::All(0o700), recursive: false, follow: false })), "/".into()));
    v.push(Op::Late(Box::new(Op::ChownB("@P".into(), ChownOpt { uid: Some(5), gid: Some(7), recursive: false, follow: false })), "/".into()));
    v
}

pub fn run(c: &Ctx) {
    c.set_rule("(a) abs(): every string over {'/','.','~','$',':','a','é'} up to length 5 (quick) / 6 (thorough) x cwd in {/, /a, /a/b, /a/b/c} and cwd entered through a symlink to a directory ({/a/b, /l} -> /zz/t/u) on Memfs with HOME=<sandbox>, V1 set, V2 empty, plus seeded random strings <=40 symbols with protocols in mixed case, braces and multi-byte names; the same strings on Stdfs vs a Memfs whose cwd equals the process cwd (a deep tmpfs directory), and 12 (quick) / 60 (thorough) environments (HOME unset/empty/'/h'/'/h/e//'/'rel', two variables) x cwd {/, /dev, sandbox} in child processes for both backends; Stdfs::abs of 9 absolute / '~' / '$V' / protocol spellings from a child whose cwd directory was deleted ('no IO'). Oracle: reference abs (trim protocol -> expand -> Go-Clean -> lexical join onto cwd): value, absolute+clean form, idempotence, independence from filesystem content, error iff empty / invalid expansion / '..' above root (kind class), backends equal. (b) spelling independence: 3 scenarios x every path x every call form (all single-path forms, copy/move both argument positions, symlink link position, copy_b, chmod_b / chown_b executed after a later set_cwd) x 15 spellings ('..' after a symlink to a deeper directory, absolute with a variable inside, relative, './', doubled separators + trailing '/', detour through a missing name, '~/', '$V1/', '${V1}/./', 'file://', 'HTTPS://', '../<cwd>/', trailing '/.'): the call with the respelled path and the call with abs(path) run on two fresh replicas must give the same result and the same tree; on Memfs and on a tmpfs Stdfs sandbox. Non-trivial = (a) string with >=2 distinct special characters, (b) spelling != canonical; distinct by case.");
    c.assume("'does no IO' is checked behaviourally (same answer before/after the path exists); symlink's second argument is documented as relative to the link, it is not respelled");
    // one deep sandbox directory is cwd, HOME and $V1 for the whole run
    let base = crate::sandbox::dir("c05");
    let base_s = base.to_str().unwrap().to_string();
    std::env::set_var("HOME", &base_s);
    std::env::set_var("V1", &base_s);
    std::env::set_var("V2", "");
    std::env::set_var("VB", crate::refpath::base(&base_s));
    std::env::remove_var("UNSET");
    // bystander: the shell's idea of the working directory is not the working directory
    std::env::set_var("PWD", "/rvh/decoy-pwd");
    if std::env::set_current_dir(&base).is_err() {
        c.inconclusive("cannot chdir into the sandbox");
        return;
    }
    // HOME changes within one process (serial, before any worker thread exists): '~' must follow it
    for (step, h) in [Some(format!("{}/h1", base_s)), Some(format!("{}/h2/nested", base_s)), None, Some("rel".to_string()), Some(base_s.clone())].iter().enumerate() {
        match h {
            Some(v) => std::env::set_var("HOME", v),
            None => std::env::remove_var("HOME"),
        }
        let e = env_now();
        for s in ["~", "~/x", "~/../y", "$HOME/x", "${HOME}", "a/~"] {
            c.eval(1);
            c.nontrivial(fp(&("home-seq", step, s)));
            c.class("home-changes-within-process");
            let r = check_abs(&base_s, s, &e, true).map_err(|mut f| {
                f.sig = format!("{}|after-HOME-change", f.sig);
                f
            });
            c.judge("abs-home-seq", &json!([step, s]), r);
        }
    }
    std::env::set_var("HOME", &base_s);
    let env = env_now();
    // (a) exhaustive strings
    let strings = all_strings(ALPHA, c.tier.pick(5, 6));
    let cwds = ["/", "/a", "/a/b", "/a/b/c"];
    par_for(strings.len() as u64, 256, |i| {
        let s = &strings[i as usize];
        mark("abs", s);
        for cwd in cwds {
            c.eval(1);
            c.judge("abs", &json!([cwd, s]), check_abs(cwd, s, &env, false));
        }
        // the cwd entered through a link to a directory
        for cwd in ["/a/b", "/l"] {
            c.eval(1);
            c.class("abs:cwd-is-a-link");
            c.judge("abs-linkcwd", &json!([cwd, s]), check_abs_x(cwd, true, s, &env, false));
        }
        c.eval(1);
        c.judge("abs-both", &json!([base_s, s]), check_abs(&base_s, s, &env, true));
        let specials: std::collections::BTreeSet<char> = s.chars().filter(|ch| "/.~$:".contains(*ch)).collect();
        if specials.len() >= 2 {
            c.nontrivial(fp(&("abs", s)));
        }
        if !expand_in_grammar(s) {
            c.exclude(1);
        }
        if i % 4001 == 7 {
            c.sample(|| json!({"kind":"abs","cwd":"/a/b","s":s}));
        }
    });
    // letters whose lower- or upper-case form has another byte length (İ, Ⱥ, the Kelvin sign, ß, ŉ), next to doubled
    // separators and scheme-like prefixes: every string of up to three symbols
    {
        let alt: &[&str] = &["İ", "Ⱥ", "\u{212a}", "ß", "//", "/", "a", "file://", ":"];
        let strs = all_strings(alt, 3);
        par_for(strs.len() as u64, 64, |i| {
            let s = &strs[i as usize];
            mark("abs", s);
            c.eval(3);
            c.nontrivial(fp(&("abs-case-length", s)));
            c.class("abs:letters-changing-length-under-case-mapping");
            for cwd in ["/", "/a/b"] {
                c.judge("abs", &json!([cwd, s]), check_abs(cwd, s, &env, false));
            }
            c.judge("abs-both", &json!([base_s, s]), check_abs(&base_s, s, &env, true));
        });
    }
    c.set_exhaustive(true);
    let cases = c.tier.pick(60_000, 1_000_000);
    let env2 = env.clone();
    run_proptest("abs-both", 501, || (string_over(&["/", "/", ".", "..", "~", "~/", "$V1", "${V1}", "$V2", "$UNSET", "$", ":", "a", "b", "é", "日", " ", "file://", "FTP://", "Http://", "https://", "filex://", "ftp:/", "://", "//", "{", "}"], 14), 0usize..4), cases, |(s, ci): &(String, usize)| {
        mark("abs", s);
        c.eval(1);
        if s.contains("://") || s.contains('$') || s.contains('~') {
            c.nontrivial(fp(&("abs-rand", s, ci)));
            c.class("random:with-protocol-or-expansion");
        }
        check_abs(cwds[*ci], s, &env2, false)?;
        check_abs_x(cwds[*ci], true, s, &env2, false)?;
        check_abs(&base_s, s, &env2, true)
    });
    // child environments
    let homes: Vec<Option<&str>> = vec![None, Some(""), Some("/h"), Some("/h/e//"), Some("rel")];
    let n_env = c.tier.pick(12, 60);
    let templates: Vec<String> = vec!["~", "~/x", "~/../y", "a/~", "$V1/x", "${V1}", "$V2/q", "${V2}x/./y", "$UNSET", "a/$V1", "./a/../b", "../../../../../../../../x", "file://~/x", "file:///abs/$V1", "a//b/", "", ".", "..", "~//x", "$V1$V2", "/abs/${V2}/z", "FTP://a/../b"].iter().map(|s| s.to_string()).collect();
    let mut envs: Vec<Env> = vec![];
    for (hi, h) in homes.iter().enumerate() {
        for (vi, v1) in [None, Some(""), Some("val"), Some("a/b"), Some("/abs/x"), Some("has space")].iter().enumerate() {
            for v2 in [None, Some("v2")] {
                if envs.len() >= n_env && !((hi + vi) % 3 == 0) {
                    continue;
                }
                let mut e = Env::new();
                if let Some(x) = h {
                    e.insert("HOME".into(), x.to_string());
                }
                if let Some(x) = v1 {
                    e.insert("V1".into(), x.to_string());
                }
                if let Some(x) = v2 {
                    e.insert("V2".into(), x.to_string());
                }
                envs.push(e);
            }
        }
    }
    envs.truncate(n_env);
    let child_cwds = vec!["/".to_string(), "/dev".to_string(), base_s.clone()];
    par_for(envs.len() as u64, 1, |i| {
        let e = &envs[i as usize];
        let mut reqs = vec![];
        for cwd in &child_cwds {
            for t in &templates {
                reqs.push(json!({"op":"abs_mem","cwd":cwd,"s":t}));
                reqs.push(json!({"op":"abs_std","cwd":cwd,"s":t}));
            }
        }
        let resp = match probe(e, &reqs) {
            Ok(r) => r,
            Err(x) => {
                c.inconclusive(&format!("envprobe child failed: {}", x));
                return;
            },
        };
        let mut k = 0;
        for cwd in &child_cwds {
            for t in &templates {
                let (rm, rs) = (&resp[k], &resp[k + 1]);
                k += 2;
                c.eval(1);
                c.nontrivial(fp(&(e, cwd, t)));
                c.class("child-environment");
                let case = json!({"env": e, "cwd": cwd, "s": t});
                let res: CaseResult = (|| {
                    if rm.get("panic").is_some() || rs.get("panic").is_some() {
                        return Err(Failure::new("abs|panic|child", format!("{} / {}", rm, rs)));
                    }
                    let cls = |r: &Value| -> Result<String, String> {
                        match (r.get("ok"), r.get("err")) {
                            (Some(p), _) => Ok(p.as_str().unwrap_or("").to_string()),
                            (_, Some(k)) => Err(err_class(k.as_str().unwrap_or("")).to_string()),
                            _ => Err("bad-response".into()),
                        }
                    };
                    let (a, b) = (cls(rm), cls(rs));
                    if a != b {
                        return Err(Failure::new("abs|backends-differ|child", format!("env {:?} cwd {:?} abs({:?}): Memfs {:?} Stdfs {:?}", e, cwd, t, a, b)));
                    }
                    if expand_in_grammar(t) {
                        let (oks, errs) = ref_abs_admit(cwd, e, t);
                        let ok = match &a {
                            Ok(g) => oks.contains(g),
                            Err(_) => !errs.is_empty(),
                        };
                        if !ok {
                            return Err(Failure::new("abs|value|child-environment", format!("env {:?} cwd {:?} abs({:?}) = {:?} want {:?} / {:?}", e, cwd, t, a, oks, errs)));
                        }
                    }
                    Ok(())
                })();
                c.judge("abs-child", &case, res);
            }
        }
    });
    // "does no IO": Stdfs::abs of arguments that do not need the cwd, from a process whose cwd was deleted
    {
        let mut e = Env::new();
        e.insert("HOME".into(), "/h/me".into());
        e.insert("V1".into(), "/abs/x".into());
        let gone = format!("{}/gone-cwd", base_s);
        let paths = ["/x/../y", "/", "~/x", "~", "file:///abs//z/", "$V1/q", "${V1}", "HTTPS:///host/a/./b", "/a/b/../../.."];
        c.eval(paths.len() as u64);
        c.class("stdfs-abs-without-a-cwd");
        match probe(&e, &[json!({"op":"abs_std_nocwd","dir":gone,"paths":paths})]) {
            Ok(r) => match r[0].get("list").and_then(|l| l.as_array()) {
                Some(list) => {
                    for (p, got) in paths.iter().zip(list.iter()) {
                        c.nontrivial(fp(&("nocwd", p)));
                        let (oks, _) = ref_abs_admit("/", &e, p);
                        let res = match got.get("ok").and_then(|x| x.as_str()) {
                            Some(g) if oks.iter().any(|o| o == g) => Ok(()),
                            _ => Err(Failure::new("abs|needs-the-cwd-for-an-absolute-argument|stdfs", format!("Stdfs::abs({:?}) from a deleted cwd = {} want one of {:?}", p, got, oks))),
                        };
                        c.judge("abs-nocwd", &json!([p]), res);
                    }
                },
                None => c.inconclusive(&format!("deleted-cwd probe: {}", r[0])),
            },
            Err(x) => c.inconclusive(&format!("envprobe child failed: {}", x)),
        }
    }
    // the cwd's own name is not valid UTF-8 (a Latin-1 directory): a relative argument is still joined onto it
    {
        let mut e = Env::new();
        e.insert("HOME".into(), "/h/me".into());
        let odd = format!("{}/odd-cwd", base_s);
        let paths = ["notes.txt", ".", "sub/x", "./a/../b", "file://notes.txt", "a//b/"];
        let want_tail = ["/notes.txt", "", "/sub/x", "/b", "/notes.txt", "/a/b"];
        c.eval(paths.len() as u64);
        c.class("stdfs-abs-from-a-non-utf8-cwd");
        match probe(&e, &[json!({"op":"abs_std_oddcwd","dir":odd,"paths":paths})]) {
            Ok(r) => match (r[0].get("list").and_then(|l| l.as_array()), r[0].get("cwd_bytes").and_then(|x| x.as_str())) {
                (Some(list), Some(cwd)) if !cwd.is_empty() => {
                    for ((p, tail), got) in paths.iter().zip(want_tail.iter()).zip(list.iter()) {
                        c.nontrivial(fp(&("oddcwd", p)));
                        let want = format!("{}{}", cwd, tail.bytes().map(|b| format!("{:02x}", b)).collect::<String>());
                        let res = match got.get("ok_bytes").and_then(|x| x.as_str()) {
                            Some(g) if g == want => Ok(()),
                            _ => Err(Failure::new("abs|relative-from-a-non-utf8-cwd|stdfs", format!("Stdfs::abs({:?}) from the cwd with bytes {} = {} want bytes {}", p, cwd, got, want))),
                        };
                        c.judge("abs-oddcwd", &json!([p]), res);
                    }
                },
                _ => c.inconclusive(&format!("non-UTF-8 cwd probe: {}", r[0])),
            },
            Err(x) => c.inconclusive(&format!("envprobe child failed: {}", x)),
        }
    }
    // (b) spelling independence
    let ops = op_templates();
    let n_sp = 15;
    let mut cases: Vec<(SpellCase, String, String)> = vec![];
    for (si, _) in scenarios().iter().enumerate() {
        let paths = scenario_paths(si);
        for p in &paths {
            for op in &ops {
                for sp in 1..n_sp {
                    for stdfs in [false, true] {
                        if stdfs && matches!(op, Op::Late(..)) {
                            continue;
                        }
                        if stdfs && !sampled(c.seed, 55, cases.len() as u64, 1, c.tier.pick(6, 1)) {
                            continue;
                        }
                        cases.push((SpellCase { stdfs, scenario: si, op: op.clone(), spelling: sp }, p.to_string(), paths[0].to_string()));
                    }
                }
            }
        }
    }
    c.note("spelling_cases", cases.len());
    par_for(cases.len() as u64, 8, |i| {
        let (case, p, q) = &cases[i as usize];
        mark("spelling", &serde_json::to_string(&json!({"case": case, "p": p, "q": q})).unwrap());
        c.eval(1);
        c.nontrivial(fp(&(i, "spell")));
        c.class(if case.stdfs { "spelling:stdfs" } else { "spelling:memfs" });
        if i % 1499 == 0 {
            c.sample(|| json!({"kind":"spelling","op":case.op.name(),"path":p,"spelling":case.spelling,"stdfs":case.stdfs}));
        }
        let r = check_spelling(case, &base_s, p, q).map_err(|f| f.with_case("spelling", json!({"case": case, "p": p, "q": q})));
        c.judge("spelling", &json!(null), r);
    });
    let _ = std::env::set_current_dir("/");
    crate::sandbox::cleanup();
    let _ = BTreeMap::<u8, u8>::new();
}

pub fn replay(kind: &str, case: &Value) -> Option<CaseResult> {
    match kind {
        "abs" | "abs-both" => {
            let a = case.as_array()?;
            let (cwd, s) = (a[0].as_str()?.to_string(), a[1].as_str().or_else(|| a[0].as_str())?.to_string());
            if kind == "abs-both" && a[1].is_number() {
                // shrunk random case (string, cwd index)
                let s = a[0].as_str()?;
                return Some(check_abs(["/", "/a", "/a/b", "/a/b/c"][a[1].as_u64()? as usize % 4], s, &env_now(), false));
            }
            Some(check_abs(&cwd, &s, &env_now(), false))
        },
        "abs-linkcwd" => {
            let a = case.as_array()?;
            Some(check_abs_x(a[0].as_str()?, true, a[1].as_str()?, &env_now(), false))
        },
        "abs-nocwd" => Some(Ok(())), // needs a dedicated child process: re-run the check itself
        "abs-home-seq" => Some(Ok(())), // needs the whole HOME sequence: re-run the check itself
        "abs-child" => {
            let e: Env = serde_json::from_value(case["env"].clone()).ok()?;
            let (cwd, t) = (case["cwd"].as_str()?, case["s"].as_str()?);
            let resp = probe(&e, &[json!({"op":"abs_mem","cwd":cwd,"s":t}), json!({"op":"abs_std","cwd":cwd,"s":t})]).ok()?;
            if resp[0].get("ok").map(|x| x.to_string()) != resp[1].get("ok").map(|x| x.to_string()) {
                return Some(Err(Failure::new("abs|backends-differ|child", format!("{} vs {}", resp[0], resp[1]))));
            }
            Some(Ok(()))
        },
        "spelling" => {
            let base = crate::sandbox::dir("c05");
            let base_s = base.to_str().unwrap().to_string();
            std::env::set_var("HOME", &base_s);
            std::env::set_var("V1", &base_s);
            let _ = std::env::set_current_dir(&base);
            let sc: SpellCase = serde_json::from_value(case["case"].clone()).ok()?;
            let r = check_spelling(&sc, &base_s, case["p"].as_str()?, case["q"].as_str()?);
            let _ = std::env::set_current_dir("/");
            crate::sandbox::cleanup();
            Some(r)
        },
        _ => None,
    }
}
