use serde_json::Value;

use crate::engine::{CaseResult, Ctx};

pub mod c01;
pub mod c02;
pub mod c03;
pub mod c04;
pub mod c05;
pub mod c06;
pub mod c07;
pub mod c08;
pub mod c09;
pub mod c10;
pub mod c11;
pub mod c12;
pub mod c13;
pub mod c14;
pub mod c15;
pub mod c16;
pub mod c17;
pub mod c18;
pub mod c19;
pub mod c20;

pub const ALL: &[&str] = &["C01", "C02", "C03", "C04", "C05", "C06", "C07", "C08", "C09", "C10", "C11", "C12", "C13", "C14", "C15", "C16", "C17", "C18", "C19", "C20"];

pub fn run(c: &Ctx) -> bool {
    match c.prop.as_str() {
        "C01" => c01::run(c),
        "C02" => c02::run(c),
        "C03" => c03::run(c),
        "C04" => c04::run(c),
        "C05" => c05::run(c),
        "C06" => c06::run(c),
        "C07" => c07::run(c),
        "C08" => c08::run(c),
        "C09" => c09::run(c),
        "C10" => c10::run(c),
        "C11" => c11::run(c),
        "C12" => c12::run(c),
        "C13" => c13::run(c),
        "C14" => c14::run(c),
        "C15" => c15::run(c),
        "C16" => c16::run(c),
        "C17" => c17::run(c),
        "C18" => c18::run(c),
        "C19" => c19::run(c),
        "C20" => c20::run(c),
        _ => return false,
    }
    true
}

pub fn replay(prop: &str, kind: &str, case: &Value) -> Option<CaseResult> {
    match prop {
        "C01" => c01::replay(kind, case),
        "C02" => c02::replay(kind, case),
        "C03" => c03::replay(kind, case),
        "C04" => c04::replay(kind, case),
        "C05" => c05::replay(kind, case),
        "C06" => c06::replay(kind, case),
        "C07" => c07::replay(kind, case),
        "C08" => c08::replay(kind, case),
        "C09" => c09::replay(kind, case),
        "C10" => c10::replay(kind, case),
        "C11" => c11::replay(kind, case),
        "C12" => c12::replay(kind, case),
        "C13" => c13::replay(kind, case),
        "C14" => c14::replay(kind, case),
        "C15" => c15::replay(kind, case),
        "C16" => c16::replay(kind, case),
        "C17" => c17::replay(kind, case),
        "C18" => c18::replay(kind, case),
        "C19" => c19::replay(kind, case),
        "C20" => c20::replay(kind, case),
        _ => None,
    }
}
