//! C04 — Memfs operations are atomic and deadlock-free under concurrent use
use std::collections::HashMap;

use rivia::prelude::*;
use serde::{Deserialize, Serialize};
use serde_json::{json, Value};

use crate::{engine::*, fsapply::*, fstypes::*, sched::*};

#[derive(Debug, Clone, Serialize, Deserialize)]
pub struct SchedCase {
    pub seed_state: u8,
    pub program: Vec<Vec<Op>>,
    pub schedule: Vec<usize>,
    /// calls go through the Vfs enum wrapper around the instance
    #[serde(default)]
    pub via_vfs: bool,
    /// the program contains a composite call (a write handle's open .. write .. drop): no sequential
    /// equivalence is claimed for it, only no panic / no dead-lock / integrity at quiescence
    #[serde(default)]
    pub no_lin: bool,
}

pub fn seed_state(id: u8) -> Memfs {
    let m = Memfs::new();
    match id {
        0 => {},
        1 => {
            let _ = m.mkdir_p("/a");
            let _ = m.write_all("/a/f", b"x");
            let _ = m.write_all("/a/g", b"gg");
            let _ = m.write_all("/b", b"y");
        },
        5 => {
            // two directories with the same names inside, cwd in the first: a relative query has an answer before
            // and after a cwd change, never "missing"
            let _ = m.mkdir_p("/a/b");
            let _ = m.write_all("/a/f", b"in-a");
            let _ = m.mkdir_p("/d/b");
            let _ = m.write_all("/d/f", b"in-d");
            let _ = m.chmod("/d/f", 0o600);
            let _ = m.chown("/a/f", 1, 2);
            let _ = m.chown("/d/f", 3, 4);
            let _ = m.set_cwd("/a");
        },
        4 => {
            // different modes and owners everywhere: a query that reads its answer in two steps shows a mix
            let _ = m.mkdir_m("/a", 0o750);
            let _ = m.write_all("/a/f", b"x");
            let _ = m.write_all("/b", b"yy");
            let _ = m.mkdir_p("/d");
            let _ = m.chmod("/a/f", 0o600);
            let _ = m.chmod("/b", 0o755);
            let _ = m.chown("/a", 1, 2);
            let _ = m.chown("/a/f", 3, 4);
            let _ = m.chown("/b", 5, 6);
        },
        3 => {
            let _ = m.mkdir_p("/a/b");
            let _ = m.write_all("/a/f", b"x");
            let _ = m.mkdir_p("/d");
            let _ = m.set_cwd("/a");
        },
        6 => {
            // a directory far larger than any batch size someone might pick (a call that works through it in
            // several critical sections shows a half-done state to an observer in between)
            let _ = m.mkdir_p("/big/sub");
            for i in 0..560 {
                let _ = m.write_all(format!("/big/f{:04}", i), b"");
            }
            for i in 0..90 {
                let _ = m.write_all(format!("/big/sub/g{:03}", i), b"");
            }
            let _ = m.mkdir_p("/d");
        },
        _ => {
            let _ = m.mkdir_p("/a/b");
            let _ = m.write_all("/a/b/h", b"h");
            let _ = m.write_all("/a/f", b"x\ny\n");
            let _ = m.symlink("/l", "/a");
            let _ = m.mkdir_p("/d");
        },
    }
    m
}

fn s(x: &str) -> String {
    x.to_string()
}

/// Call forms of the single-step operations the statement lists
pub fn alphabet(full: bool) -> Vec<Op> {
    let mut v = vec![
        Op::MkdirP(s("/a/c")),
        Op::Mkfile(s("/a/f")),
        Op::Remove(s("/a/f")),
        Op::RemoveAll(s("/a")),
        Op::MoveP(s("/a/f"), s("/b")),
        Op::MoveP(s("/a"), s("/e")),
        Op::Copy(s("/a"), s("/e")),
        Op::Symlink(s("/s"), s("/a/f")),
        Op::SetCwd(s("/a")),
        Op::AppendAll(s("/a/f"), b"<>".to_vec()),
        Op::WriteAll(s("/a/f"), b"W".to_vec()),
        Op::ReadAll(s("/a/f")),
        Op::Exists(s("/a/f")),
        Op::Paths(s("/a")),
        Op::AllPaths(s("/")),
    ];
    if full {
        v.extend(vec![
            Op::MkdirM(s("/a/c/d"), 0o700),
            Op::Mkfile(s("/a/n")),
            Op::Remove(s("/a")),
            Op::Copy(s("/a/f"), s("/a/k")),
            Op::AppendAll(s("/b"), b"<>".to_vec()),
            Op::WriteAll(s("/a/n"), b"N".to_vec()),
            Op::ReadLines(s("/a/f")),
            Op::IsDir(s("/a")),
            Op::IsFile(s("/a/f")),
            Op::Mode(s("/a/f")),
            Op::Owner(s("/a")),
            Op::Files(s("/a")),
            Op::Dirs(s("/")),
            Op::AllFiles(s("/")),
            Op::Entries(s("/")),
            Op::Mkfile(s("f")), // relative to a cwd another thread may change
            Op::Cwd,
            Op::SetCwd(s("b")), // relative: resolution and switch must be one step
            Op::SetCwd(s("/d")),
            Op::SetCwd(s("..")),
            Op::Mkfile(s("/a")), // turns a removed directory into a file under a listing
            Op::WriteAll(s("b/new"), b"R".to_vec()),
            Op::Remove(s("/d")), // empty directory: emptiness check and removal must be one step
            Op::Mkfile(s("/d/x")),
            Op::MkdirP(s("/d/y/z")),
            Op::AppendAll(s("/a/f"), vec![b'x'; 70_000]), // larger than 64 KiB: still one step
            Op::MkdirP(s("b")), // relative and already there: the answer names the directory that exists
            Op::ReadlinkAbs(s("/l")),
            Op::Readlink(s("/s")),
            Op::Remove(s("/l")),
            // the line helpers are single steps too: a block of lines is stored as one unit
            Op::AppendLines(s("/a/f"), vec!["{L1}".into(), "{L2}".into()]),
            Op::WriteLines(s("/a/f"), vec!["{W1}".into(), "{W2}".into()]),
            Op::AppendLine(s("/a/f"), "{A}".into()),
            Op::WriteAll(s("/a/f"), vec![b'M'; 150_000]),
        ]);
    }
    v
}

/// leaves the watchdog's books when a stress function returns
pub struct ExitGuard;
impl Drop for ExitGuard {
    fn drop(&mut self) {
        worker_exit();
    }
}

pub fn tag_appends(program: &mut [Vec<Op>]) {
    for (t, ops) in program.iter_mut().enumerate() {
        for (i, op) in ops.iter_mut().enumerate() {
            if let Op::AppendAll(_, d) = op {
                let tag = format!("<t{}c{}>", t, i).into_bytes();
                if d.len() > 1000 {
                    // a payload larger than any plausible internal block: the tag once, then filler naming the call
                    let fill = format!("[t{}c{}]", t, i).into_bytes();
                    let mut big = tag.clone();
                    while big.len() < d.len() {
                        big.extend_from_slice(&fill);
                    }
                    *d = big;
                } else {
                    *d = tag;
                }
            }
        }
    }
}

fn norm(o: &Out) -> Out {
    match o {
        Out::Seq(v) => {
            let mut v = v.clone();
            v.sort();
            Out::Seq(v)
        },
        // which error a call reports is not part of the sequential-equivalence claim
        Out::Err(_) => Out::Err(String::new()),
        x => x.clone(),
    }
}

type SeqOutcome = (Vec<Out>, Tree);

/// Sequential execution of the calls in the given order on a fresh seed state (no scheduler)
fn sequential(seed: u8, program: &[Vec<Op>], order: &[(usize, usize)]) -> SeqOutcome {
    let m = seed_state(seed);
    let mut outs = vec![];
    for (t, i) in order {
        outs.push(norm(&apply(&m, &program[*t][*i])));
    }
    (outs, tree_from_dump(&m.verif_dump()))
}

/// all interleavings of the threads' call lists that respect program order
fn orders(program: &[Vec<Op>]) -> Vec<Vec<(usize, usize)>> {
    fn rec(program: &[Vec<Op>], pos: &mut Vec<usize>, cur: &mut Vec<(usize, usize)>, out: &mut Vec<Vec<(usize, usize)>>) {
        let total: usize = program.iter().map(|p| p.len()).sum();
        if cur.len() == total {
            out.push(cur.clone());
            return;
        }
        for t in 0..program.len() {
            if pos[t] < program[t].len() {
                cur.push((t, pos[t]));
                pos[t] += 1;
                rec(program, pos, cur, out);
                pos[t] -= 1;
                cur.pop();
            }
        }
    }
    let mut out = vec![];
    rec(program, &mut vec![0; program.len()], &mut vec![], &mut out);
    out
}

pub struct ProgCtx {
    pub seed: u8,
    pub program: Vec<Vec<Op>>,
    pub orders: Vec<Vec<(usize, usize)>>,
    pub cache: HashMap<usize, SeqOutcome>,
}

impl ProgCtx {
    pub fn new(seed: u8, program: Vec<Vec<Op>>) -> ProgCtx {
        let orders = orders(&program);
        ProgCtx { seed, program, orders, cache: HashMap::new() }
    }
}

/// Judge one controlled execution
pub fn judge_execution(pc: &mut ProgCtx, e: &Execution, mem: &Memfs, no_lin: bool) -> CaseResult {
    let names: Vec<&str> = pc.program.iter().flatten().map(|o| o.name()).collect();
    let mut sorted_names = names.clone();
    sorted_names.sort();
    sorted_names.dedup();
    let pname = sorted_names.join("+");
    if let Some(n) = &e.nested {
        return Err(Failure::new(format!("nested-guard-acquisition|{}", pname), n.clone()));
    }
    if e.stuck {
        ctx().inconclusive("a controlled execution made no progress for 20 s wall clock");
        return Ok(());
    }
    for c in &e.calls {
        if let Out::Panic(m) = &c.out {
            return Err(Failure::new(format!("panic|{}|{}", pc.program[c.thread][c.index].name(), panic_site(m)), format!("call {:?} panicked: {}", pc.program[c.thread][c.index], m)));
        }
    }
    let total: usize = pc.program.iter().map(|p| p.len()).sum();
    if e.calls.len() != total || !e.panicked.is_empty() {
        return Err(Failure::new(format!("call-did-not-return|{}", pname), format!("{} of {} calls returned; {:?}", e.calls.len(), total, e.panicked)));
    }
    let dump = mem.verif_dump();
    let bad = integrity(&dump);
    if !bad.is_empty() {
        return Err(Failure::new(format!("integrity-at-quiescence:{}|{}", bad[0].0, pname), format!("{}: {}", bad[0].0, bad[0].1)));
    }
    let tree = tree_from_dump(&dump);
    // append accounting
    for (t, ops) in pc.program.iter().enumerate() {
        for (i, op) in ops.iter().enumerate() {
            if let Op::AppendAll(_, d) = op {
                let ok = e.calls.iter().find(|c| c.thread == t && c.index == i).map(|c| !c.out.is_err()).unwrap_or(false);
                if ok {
                    let tok = String::from_utf8_lossy(d).to_string();
                    let count: usize = tree.nodes.values().map(|n| if let Node::File { data, .. } = n { String::from_utf8_lossy(data).matches(&tok).count() } else { 0 }).sum();
                    let removed_later = pc.program.iter().flatten().any(|o| matches!(o, Op::Remove(_) | Op::RemoveAll(_) | Op::WriteAll(..) | Op::WriteLines(..) | Op::WriteH(..) | Op::MoveP(..) | Op::Copy(..)));
                    if count != 1 && !removed_later {
                        return Err(Failure::new(format!("append-lost-or-duplicated|{}", pname), format!("payload {} of a successful append_all occurs {} times in the final content", tok, count)));
                    }
                }
            }
        }
    }
    if no_lin {
        return Ok(());
    }
    // linearizability: some program-order + real-time respecting sequential order explains results and final state
    let got: HashMap<(usize, usize), Out> = e.calls.iter().map(|c| ((c.thread, c.index), norm(&c.out))).collect();
    let times: HashMap<(usize, usize), (u64, u64)> = e.calls.iter().map(|c| ((c.thread, c.index), (c.start, c.end))).collect();
    let mut closest: Option<String> = None;
    for oi in 0..pc.orders.len() {
        let order = &pc.orders[oi];
        // real-time precedence
        let mut ok = true;
        'o: for x in 0..order.len() {
            for y in x + 1..order.len() {
                // order[y] placed after order[x]: illegal if order[y] finished before order[x] started
                if times[&order[y]].1 < times[&order[x]].0 {
                    ok = false;
                    break 'o;
                }
            }
        }
        if !ok {
            continue;
        }
        if !pc.cache.contains_key(&oi) {
            let v = sequential(pc.seed, &pc.program, order);
            pc.cache.insert(oi, v);
        }
        let (outs, t) = &pc.cache[&oi];
        let same_outs = order.iter().zip(outs.iter()).all(|(k, o)| got[k] == *o);
        if same_outs && *t == tree {
            return Ok(());
        }
        if closest.is_none() {
            closest = Some(format!("e.g. order {:?} gives results {:?}, tree keys {:?}", order, outs, t.nodes.keys().collect::<Vec<_>>()));
        }
    }
    let multi: Vec<&str> = sorted_names.clone();
    Err(Failure::new(
        format!("not-linearizable|{}", multi.join("+")),
        format!(
            "results {:?} and final tree {:?} (files {:?}) match no sequential order of the calls; {}",
            e.calls.iter().map(|c| format!("t{}c{}:{:?}", c.thread, c.index, c.out)).collect::<Vec<_>>(),
            tree.nodes.keys().collect::<Vec<_>>(),
            tree.nodes.iter().filter_map(|(k, n)| if let Node::File { data, .. } = n { Some(format!("{}={:?}", k, String::from_utf8_lossy(data))) } else { None }).collect::<Vec<_>>(),
            closest.unwrap_or_default()
        ),
    ))
}

/// Explore all schedules (up to `cap`) of one program; returns number of executions
pub fn explore(c: &Ctx, seed: u8, program: Vec<Vec<Op>>, cap: usize, via_vfs: bool, no_lin: bool) -> usize {
    let mut pc = ProgCtx::new(seed, program);
    let program_json = serde_json::to_string(&pc.program).unwrap();
    let mut prefix: Vec<usize> = vec![];
    let mut n = 0;
    loop {
        let holder = Vfs::Memfs(seed_state(seed));
        let mem = match &holder {
            Vfs::Memfs(m) => m,
            _ => unreachable!(),
        };
        mark("sched", &format!("{{\"seed_state\":{},\"program\":{},\"schedule\":{:?},\"via_vfs\":{},\"no_lin\":{}}}", seed, program_json, prefix, via_vfs, no_lin));
        let e = if via_vfs { run_controlled(&holder, &pc.program, &prefix) } else { run_controlled(mem, &pc.program, &prefix) };
        n += 1;
        c.eval(1);
        // non-trivial: two calls of different threads overlap in time and one of them mutates
        let overlap = e.calls.iter().any(|a| e.calls.iter().any(|b| a.thread != b.thread && a.start < b.end && b.start < a.end && (pc.program[a.thread][a.index].is_mutator() || pc.program[b.thread][b.index].is_mutator())));
        if overlap {
            c.nontrivial(fp(&(format!("{:?}", pc.program), seed, &e.schedule)));
            c.class("execution:calls-of-different-threads-overlap");
        }
        let case = SchedCase { seed_state: seed, program: pc.program.clone(), schedule: e.schedule.clone(), via_vfs, no_lin };
        c.sample(|| json!({"kind":"sched","case":case}));
        if via_vfs {
            c.class("execution:through-Vfs-wrapper");
        }
        let r = judge_execution(&mut pc, &e, mem, no_lin);
        let passed = c.judge("sched", &case, r);
        if !passed {
            break;
        }
        match next_prefix(&e) {
            Some(p) if n < cap => prefix = p,
            Some(_) => {
                c.class("program:schedule-cap-hit");
                break;
            },
            None => break,
        }
    }
    n
}

fn programs(alpha: &[Op], shape: &[usize]) -> Vec<Vec<Vec<Op>>> {
    // cartesian product: shape[i] calls for thread i
    let total: usize = shape.iter().sum();
    let k = alpha.len();
    let mut out = vec![];
    let mut idx = vec![0usize; total];
    loop {
        let mut p = vec![];
        let mut at = 0;
        for n in shape {
            p.push(idx[at..at + n].iter().map(|i| alpha[*i].clone()).collect::<Vec<_>>());
            at += n;
        }
        tag_appends(&mut p);
        out.push(p);
        let mut j = 0;
        loop {
            if j == total {
                return out;
            }
            idx[j] += 1;
            if idx[j] < k {
                break;
            }
            idx[j] = 0;
            j += 1;
        }
    }
}

fn stress(c: &Ctx, threads: usize, rounds: usize) {
    // uncontrolled multi-core run (threads have no scheduler session): weaker evidence
    let alpha = alphabet(true);
    // (the calling thread registers with the watchdog: a round in which the threads dead-lock each other on
    // the real lock never ends, and the blocked-call rule is what reports it)
    worker_enter();
    let _guard = crate::props::c04::ExitGuard;
    for round in 0..rounds {
        mark("stress", &json!({"round": round, "threads": threads}).to_string());
        let m = seed_state(1);
        let m = std::sync::Arc::new(m.upcast());
        let mut appended: Vec<String> = vec![];
        std::thread::scope(|sc| {
            let mut hs = vec![];
            for t in 0..threads {
                let m = m.clone();
                let alpha = &alpha;
                hs.push(sc.spawn(move || {
                    let mut mine = vec![];
                    for i in 0..300usize {
                        let k = splitmix((round * 1000 + t * 7919 + i) as u64) as usize % alpha.len();
                        let tok = format!("<r{}t{}i{}>", round, t, i);
                        let _ = apply(&*m, &alpha[k]);
                        if m.append_all("/acc", &tok).is_ok() {
                            mine.push(tok);
                        }
                    }
                    mine
                }));
            }
            for h in hs {
                if let Ok(v) = h.join() {
                    appended.extend(v);
                }
            }
        });
        c.eval(1);
        c.class("stress:uncontrolled-round");
        let mem = match &*m {
            Vfs::Memfs(x) => x,
            _ => unreachable!(),
        };
        let d = mem.verif_dump();
        let bad = integrity(&d);
        let content = mem.read_all("/acc").unwrap_or_default();
        let mut r: CaseResult = Ok(());
        if !bad.is_empty() {
            r = Err(Failure::new(format!("stress|integrity-at-quiescence:{}", bad[0].0), bad[0].1.clone()));
        } else if let Some(t) = appended.iter().find(|t| content.matches(t.as_str()).count() != 1) {
            r = Err(Failure::new("stress|append-lost-or-duplicated", format!("token {} occurs {} times", t, content.matches(t.as_str()).count())));
        }
        c.judge("stress", &json!({"round": round, "threads": threads}), r);
    }
}

/// Uncontrolled: handles dropped (without flush) or flushed while the lock is busy still write back - every byte that
/// went through a write/append handle is in its file once all threads are done (a write-back that gives up when
/// the guard is contended, instead of waiting for it, loses the data silently and never shows single-threaded)
fn handle_stress(c: &Ctx, rounds: usize) {
    worker_enter();
    let _guard = ExitGuard;
    for round in 0..rounds {
        mark("stress-handles", &json!({"round": round}).to_string());
        let m = Memfs::new();
        let _ = m.mkdir_p("/h");
        let _ = m.mkdir_p("/busy/a/b");
        for i in 0..40 {
            let _ = m.write_all(format!("/busy/a/f{}", i), b"x");
        }
        let v = std::sync::Arc::new(m.upcast());
        let stop = std::sync::atomic::AtomicBool::new(false);
        const WRITERS: usize = 3;
        const FILES_PER_WRITER: usize = 400;
        std::thread::scope(|sc| {
            // lock pressure: listings (read guards) and writes elsewhere (write guards)
            for t in 0..4usize {
                let v = v.clone();
                let stop = &stop;
                sc.spawn(move || {
                    let mut i = 0usize;
                    while !stop.load(std::sync::atomic::Ordering::Relaxed) {
                        if t % 2 == 0 {
                            let _ = v.all_paths("/busy");
                            let _ = v.read_all("/busy/a/f1");
                        } else {
                            let _ = v.write_all(format!("/busy/a/f{}", i % 40), vec![b'y'; 4096]);
                        }
                        i += 1;
                    }
                });
            }
            let mut ws = vec![];
            for t in 0..WRITERS {
                let v = v.clone();
                ws.push(sc.spawn(move || {
                    for i in 0..FILES_PER_WRITER {
                        let p = format!("/h/w{}-{}", t, i);
                        match i % 4 {
                            // write handle over an existing file whose content has the length of the new one
                            3 => {
                                let _ = v.write_all(&p, format!("old-{:08}", i));
                                if let Ok(mut h) = v.write(&p) {
                                    let _ = h.write_all(format!("NEW-{:08}", i).as_bytes());
                                }
                            },
                            // write handle, dropped without flush
                            0 => {
                                if let Ok(mut h) = v.write(&p) {
                                    let _ = h.write_all(format!("W{}-{}", t, i).as_bytes());
                                }
                            },
                            // append handle on an existing file, dropped without flush
                            1 => {
                                let _ = v.write_all(&p, b"base+");
                                if let Ok(mut h) = v.append(&p) {
                                    let _ = h.write_all(format!("A{}-{}", t, i).as_bytes());
                                }
                            },
                            // write handle, flushed explicitly then dropped
                            _ => {
                                if let Ok(mut h) = v.write(&p) {
                                    let _ = h.write_all(format!("F{}-{}", t, i).as_bytes());
                                    let _ = h.flush();
                                }
                            },
                        }
                    }
                }));
            }
            for w in ws {
                let _ = w.join();
            }
            stop.store(true, std::sync::atomic::Ordering::Relaxed);
        });
        c.eval(1);
        c.nontrivial(fp(&("handle-stress", round)));
        c.class("stress:handle-write-back-under-load");
        let mut r: CaseResult = Ok(());
        'outer: for t in 0..WRITERS {
            for i in 0..FILES_PER_WRITER {
                let p = format!("/h/w{}-{}", t, i);
                let want = match i % 4 {
                    3 => format!("NEW-{:08}", i),
                    0 => format!("W{}-{}", t, i),
                    1 => format!("base+A{}-{}", t, i),
                    _ => format!("F{}-{}", t, i),
                };
                let got = v.read_all(&p).ok();
                if got.as_deref() != Some(want.as_str()) {
                    let how = ["write-handle-dropped", "append-handle-dropped", "write-handle-flushed", "write-handle-over-same-length-content"][i % 4];
                    r = Err(Failure::new(format!("stress|handle-write-back-lost-under-load|{}", how), format!("{} holds {:?} after all threads finished, want {:?} (the handle's owner was the only writer of that file)", p, got, want)));
                    break 'outer;
                }
            }
        }
        c.judge("stress-handles", &json!({"round": round}), r);
    }
}

/// Uncontrolled: queries about entries nobody touches keep giving the one answer every sequential order gives,
/// however busy the lock is (a query that gives up instead of waiting for the guard would not)
fn bystander_stress(c: &Ctx, rounds: usize) {
    worker_enter();
    let _guard = ExitGuard;
    for round in 0..rounds {
        mark("stress-bystander", &json!({"round": round}).to_string());
        let m = Memfs::new();
        let _ = m.write_all("/ro", b"const");
        let _ = m.chmod("/ro", 0o444);
        let _ = m.chown("/ro", 3, 4);
        let _ = m.mkdir_m("/rod/sub", 0o555);
        let _ = m.symlink("/rol", "/ro");
        let v = std::sync::Arc::new(m.upcast());
        let stop = std::sync::atomic::AtomicBool::new(false);
        let bad: std::sync::Mutex<Option<String>> = std::sync::Mutex::new(None);
        std::thread::scope(|sc| {
            for t in 0..3usize {
                let v = v.clone();
                let stop = &stop;
                sc.spawn(move || {
                    let payload = vec![b'p'; 256 * 1024];
                    let mut i = 0usize;
                    while !stop.load(std::sync::atomic::Ordering::Relaxed) {
                        let p = format!("/w{}/f{}", t, i % 5);
                        let _ = v.mkdir_p(format!("/w{}", t));
                        let _ = v.write_all(&p, &payload);
                        let _ = v.append_all(&p, b"tail");
                        let _ = v.chmod(&p, 0o600);
                        if i % 7 == 0 {
                            let _ = v.remove_all(format!("/w{}", t));
                        }
                        i += 1;
                    }
                });
            }
            let mut readers = vec![];
            for via_wrapper in [true, false] {
                let v = v.clone();
                let bad = &bad;
                readers.push(sc.spawn(move || {
                    let mem = match &*v {
                        Vfs::Memfs(x) => x,
                        _ => unreachable!(),
                    };
                    for it in 0..6000u32 {
                        let facts: Vec<(&str, bool)> = if via_wrapper {
                            vec![
                                ("is_readonly(/ro)", v.is_readonly("/ro")),
                                ("!is_exec(/ro)", !v.is_exec("/ro")),
                                ("exists(/ro)", v.exists("/ro")),
                                ("is_file(/ro)", v.is_file("/ro")),
                                ("is_dir(/rod)", v.is_dir("/rod")),
                                ("is_symlink(/rol)", v.is_symlink("/rol")),
                                ("is_symlink_file(/rol)", v.is_symlink_file("/rol")),
                                ("mode(/ro)==100444", v.mode("/ro").ok() == Some(0o100444)),
                                ("owner(/ro)==(3,4)", v.owner("/ro").ok() == Some((3, 4))),
                                ("read_all(/ro)==const", v.read_all("/ro").ok().as_deref() == Some("const")),
                                ("paths(/rod)==[/rod/sub]", v.paths("/rod").ok().map(|x| x.len()) == Some(1)),
                                ("readlink_abs(/rol)==/ro", v.readlink_abs("/rol").ok().and_then(|p| p.to_str().map(|s| s == "/ro")) == Some(true)),
                            ]
                        } else {
                            vec![
                                ("is_readonly(/ro)", mem.is_readonly("/ro")),
                                ("!is_exec(/ro)", !mem.is_exec("/ro")),
                                ("exists(/ro)", mem.exists("/ro")),
                                ("is_file(/ro)", mem.is_file("/ro")),
                                ("is_dir(/rod)", mem.is_dir("/rod")),
                                ("is_symlink(/rol)", mem.is_symlink("/rol")),
                                ("uid(/ro)==3", mem.uid("/ro").ok() == Some(3)),
                                ("gid(/ro)==4", mem.gid("/ro").ok() == Some(4)),
                                ("entry(/ro).mode", mem.entry("/ro").ok().map(|e| e.mode()) == Some(0o100444)),
                                ("all_files(/rod)==[]", mem.all_files("/rod").ok().map(|x| x.len()) == Some(0)),
                                ("dirs(/rod)==[sub]", mem.dirs("/rod").ok().map(|x| x.len()) == Some(1)),
                                ("Display-mentions-/rol", it % 200 != 0 || format!("{}", mem).contains("/rol")),
                                ("Debug-renders", it % 200 != 100 || !format!("{:?}", mem).is_empty()),
                            ]
                        };
                        if let Some((what, _)) = facts.iter().find(|(_, ok)| !*ok) {
                            let mut g = bad.lock().unwrap();
                            if g.is_none() {
                                *g = Some(what.to_string());
                            }
                            return;
                        }
                    }
                }));
            }
            for r in readers {
                let _ = r.join();
            }
            stop.store(true, std::sync::atomic::Ordering::Relaxed);
        });
        c.eval(1);
        c.nontrivial(fp(&("bystander", round)));
        c.class("stress:bystander-queries-under-load");
        let r = match bad.into_inner().unwrap() {
            Some(what) => Err(Failure::new(format!("stress|bystander-query-wrong-under-load|{}", what.split('(').next().unwrap_or("?").trim_start_matches('!')), format!("while other threads wrote to unrelated paths, {} did not hold for an entry nobody touched", what))),
            None => Ok(()),
        };
        c.judge("stress-bystander", &json!({"round": round}), r);
    }
}

pub fn run(c: &Ctx) {
    c.set_rule("controlled scheduler on hook H1: real threads park before every MemfsGuard acquisition and exactly one is released at a time, so an execution is a function of (seed state, program, schedule). For every program ALL interleavings at critical-section granularity are enumerated depth-first (cap per program noted). Programs: quick = all 2-thread programs with (1,1) calls over a 15-form core alphabet and a seeded quarter of the (2,1) programs from a populated seed state, all 448 'two mutators of one directory vs one listing/reader' programs, and all (1,1) programs over the full 45-form alphabet from two more seed states (nested dirs + link; cwd below root); thorough = all (1,1),(2,1) over the 45-form alphabet, seeded samples of (2,2),(1,1,1),(2,1,1), four seed states, plus (both tiers) every rich call form of the VFS trait on every path of a seed state as a one-thread program (guard discipline: nesting is a property of the call alone) and every listed single-step call form on every path of that state racing each of 8 mutators (quick: a seeded half), relative-path forms racing cwd changes, attribute queries racing replacing moves / chown / chmod on a seed state with distinct modes and owners, plus 147 programs 'write/append handle session vs two calls that remove / replace its file' (no sequential equivalence claimed for the composite: no panic, no poisoned lock, no dead-lock, integrity); about half of all programs run through the Vfs enum wrapper instead of the Memfs value; plus 12 programs in which one call removes / moves / re-modes / re-owns a directory of 650 entries while another thread lists it or asks about its first and last entries; plus uncontrolled runs: (both tiers) 2/12 rounds in which three threads write 256 KiB payloads to their own paths while two threads ask 12 000 times about entries nobody touches (every answer must be the one every sequential order gives); (both tiers) 2/12 rounds in which three threads put 1200 files through write/append handles (dropped without flush, or flushed) while four threads keep the lock busy with listings and writes elsewhere - at quiescence every handle's bytes are in its file; (thorough) 8-thread stress rounds. Oracle per execution: no nested guard acquisition (would dead-lock), no panic, every call returns, C03 invariants at quiescence, every successful append_all payload exactly once, and linearizability: per-call results (Ok values; Err-ness) and the final tree equal those of SOME sequential order of the same calls on a fresh instance that respects program order and real-time precedence. Non-trivial = execution in which calls of different threads overlap in time and one mutates; distinct by (seed, program, schedule).");
    c.assume("all shared state of Memfs is behind the one RwLock (safe Rust): interleavings at guard granularity are complete; sequential specification = Memfs itself run single-threaded (functional correctness is C01's job)");
    install_hook();
    let quick = c.tier == Tier::Quick;
    let core = alphabet(false);
    let full = alphabet(true);
    let cap = c.tier.pick(400, 5000);
    let mut jobs: Vec<(u8, Vec<Vec<Op>>, bool, bool)> = vec![];
    if quick {
        for p in programs(&core, &[1, 1]) {
            jobs.push((1, p, false, false));
        }
        for (i, p) in programs(&core, &[2, 1]).into_iter().enumerate() {
            if sampled(c.seed, 41, i as u64, 1, 4) {
                jobs.push((1, p, false, false));
            }
        }
        for p in programs(&full, &[1, 1]) {
            jobs.push((2, p.clone(), false, false));
            jobs.push((3, p, true, false)); // through the Vfs enum wrapper
        }
        // a listing / reader racing two mutators of the same directory (snapshots must be atomic)
        let mutators = vec![
            Op::RemoveAll(s("/a")),
            Op::Mkfile(s("/a")),
            Op::MoveP(s("/a"), s("/e")),
            Op::MkdirP(s("/a/c")),
            Op::Remove(s("/a/f")),
            Op::WriteAll(s("/a/f"), b"W".to_vec()),
            Op::MkdirP(s("/a")),
            Op::Copy(s("/b"), s("/a")),
        ];
        let readers = vec![Op::Paths(s("/a")), Op::Files(s("/a")), Op::Dirs(s("/a")), Op::AllPaths(s("/a")), Op::AllFiles(s("/")), Op::ReadAll(s("/a/f")), Op::Entries(s("/a"))];
        for m1 in &mutators {
            for m2 in &mutators {
                for r in &readers {
                    jobs.push((1, vec![vec![m1.clone(), m2.clone()], vec![r.clone()]], false, false));
                }
            }
        }
    } else {
        for seed in [0u8, 1, 2, 3] {
            for p in programs(&full, &[1, 1]) {
                jobs.push((seed, p, seed % 2 == 1, false));
            }
        }
        for (i, p) in programs(&full, &[2, 1]).into_iter().enumerate() {
            if sampled(c.seed, 46, i as u64, 1, 4) {
                jobs.push(((i % 3) as u8 + 1, p, false, false));
            }
        }
        for (i, p) in programs(&core, &[2, 2]).into_iter().enumerate() {
            if sampled(c.seed, 43, i as u64, 1, 10) {
                jobs.push((1, p, false, false));
            }
        }
        for (i, p) in programs(&core, &[1, 1, 1]).into_iter().enumerate() {
            if sampled(c.seed, 44, i as u64, 1, 2) {
                jobs.push((1, p, false, false));
            }
        }
        for (i, p) in programs(&core, &[2, 1, 1]).into_iter().enumerate() {
            if sampled(c.seed, 45, i as u64, 1, 40) {
                jobs.push((1, p, false, false));
            }
        }
    }
    // guard discipline of every call form: a call that takes a second guard while holding one dead-locks as
    // soon as a writer queues in between (std's RwLock prefers writers); whether a call nests is a property
    // of the call alone, so one-thread programs over every rich call form on every path of a seed state with
    // dirs, files and a link settle it
    let disc_paths = ["/", "/a", "/a/b", "/a/b/h", "/a/f", "/l", "/l/f", "/d", "/nope", "/a/new", "f", "..", "../a", "a/../../d"];
    let mut disc = 0u64;
    for p in disc_paths {
        for op in crate::fsalpha::single_path_ops(p, true) {
            jobs.push((2, vec![vec![op]], false, false));
            disc += 1;
        }
    }
    for a in disc_paths.iter().take(9) {
        for b in disc_paths.iter().take(10) {
            for op in crate::fsalpha::two_path_ops(a, b, true) {
                jobs.push((2, vec![vec![op]], false, false));
                disc += 1;
            }
        }
    }
    for op in crate::fsalpha::nullary_ops() {
        jobs.push((2, vec![vec![op]], false, false));
        disc += 1;
    }
    c.note("guard_discipline_single_call_programs", disc);
    // a big directory (1600 entries) removed / copied / moved / re-moded as ONE step while another thread looks
    {
        let s = |x: &str| x.to_string();
        let bigops = vec![
            Op::RemoveAll(s("/big")),
            Op::MoveP(s("/big"), s("/moved")),
            Op::Chmod(s("/big"), 0o700),
            Op::ChownB(s("/big"), ChownOpt { uid: Some(7), gid: Some(8), recursive: true, follow: false }),
        ];
        let observers = vec![
            vec![Op::Paths(s("/big"))],
            vec![Op::Exists(s("/big/f0559")), Op::Exists(s("/big/f0000"))],
            vec![Op::Owner(s("/big/f0559")), Op::Mode(s("/big/sub/g089"))],
        ];
        let mut n = 0u64;
        for b in &bigops {
            for o in &observers {
                jobs.push((6, vec![vec![b.clone()], o.clone()], n % 2 == 1, false));
                n += 1;
            }
        }
        c.note("big_directory_programs", n);
    }
    // every single-step call form the statement lists, on every path of the seed state, racing each of a
    // set of mutators of the same subtree: (1,1) programs, all interleavings
    let racers = vec![
        Op::MkdirP(s("/a/c")),
        Op::Remove(s("/a/f")),
        Op::RemoveAll(s("/a")),
        Op::MoveP(s("/a"), s("/e")),
        Op::WriteAll(s("/a/f"), b"W".to_vec()),
        Op::Symlink(s("/a/new"), s("/d")),
        Op::Remove(s("/l")),
        Op::SetCwd(s("/a/b")),
    ];
    let claimed = |o: &Op| matches!(o.name(), "mkfile" | "mkdir_p" | "mkdir_m" | "write_all" | "append_all" | "read_all" | "read_lines" | "exists" | "is_dir" | "is_file" | "is_symlink" | "is_symlink_dir" | "is_symlink_file" | "is_exec" | "is_readonly" | "mode" | "uid" | "gid" | "owner" | "entry" | "abs" | "paths" | "dirs" | "files" | "all_paths" | "all_dirs" | "all_files" | "entries" | "remove" | "remove_all" | "set_cwd" | "readlink" | "readlink_abs" | "copy" | "move_p" | "symlink");
    let mut race = 0u64;
    let mut forms: Vec<Op> = vec![];
    for p in disc_paths {
        forms.extend(crate::fsalpha::single_path_ops(p, false).into_iter().filter(|o| claimed(o) && !matches!(o, Op::MkfileM(..))));
    }
    for a in disc_paths.iter().take(9) {
        for b in disc_paths.iter().take(10) {
            forms.extend(crate::fsalpha::two_path_ops(a, b, false));
        }
    }
    for (i, f) in forms.iter().enumerate() {
        for (j, r) in racers.iter().enumerate() {
            if quick && !sampled(c.seed, 47, (i * 8 + j) as u64, 1, 2) {
                continue;
            }
            let mut p = vec![vec![f.clone()], vec![r.clone()]];
            tag_appends(&mut p);
            jobs.push((2, p, (i + j) % 2 == 1, false));
            race += 1;
        }
    }
    // relative arguments racing a cwd change (seed state 3: cwd /a): resolution and action are one step
    let rel_racers = vec![Op::SetCwd(s("/d")), Op::SetCwd(s("/")), Op::MoveP(s("/a"), s("/e")), Op::Remove(s("/a/f")), Op::MkdirP(s("/d/b"))];
    for p in ["f", "b", ".", "../d", "b/new"] {
        for f in crate::fsalpha::single_path_ops(p, false).into_iter().filter(|o| claimed(o) && !matches!(o, Op::MkfileM(..))) {
            for (j, r) in rel_racers.iter().enumerate() {
                let mut prog = vec![vec![f.clone()], vec![r.clone()]];
                tag_appends(&mut prog);
                jobs.push((3, prog, j % 2 == 1, false));
                race += 1;
            }
        }
    }
    for f in [Op::Copy(s("f"), s("/d/o")), Op::Copy(s("/a/f"), s("o")), Op::MoveP(s("f"), s("/d/o")), Op::Symlink(s("lnk"), s("/d")), Op::Copy(s("b"), s("/d/bb"))] {
        for (j, r) in rel_racers.iter().enumerate() {
            // the racer is followed by a write that pins the order: a copy that resolved its source before the
            // cwd change but read it after the write matches no sequential order
            let prog = vec![vec![f.clone()], vec![r.clone(), Op::WriteAll(s("/a/f"), b"A2".to_vec())]];
            jobs.push((3, prog, j % 2 == 1, false));
            race += 1;
        }
    }
    // relative listings / queries racing "change the cwd, then change the old cwd": an answer about the new state of
    // the old directory matches no sequential order
    for p in [".", "b", "f"] {
        for f in crate::fsalpha::single_path_ops(p, false).into_iter().filter(|o| claimed(o) && !o.is_mutator()) {
            for (j, second) in [Op::Mkfile(s("/a/x")), Op::Remove(s("/a/f")), Op::MkdirP(s("/a/b/y")), Op::RemoveAll(s("/a/b"))].into_iter().enumerate() {
                jobs.push((3, vec![vec![f.clone()], vec![Op::SetCwd(s("/d")), second]], j % 2 == 1, false));
                race += 1;
            }
        }
    }
    // the same from a state where the name exists below the old and the new cwd: an answer of "missing" (or a
    // mix) matches no order
    for p in ["f", "b"] {
        for f in crate::fsalpha::single_path_ops(p, false).into_iter().filter(|o| claimed(o) && !o.is_mutator()) {
            for (j, second) in [Op::Remove(s("/a/f")), Op::RemoveAll(s("/a/b")), Op::RemoveAll(s("/a"))].into_iter().enumerate() {
                jobs.push((5, vec![vec![f.clone()], vec![Op::SetCwd(s("/d")), second]], j % 2 == 1, false));
                race += 1;
            }
        }
    }
    // queries racing calls that replace the entry or change its attributes (seed state 4: distinct modes / owners)
    let attr_racers = vec![Op::MoveP(s("/b"), s("/a/f")), Op::Chown(s("/a/f"), 7, 8), Op::Chmod(s("/a/f"), 0o755), Op::WriteAll(s("/a/f"), b"W".to_vec()), Op::Remove(s("/a/f"))];
    let queries = vec![Op::Owner(s("/a/f")), Op::Uid(s("/a/f")), Op::Gid(s("/a/f")), Op::Mode(s("/a/f")), Op::IsExec(s("/a/f")), Op::IsReadonly(s("/a/f")), Op::Entry(s("/a/f")), Op::ReadAll(s("/a/f")), Op::Entries(s("/a")), Op::IsFile(s("/a/f"))];
    for q in &queries {
        for r in &attr_racers {
            for via in [false, true] {
                jobs.push((4, vec![vec![q.clone()], vec![r.clone()]], via, false));
                race += 1;
            }
        }
    }
    c.note("call_form_vs_racer_programs", race);
    // a write / append handle session (open .. write .. flush .. drop inside one thread) racing two mutators
    // of its file: no sequential equivalence is claimed for the composite, but nothing may panic, poison the
    // lock, dead-lock or break the tree
    let sessions = vec![
        Op::WriteH(s("/a/f"), vec![b"h1".to_vec(), b"h2".to_vec()], vec![true, false]),
        Op::AppendH(s("/a/f"), vec![b"h3".to_vec()], vec![false]),
        Op::WriteH(s("/a/new"), vec![b"n".to_vec()], vec![true]),
    ];
    let replacers = vec![
        Op::Remove(s("/a/f")),
        Op::RemoveAll(s("/a")),
        Op::MkdirP(s("/a/f")),
        Op::Symlink(s("/a/f"), s("/d")),
        Op::MoveP(s("/a/f"), s("/g")),
        Op::MkdirP(s("/a/new")),
        Op::Mkfile(s("/a/f")),
    ];
    let mut sess = 0u64;
    for h in &sessions {
        for (i, m1) in replacers.iter().enumerate() {
            for (j, m2) in replacers.iter().enumerate() {
                jobs.push((2, vec![vec![h.clone()], vec![m1.clone(), m2.clone()]], (i + j) % 2 == 1, true));
                sess += 1;
            }
        }
    }
    c.note("handle_session_vs_replacers_programs", sess);
    // a write_all of more than a mebibyte (a payload an implementation may want to copy outside the lock) racing
    // two calls that replace its file: still one step
    let big = Op::WriteAll(s("/a/f"), vec![b'M'; 1_200_000]);
    let mut big_jobs: Vec<(Vec<Vec<Op>>, bool)> = vec![];
    for (i, m1) in replacers.iter().enumerate() {
        for (j, m2) in replacers.iter().enumerate() {
            big_jobs.push((vec![vec![big.clone()], vec![m1.clone(), m2.clone()]], (i + j) % 2 == 1));
        }
    }
    {
        let t0 = std::time::Instant::now();
        let big_execs = std::sync::atomic::AtomicU64::new(0);
        par_for(big_jobs.len() as u64, 1, |i| {
            let (p, via) = &big_jobs[i as usize];
            let n = explore(c, 2, p.clone(), cap.min(60), *via, false);
            big_execs.fetch_add(n as u64, std::sync::atomic::Ordering::Relaxed);
        });
        c.note("big_write_vs_replacers", json!({"programs": big_jobs.len(), "executions": big_execs.load(std::sync::atomic::Ordering::Relaxed), "seconds": t0.elapsed().as_secs_f64()}));
    }
    c.note("programs", jobs.len());
    let execs = std::sync::atomic::AtomicU64::new(0);
    par_for(jobs.len() as u64, 4, |i| {
        let (seed, p, via_vfs, no_lin) = &jobs[i as usize];
        let n = explore(c, *seed, p.clone(), cap, *via_vfs, *no_lin);
        execs.fetch_add(n as u64, std::sync::atomic::Ordering::Relaxed);
    });
    c.note("controlled_executions", execs.load(std::sync::atomic::Ordering::Relaxed));
    bystander_stress(c, c.tier.pick(2, 12));
    handle_stress(c, c.tier.pick(2, 12));
    if !quick {
        stress(c, 8, 40);
    }
}

pub fn replay(kind: &str, case: &Value) -> Option<CaseResult> {
    match kind {
        "stress-bystander" => Some(Ok(())), // schedule dependent: re-run the check itself
        "stress-handles" => Some(Ok(())), // schedule dependent: re-run the check itself
        "sched" => {
            install_hook();
            let sc: SchedCase = serde_json::from_value(case.clone()).ok()?;
            let mut pc = ProgCtx::new(sc.seed_state, sc.program.clone());
            let holder = Vfs::Memfs(seed_state(sc.seed_state));
            let mem = match &holder {
                Vfs::Memfs(m) => m,
                _ => unreachable!(),
            };
            let e = if sc.via_vfs { run_controlled(&holder, &sc.program, &sc.schedule) } else { run_controlled(mem, &sc.program, &sc.schedule) };
            Some(judge_execution(&mut pc, &e, mem, sc.no_lin))
        },
        _ => None,
    }
}
