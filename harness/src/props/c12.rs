//! C12 — no call panics, hangs or wedges the filesystem, whatever its arguments
use std::io::{Read, Seek, SeekFrom};
use std::path::Path;

use proptest::prelude::*;
use rivia::prelude::*;
use serde::{Deserialize, Serialize};
use serde_json::{json, Value};

use crate::{engine::*, fsalpha::*, fsapply::*, fstypes::*, strgen::*};

const ALPHA: &[&str] = &["/", ".", "~", "$", ":", "{", "}", " ", "a", "é", "日", "😀", "\n", "\0", "-", "%", "*", "\\", "\"", "İ", "\u{212a}", "A"];

fn populate(m: &Memfs) {
    let _ = m.mkdir_m("/a/b", 0o750);
    let _ = m.write_all("/a/f", b"data\n");
    let _ = m.write_all("/a/b/\u{e9}", [0xffu8, 0xfe]);
    let _ = m.symlink("/ld", "/a");
    let _ = m.symlink("/lf", "/a/f");
    let _ = m.symlink("/a/b/loop", "/a");
    let _ = m.symlink("/dang", "/nowhere");
    let _ = m.set_cwd("/a");
}

/// After any call the instance must still work
fn probe(m: &Memfs) -> Result<(), String> {
    // (a call that panicked while it held the lock leaves it poisoned: then even looking at the instance panics)
    let bad = match catch(|| integrity(&m.verif_dump())) {
        Ok(b) => b,
        Err(p) => return Err(format!("probe-panic:{}", p)),
    };
    if !bad.is_empty() {
        return Err(format!("integrity:{}", bad[0].0));
    }
    let r = catch(|| {
        let d = "/rvh-probe/x";
        m.mkdir_p(d).map_err(|e| format!("probe-mkdir_p:{}", e))?;
        m.write_all("/rvh-probe/x/f", b"probe").map_err(|e| format!("probe-write_all:{}", e))?;
        match m.read_all("/rvh-probe/x/f") {
            Ok(s) if s == "probe" => {},
            other => return Err(format!("probe-read_all:{:?}", other.map_err(|e| e.to_string()))),
        }
        m.remove_all("/rvh-probe").map_err(|e| format!("probe-remove_all:{}", e))?;
        if !m.exists("/") || m.exists("/rvh-probe") {
            return Err("probe-exists".to_string());
        }
        Ok(())
    });
    match r {
        Ok(x) => x,
        Err(p) => Err(format!("probe-panic:{}", p)),
    }
}

#[derive(Debug, Clone, Serialize, Deserialize)]
pub struct FsCase {
    pub populated: bool,
    pub ops: Vec<Op>,
}

pub fn check_fs(case: &FsCase) -> CaseResult {
    let m = Memfs::new();
    if case.populated {
        populate(&m);
    }
    mark("fs", "{\"populated\":true,\"ops\":[");
    for op in &case.ops {
        mark_append(&format!("{},", serde_json::to_string(op).unwrap()));
        let out = apply(&m, op);
        if let Out::Panic(msg) = &out {
            return Err(Failure::new(format!("{}|panic|{}", op.name(), panic_site(msg)), format!("{:?} panicked: {}", op, msg))
                .with_case("fs", json!({"populated": case.populated, "ops": [op]})));
        }
        if let Err(w) = probe(&m) {
            let cls = w.split(':').take(2).collect::<Vec<_>>().join(":");
            return Err(Failure::new(format!("{}|unusable-afterwards|{}", op.name(), cls), format!("after {:?} -> {:?}: {}", op, out, w)));
        }
    }
    Ok(())
}

/// Like `check_fs` with persistent write/append handles (slots) that may outlive the file they were opened on
pub fn check_fs_handles(ops: &[Op]) -> CaseResult {
    let m = Memfs::new();
    populate(&m);
    let mut h = Handles::default();
    mark("fs-handles", "[");
    for op in ops {
        mark_append(&format!("{},", serde_json::to_string(op).unwrap()));
        let out = apply_h(&m, op, &mut h);
        if let Out::Panic(msg) = &out {
            return Err(Failure::new(format!("{}|panic|{}", op.name(), panic_site(msg)), format!("{:?} panicked: {} (program {:?})", op, msg, ops)));
        }
        if let Err(w) = probe(&m) {
            let cls = w.split(':').take(2).collect::<Vec<_>>().join(":");
            return Err(Failure::new(format!("{}|unusable-afterwards|{}", op.name(), cls), format!("after {:?} -> {:?} in program {:?}: {}", op, out, ops, w)));
        }
    }
    // dropping the handles that are still open is a call too
    match catch(std::panic::AssertUnwindSafe(|| drop(h))) {
        Ok(()) => {},
        Err(msg) => return Err(Failure::new(format!("handle-drop|panic|{}", panic_site(&msg)), format!("dropping the open handles panicked: {} (program {:?})", msg, ops))),
    }
    if let Err(w) = probe(&m) {
        let cls = w.split(':').take(2).collect::<Vec<_>>().join(":");
        return Err(Failure::new(format!("handle-drop|unusable-afterwards|{}", cls), format!("after dropping the open handles of program {:?}: {}", ops, w)));
    }
    Ok(())
}

/// Pure helpers: only totality is asserted here (values belong to C14/C15/C17/C19)
pub fn check_helpers(s: &str, t: &str) -> CaseResult {
    macro_rules! total {
        ($name:expr, $e:expr) => {
            if let Err(m) = catch(|| {
                let _ = $e;
            }) {
                return Err(Failure::new(format!("{}|panic|{}", $name, panic_site(&m)), format!("{}({:?},{:?}) panicked: {}", $name, s, t, m)));
            }
        };
    }
    total!("base", sys::base(s));
    total!("clean", sys::clean(s));
    total!("concat", sys::concat(s, t));
    total!("dir", sys::dir(s));
    total!("expand", sys::expand(s));
    total!("ext", sys::ext(s));
    total!("first", sys::first(s));
    total!("name", sys::name(s));
    total!("has", (sys::has(s, t), sys::has_prefix(s, t), sys::has_suffix(s, t)));
    total!("is_empty", sys::is_empty(s));
    total!("last", sys::last(s));
    total!("mash", sys::mash(s, t));
    total!("parse_paths", sys::parse_paths(s));
    total!("relative", sys::relative(s, t));
    total!("trim_ext", sys::trim_ext(s));
    total!("trim_first", sys::trim_first(s));
    total!("trim_last", sys::trim_last(s));
    total!("trim_prefix", sys::trim_prefix(s, t));
    total!("trim_protocol", sys::trim_protocol(s));
    total!("trim_suffix", sys::trim_suffix(s, t));
    total!("StringExt", (StringExt::size(s), s.to_bool(), StringExt::trim_suffix(s, t), s.to_string().size(), s.to_string().to_bool()));
    total!("ToStringExt", {
        let p = Path::new(s);
        let _ = ToStringExt::to_string(p);
        let _ = p.as_os_str().to_string();
        for c in p.components() {
            let _ = c.to_string();
        }
    });
    total!("IteratorExt", {
        let n = t.chars().count() as isize;
        for (l, r) in [(0, 0), (-1, -1), (1, -2), (-n, n), (n, -n), (-n - 1, 0), (0, n + 5), (isize::MIN + 1, isize::MAX), (3, 1)] {
            let _ = s.chars().slice(l, r).count();
            let _ = Path::new(s).components().slice(l, r).count();
        }
        for d in [0, 1, -1, n, -n, n + 1, -n - 1, 1000, -1000] {
            let _ = IteratorExt::drop(s.chars(), d).count();
            let _ = IteratorExt::drop(Path::new(s).components(), d).count();
        }
        let _ = s.chars().first();
        let _ = s.chars().first_result();
        let _ = s.chars().last_result();
        let _ = s.chars().single();
        let _ = s.chars().some();
        let _ = s.chars().consume().next();
        let mut pk = s.chars().peekable();
        let _ = pk.take_while_p(|c| !t.contains(*c)).count();
        let _ = pk.next();
    });
    total!("OptionExt", (Some(s.to_string()).has(t.to_string()), None::<String>.has(s.to_string())));
    Ok(())
}

pub fn check_user() -> CaseResult {
    macro_rules! total {
        ($name:expr, $e:expr) => {
            if let Err(m) = catch(|| {
                let _ = $e;
            }) {
                return Err(Failure::new(format!("user::{}|panic|{}", $name, panic_site(&m)), format!("user::{} panicked: {}", $name, m)));
            }
        };
    }
    total!("home_dir", user::home_dir());
    total!("config_dir", user::config_dir());
    total!("cache_dir", user::cache_dir());
    total!("data_dir", user::data_dir());
    total!("state_dir", user::state_dir());
    total!("runtime_dir", user::runtime_dir());
    total!("sys_data_dirs", user::sys_data_dirs());
    total!("sys_config_dirs", user::sys_config_dirs());
    total!("path_dirs", user::path_dirs());
    total!("current", user::current());
    total!("from_uid", (user::from_uid(0), user::from_uid(u32::MAX), user::from_uid(54321)));
    total!("ids", (user::getuid(), user::getgid(), user::geteuid(), user::getegid(), user::is_root(), user::name()));
    total!("getrids", (user::getrids(0, 0), user::getrids(u32::MAX, 5)));
    Ok(())
}

#[derive(Debug, Clone, Serialize, Deserialize)]
pub struct HandleCase {
    pub data: Vec<u8>,
    /// (kind 0=read n,1=Start,2=Current,3=End ; value)
    pub script: Vec<(u8, i64)>,
}

pub fn check_handle(case: &HandleCase) -> CaseResult {
    let m = Memfs::new();
    let _ = m.write_all("/f", &case.data);
    let r = catch(|| {
        let mut h = m.read("/f").map_err(|e| e.to_string())?;
        for (k, v) in &case.script {
            match k % 4 {
                0 => {
                    let mut buf = vec![0u8; (*v).unsigned_abs() as usize % 70];
                    let _ = h.read(&mut buf);
                },
                1 => {
                    let _ = h.seek(SeekFrom::Start(*v as u64));
                },
                2 => {
                    let _ = h.seek(SeekFrom::Current(*v));
                },
                _ => {
                    let _ = h.seek(SeekFrom::End(*v));
                },
            }
        }
        let mut rest = vec![];
        let _ = h.read_to_end(&mut rest);
        Ok::<(), String>(())
    });
    match r {
        Err(msg) => {
            let kinds: Vec<&str> = case.script.iter().map(|(k, _)| ["read", "seek-start", "seek-current", "seek-end"][(*k % 4) as usize]).collect();
            let last_seek = kinds.iter().rev().find(|k| k.starts_with("seek")).copied().unwrap_or("none");
            Err(Failure::new(format!("read-handle|panic|{}|after={}", panic_site(&msg), last_seek), format!("handle script {:?} on {} bytes panicked: {}", case.script, case.data.len(), msg)))
        },
        Ok(_) => match probe(&m) {
            Ok(()) => Ok(()),
            Err(w) => Err(Failure::new("read-handle|unusable-afterwards", w)),
        },
    }
}

fn offsets() -> impl Strategy<Value = i64> {
    prop_oneof![
        4 => -4i64..12,
        2 => prop::sample::select(vec![i64::MAX, i64::MIN, i64::MIN + 1, -1, 0, 1 << 40, -(1 << 40), u32::MAX as i64]),
        1 => any::<i64>(),
    ]
}

pub fn run(c: &Ctx) {
    c.set_rule("(a) every single-path call form of the Memfs alphabet (52 forms: all trait methods, builder variants, handles) on every string over a 22-symbol adversarial alphabet (incl. 'İ' and the Kelvin sign, whose lower-case forms have another byte length, and an upper-case letter) ('/', '.', '~', '$', ':', '{', '}', space, a, 2/3/4-byte chars, newline, NUL, '-', '%', '*', backslash, quote) up to length 2 (quick) / 3 (thorough), from a fresh and from a populated instance (links, loop link, dangling link, non-UTF-8 bytes, cwd below root); two-path forms on all pairs of strings up to length 1 plus specials; seeded random arguments (<=64 symbols, 4 KiB names, 2000-deep '..' chains, any u32 mode / id). After EVERY call: no panic, call returned (CPU watchdog), C03 invariants on the dump, and a probe sequence on the same instance (mkdir_p, write_all, read_all, remove_all, exists) succeeds. (b) every public path helper, StringExt/ToStringExt/IteratorExt/PeekableExt/OptionExt function and user:: getter on the same strings (totality only). (c) read handles driven by seek/read scripts with extreme offsets. (d) every program of length 4 (quick) / 5 (thorough) over 15 forms {open write/append handle, write, flush, drop, remove / remove_all / move_p / replace-by-directory / replace-by-link of the handle's file, set_cwd} on the populated instance: handles that outlive their file must neither panic nor hang nor wedge the instance (probe after every step and after the final drops). (e) every call form at the top, middle and bottom of a 60-level directory chain (deeper than the traversal's descriptor cap) that ends in an empty directory and a file. (f) every call form, plus recursive chmod_b with widening / narrowing / symbolic modes with and without follow, on a bushy tree (directories with several non-empty sub-directories of mode 0o500, a link between them and two links into each other's directory). (g) 2 / 6 rounds in which one thread renders the instance (Display, Debug, clone + query) 1500 times while another keeps creating and removing entries: nobody waits for good. Non-trivial = argument with a multi-byte character or >=2 special symbols; distinct by (function, argument).");
    c.assume("non-UTF-8 OsStr paths are outside the stated domain");
    let max_len = c.tier.pick(2, 3);
    let mut strings = all_strings(ALPHA, max_len);
    // shapes longer than the exhaustive bound that the expansion / protocol scanners slice by computed offsets
    strings.extend(["${é}", "$é$", "a$日}", "${😀}x", "$é", "${é", "x}$V", "${V}}", "~é", "é~/x", "file://é", "İ://x", "/é/${é}/..", "a/${日本}/b", "$日本/x", "${}", "$$", "${${V}}", "~/${é}", "/tmp/é日/x", "日本語", "/über/änderung"].iter().map(|s| s.to_string()));
    // (a) single-path forms
    par_for(strings.len() as u64, 8, |i| {
        let s = &strings[i as usize];
        for populated in [false, true] {
            let ops = single_path_ops(s, true);
            c.eval(ops.len() as u64);
            let specials = s.chars().filter(|ch| !ch.is_alphanumeric()).count();
            if !s.is_ascii() || specials >= 2 {
                for op in &ops {
                    c.nontrivial(fp(&(op.name(), s, populated)));
                }
            }
            let case = FsCase { populated, ops };
            if i % 701 == 0 {
                c.sample(|| json!({"kind":"fs","populated":populated,"argument":s,"forms":case.ops.len()}));
            }
            c.judge("fs", &case, check_fs(&case));
        }
    });
    // two-path forms
    let mut pair_strings = all_strings(ALPHA, 1);
    for x in ["/a", "/a/b", "/a/f", "/ld", "/lf", "/dang", "..", "../..", "/a/b/loop", "/a/b/loop/b", "~", "$HOME", "${HOME}/x", "a//b", "file:///a"] {
        pair_strings.push(x.to_string());
    }
    let n = pair_strings.len() as u64;
    par_for(n * n, 8, |i| {
        let (a, b) = (&pair_strings[(i / n) as usize], &pair_strings[(i % n) as usize]);
        for populated in [false, true] {
            let ops = two_path_ops(a, b, true);
            c.eval(ops.len() as u64);
            if !a.is_ascii() || !b.is_ascii() || a.len() > 1 {
                c.nontrivial(fp(&("pair", a, b, populated)));
            }
            let case = FsCase { populated, ops };
            c.judge("fs", &case, check_fs(&case));
        }
    });
    // (b) helpers
    let hs = all_strings(ALPHA, c.tier.pick(2, 3));
    par_for(hs.len() as u64, 16, |i| {
        let s = &hs[i as usize];
        mark("helpers", s);
        for t in ["", "/", "a", "é", ".", "~", "$", "日", s.as_str()] {
            c.eval(1);
            c.judge("helpers", &json!([s, t]), check_helpers(s, t));
        }
        if !s.is_ascii() {
            c.nontrivial(fp(&("helpers", s)));
        }
    });
    c.eval(1);
    c.judge("user", &json!(null), check_user());
    c.set_exhaustive(true);
    // random
    let cases = c.tier.pick(20_000, 400_000);
    run_proptest(
        "fs",
        1201,
        || {
            (
                prop_oneof![
                    6 => string_over(ADVERSARIAL, 64),
                    1 => (1usize..2000).prop_map(|n| "../".repeat(n)),
                    1 => (1usize..4096).prop_map(|n| format!("/{}", "n".repeat(n))),
                    1 => (1usize..300).prop_map(|n| format!("/a/{}", "é/".repeat(n))),
                    1 => (string_over(ADVERSARIAL, 10), 1usize..400).prop_map(|(s, n)| format!("{}{}", "a/../".repeat(n), s)),
                ],
                string_over(ADVERSARIAL, 24),
                any::<u32>(),
                any::<u32>(),
                any::<bool>(),
                any::<u16>(),
            )
        },
        cases,
        |(a, b, mode, id, populated, pick): &(String, String, u32, u32, bool, u16)| {
            let mut ops = single_path_ops(a, true);
            ops.extend(two_path_ops(a, b, true));
            ops.push(Op::MkfileM(a.clone(), *mode));
            ops.push(Op::MkdirM(a.clone(), *mode));
            ops.push(Op::Chmod(a.clone(), *mode));
            ops.push(Op::Chown(a.clone(), *id, *mode));
            ops.push(Op::ChmodB(a.clone(), ChmodOpt { sel: ChmodSel::Sym(b.clone()), recursive: true, follow: true }));
            ops.push(Op::CopyB(a.clone(), b.clone(), CopyOpt { mode: CopyMode::All(*mode), follow: true }));
            // a rotating window of 12 forms keeps cases small
            let start = (*pick as usize) % ops.len();
            let ops: Vec<Op> = ops.iter().cycle().skip(start).take(12).cloned().collect();
            c.eval(ops.len() as u64);
            c.nontrivial(fp(&(a, b, mode, pick)));
            c.sample(|| json!({"kind":"fs","populated":populated,"ops":ops.iter().take(3).collect::<Vec<_>>()}));
            check_fs(&FsCase { populated: *populated, ops })
        },
    );
    // (d) write/append handles outliving their file: every program over the alphabet below
    {
        let st = |x: &str| x.to_string();
        let alpha: Vec<Op> = vec![
            Op::HOpen(0, false, st("/a/f")),
            Op::HOpen(0, true, st("/a/f")),
            Op::HOpen(1, true, st("new")),
            Op::HWrite(0, b"x".to_vec()),
            Op::HWrite(1, b"y".to_vec()),
            Op::HFlush(0),
            Op::HFlush(1),
            Op::HDrop(0),
            Op::Remove(st("/a/f")),
            Op::RemoveAll(st("/a")),
            Op::MoveP(st("/a/f"), st("/g")),
            Op::MkdirP(st("/a/f")),
            Op::Symlink(st("/a/f"), st("/a/b")),
            Op::Remove(st("/a/new")),
            Op::SetCwd(st("/")),
        ];
        let len = c.tier.pick(4u32, 5);
        let k = alpha.len() as u64;
        par_for(k.pow(len), 256, |i| {
            let mut prog = vec![];
            let mut x = i;
            for _ in 0..len {
                prog.push(alpha[(x % k) as usize].clone());
                x /= k;
            }
            c.eval(1);
            // non-trivial: a handle is used (write / flush / implicit drop) after a call removed or replaced its file
            let mut open = [false; 2];
            let mut stale = false;
            for o in &prog {
                match o {
                    Op::HOpen(s, ..) => open[*s as usize] = true,
                    Op::HDrop(s) => open[*s as usize] = false,
                    Op::Remove(_) | Op::RemoveAll(_) | Op::MoveP(..) if open[0] || open[1] => stale = true,
                    _ => {},
                }
            }
            if stale {
                c.nontrivial(fp(&("fs-handles", i)));
                c.class("handles:outlive-their-file");
            }
            if i % 4099 == 0 {
                c.sample(|| json!({"kind":"fs-handles","ops":prog}));
            }
            c.judge("fs-handles", &prog, check_fs_handles(&prog));
        });
    }
    // (e) a directory chain deeper than the traversal's descriptor cap (50) with an empty directory and a file at
    // the bottom: every call form at the top, the middle and the bottom of the chain
    {
        let mut chain = String::new();
        for i in 0..60 {
            chain.push_str(&format!("/n{}", i % 3));
        }
        let mid: String = chain.split('/').take(31).collect::<Vec<_>>().join("/");
        let setup = vec![Op::MkdirP(format!("{}/empty", chain)), Op::WriteAll(format!("{}/leaf", chain), b"x".to_vec())];
        let mut progs: Vec<Vec<Op>> = vec![];
        for p in ["/n0", mid.as_str(), chain.as_str(), "/"] {
            for op in single_path_ops(p, true) {
                let mut v = setup.clone();
                v.push(op);
                progs.push(v);
            }
            for op in two_path_ops(p, "/elsewhere", true).into_iter().chain(two_path_ops("/n0", &format!("{}/into", p), false)) {
                let mut v = setup.clone();
                v.push(op);
                progs.push(v);
            }
        }
        par_for(progs.len() as u64, 4, |i| {
            let ops = &progs[i as usize];
            c.eval(1);
            c.nontrivial(fp(&("deep-chain", i)));
            c.class("deep-chain:beyond-descriptor-cap");
            c.judge("fs", &json!({"populated": false, "ops": ops}), check_fs(&FsCase { populated: false, ops: ops.clone() }));
        });
    }
    // (f) a bushy tree: directories with several non-empty sub-directories whose modes every chmod form has to
    // widen and narrow (a traversal that takes the lock per directory meets it again at the second sibling)
    {
        let setup = vec![
            Op::MkdirM("/w/s1/t".into(), 0o500),
            Op::MkdirM("/w/s2".into(), 0o500),
            Op::MkdirM("/w/s3/u/v".into(), 0o500),
            Op::WriteAll("/w/s1/f".into(), b"1".to_vec()),
            Op::WriteAll("/w/s1/t/f".into(), b"2".to_vec()),
            Op::WriteAll("/w/s2/f".into(), b"3".to_vec()),
            Op::WriteAll("/w/s3/u/f".into(), b"4".to_vec()),
            Op::Symlink("/w/s2/l".into(), "/w/s1".into()),
            // two links into each other's directory: a cycle for every following traversal that no link closes
            // by pointing at its own ancestor
            Op::Symlink("/w/s1/to3".into(), "/w/s3".into()),
            Op::Symlink("/w/s3/to1".into(), "/w/s1".into()),
        ];
        let mut progs: Vec<Vec<Op>> = vec![];
        for p in ["/w", "/w/s1", "/w/s3", "/"] {
            for op in single_path_ops(p, true) {
                let mut v = setup.clone();
                v.push(op);
                progs.push(v);
            }
            for sel in [ChmodSel::All(0o777), ChmodSel::All(0o000), ChmodSel::Dirs(0o755), ChmodSel::Sym("a:a+rwx".into()), ChmodSel::Sym("d:go+w,f:a-r".into())] {
                for follow in [false, true] {
                    let mut v = setup.clone();
                    v.push(Op::ChmodB(p.into(), ChmodOpt { sel: sel.clone(), recursive: true, follow }));
                    progs.push(v);
                }
            }
            for op in two_path_ops(p, "/w2", true).into_iter().chain(two_path_ops("/w/s2", &format!("{}/into", p), false)) {
                let mut v = setup.clone();
                v.push(op);
                progs.push(v);
            }
        }
        par_for(progs.len() as u64, 4, |i| {
            let ops = &progs[i as usize];
            c.eval(1);
            c.nontrivial(fp(&("bushy", i)));
            c.class("bushy-tree:several-non-empty-subdirectories");
            c.judge("fs", &json!({"populated": false, "ops": ops}), check_fs(&FsCase { populated: false, ops: ops.clone() }));
        });
    }
    // (h) more directories than a 16-bit counter holds (66 000 in one parent, and spread three levels deep): the
    // traversing calls, sorted and unsorted, return them all
    {
        let n = 66_000usize;
        for shape in ["flat", "three-levels"] {
            let m = Memfs::new();
            let built = catch(|| {
                for i in 0..n {
                    if i % 4096 == 0 {
                        mark("big", &format!("{} build {}", shape, i));
                    }
                    let p = if shape == "flat" { format!("/big/d{}", i) } else { format!("/big/{}/{}/{}", i % 41, (i / 41) % 41, i / 1681) };
                    let _ = m.mkdir_p(&p);
                }
            });
            let want_min = n; // at least the leaves (the spread shape has inner directories on top)
            let mut forms: Vec<(&str, Box<dyn Fn() -> Result<usize, String> + '_>)> = vec![
                ("all_dirs", Box::new(|| m.all_dirs("/big").map(|v| v.len()).map_err(|e| e.to_string()))),
                ("all_paths", Box::new(|| m.all_paths("/big").map(|v| v.len()).map_err(|e| e.to_string()))),
                ("entries.sort_by_name", Box::new(|| m.entries("/big").map(|e| e.sort_by_name().into_iter().filter(|x| x.is_ok()).count().saturating_sub(1)).map_err(|e| e.to_string()))),
                ("entries.dirs_first", Box::new(|| m.entries("/big").map(|e| e.dirs_first().into_iter().filter(|x| x.is_ok()).count().saturating_sub(1)).map_err(|e| e.to_string()))),
                ("entries", Box::new(|| m.entries("/big").map(|e| e.into_iter().filter(|x| x.is_ok()).count().saturating_sub(1)).map_err(|e| e.to_string()))),
                ("chmod_b.recurse", Box::new(|| m.chmod_b("/big").and_then(|b| b.all(0o750).recurse().exec()).map(|_| usize::MAX).map_err(|e| e.to_string()))),
                ("all_files", Box::new(|| m.all_files("/big").map(|v| v.len() + usize::MAX / 2).map_err(|e| e.to_string()))),
            ];
            for (name, f) in forms.drain(..) {
                c.eval(1);
                c.nontrivial(fp(&("big", shape, name)));
                c.class("more-than-65535-directories");
                mark("big", &format!("{} {}", shape, name));
                let res = match (&built, catch(|| f())) {
                    (Err(p), _) => Err(Failure::new("panic|mkdir_p|many-directories", p.clone())),
                    (_, Err(p)) => Err(Failure::new(format!("panic|{}|many-directories", name), format!("{} directories ({}): {}", n, shape, p))),
                    (_, Ok(Err(e))) => Err(Failure::new(format!("err|{}|many-directories", name), format!("{} directories ({}): {}", n, shape, e))),
                    (_, Ok(Ok(k))) if k < want_min => Err(Failure::new(format!("incomplete|{}|many-directories", name), format!("{} directories ({}): {} returned", n, shape, k))),
                    _ => Ok(()),
                };
                c.judge("big", &json!([shape, name]), res);
            }
        }
    }
    // (g) rendering the instance (Display / Debug / clone) while another thread keeps changing it: neither side may
    // end up waiting for the other for good (a rendering that re-enters the lock per entry does, as soon as a writer
    // queues in between). The calling thread is registered with the watchdog; a dead-locked round is reported.
    {
        worker_enter();
        for round in 0..c.tier.pick(2u32, 6) {
            mark("fs", &json!({"populated": true, "ops": [format!("render-while-writing round {}", round)]}).to_string());
            let m = Memfs::new();
            populate(&m);
            let stop = std::sync::atomic::AtomicBool::new(false);
            std::thread::scope(|sc| {
                let (m1, m2, stop) = (&m, &m, &stop);
                sc.spawn(move || {
                    let mut i = 0usize;
                    while !stop.load(std::sync::atomic::Ordering::Relaxed) {
                        let _ = m1.mkdir_p(format!("/busy/d{}", i % 7));
                        let _ = m1.write_all(format!("/busy/d{}/f", i % 7), b"x");
                        let _ = m1.symlink(format!("/busy/l{}", i % 5), "/a");
                        let _ = m1.remove_all("/busy");
                        i += 1;
                    }
                });
                let r = sc.spawn(move || {
                    let mut total = 0usize;
                    for _ in 0..1500 {
                        total += format!("{}", m2).len();
                        total += format!("{:?}", m2).len();
                        total += m2.clone().exists("/a") as usize;
                    }
                    total
                });
                let _ = r.join();
                stop.store(true, std::sync::atomic::Ordering::Relaxed);
            });
            c.eval(1);
            c.nontrivial(fp(&("render-while-writing", round)));
            c.class("render-while-writing");
            let res = match probe(&m) {
                Ok(()) => Ok(()),
                Err(w) => Err(Failure::new(format!("render|unusable-afterwards|{}", w.split(':').take(2).collect::<Vec<_>>().join(":")), w)),
            };
            c.judge("fs", &json!({"populated": true, "ops": []}), res);
        }
        worker_exit();
    }
    run_proptest("helpers", 1202, || (string_over(ADVERSARIAL, 40), string_over(ADVERSARIAL, 12)), cases, |(s, t): &(String, String)| {
        mark("helpers", s);
        c.eval(1);
        c.nontrivial(fp(&("helpers", s, t)));
        check_helpers(s, t)
    });
    run_proptest(
        "handle",
        1203,
        || (prop::collection::vec(any::<u8>(), 0..40), prop::collection::vec((0u8..4, offsets()), 0..10)).prop_map(|(data, script)| HandleCase { data, script }),
        cases,
        |case: &HandleCase| {
            mark("handle", &serde_json::to_string(case).unwrap());
            c.eval(1);
            if case.script.iter().any(|(k, v)| *k % 4 != 0 && (*v < 0 || *v > case.data.len() as i64)) {
                c.nontrivial(fp(&format!("{:?}", case)));
                c.class("handle:out-of-range-seek");
            }
            check_handle(case)
        },
    );
}

pub fn replay(kind: &str, case: &Value) -> Option<CaseResult> {
    match kind {
        "fs" => Some(check_fs(&serde_json::from_value(case.clone()).ok()?)),
        "fs-handles" => {
            let ops: Vec<Op> = serde_json::from_value(case.clone()).ok()?;
            Some(check_fs_handles(&ops))
        },
        "helpers" => {
            let a = case.as_array()?;
            Some(check_helpers(a[0].as_str()?, a[1].as_str()?))
        },
        "handle" => Some(check_handle(&serde_json::from_value(case.clone()).ok()?)),
        "user" => Some(check_user()),
        _ => None,
    }
}
