//! C14 — clean() == Go path.Clean
use rivia::prelude::*;
use serde_json::{json, Value};

use crate::{engine::*, refpath::ref_clean, strgen::*};

const ALPHA: &[&str] = &["/", ".", "a", "b"];

pub fn check_clean(s: &str) -> CaseResult {
    let got = match catch(|| sys::clean(s)) {
        Ok(g) => g,
        Err(p) => return Err(Failure::new(format!("clean|panic|{}", panic_site(&p)), format!("clean({:?}) panicked: {}", s, p))),
    };
    let got_s = match got.to_str() {
        Some(x) => x.to_string(),
        None => return Err(Failure::new("clean|non-utf8-output", format!("clean({:?})", s))),
    };
    let want = ref_clean(s);
    if got_s != want {
        return Err(Failure::new("clean|value-mismatch", format!("clean({:?}) = {:?}, Go path.Clean gives {:?}", s, got_s, want)));
    }
    if got_s.is_empty() {
        return Err(Failure::new("clean|empty-result", format!("clean({:?}) is empty", s)));
    }
    if got_s.starts_with('/') != s.starts_with('/') {
        return Err(Failure::new("clean|absoluteness-changed", format!("clean({:?}) = {:?}", s, got_s)));
    }
    let again = match catch(|| sys::clean(&got)) {
        Ok(g) => g,
        Err(p) => return Err(Failure::new(format!("clean|panic|{}", panic_site(&p)), format!("clean({:?}) panicked: {}", got_s, p))),
    };
    if again != got || again.to_str() != Some(&got_s) {
        return Err(Failure::new("clean|not-idempotent", format!("clean({:?}) = {:?} but cleaning that gives {:?}", s, got_s, again)));
    }
    // PathExt method must be the same function
    if std::path::Path::new(s).clean() != got {
        return Err(Failure::new("clean|pathext-differs", format!("Path::new({:?}).clean() != sys::clean", s)));
    }
    Ok(())
}

fn nontrivial(s: &str) -> bool {
    let mut dd = false;
    let mut normal = false;
    for c in s.split('/') {
        match c {
            "" | "." => {},
            ".." => dd = true,
            _ => normal = true,
        }
    }
    dd && normal
}

pub fn run(c: &Ctx) {
    c.set_rule("exhaustive: every string over {'/','.','a','b'} up to length 9 (quick) / 11 (thorough), then seeded random strings <=48 symbols over an adversarial alphabet (multi-byte, '~', '$', ':', NUL, newline). Oracle: independent port of Go path.Clean + idempotence + absoluteness + non-empty. Non-trivial = input containing at least one '..' component and one normal component; distinct by input string.");
    c.assume("ref_clean is a faithful port of Go's path.Clean (checked against Go's own cleantests table in harness unit tests)");
    let max_len = c.tier.pick(9, 11);
    let n = count_upto(4, max_len);
    par_for(n, 4096, |i| {
        let mut s = String::new();
        nth_string(ALPHA, i, &mut s);
        mark("clean", &s);
        c.eval(1);
        let r = check_clean(&s);
        if nontrivial(&s) {
            c.nontrivial(fp(&s));
        }
        if i % 100_003 == 7 {
            c.sample(|| json!({"kind":"clean","input":s, "output": ref_clean(&s)}));
        }
        c.judge("clean", &s, r);
    });
    c.note("exhaustive_space", format!("all {} strings over {{/ . a b}} up to length {}", n, max_len));
    c.set_exhaustive(true);
    let cases = c.tier.pick(200_000, 3_000_000);
    run_proptest("clean", 14, || string_over(ADVERSARIAL, 48), cases, |s: &String| {
        mark("clean", s);
        c.eval(1);
        if nontrivial(s) {
            c.nontrivial(fp(s));
            c.class("random:has-dotdot-and-normal");
        }
        if has_multibyte(s) {
            c.class("random:multibyte");
        }
        c.sample(|| json!({"kind":"clean","input":s}));
        check_clean(s)
    });
}

pub fn replay(kind: &str, case: &Value) -> Option<CaseResult> {
    match kind {
        "clean" => Some(check_clean(case.as_str()?)),
        _ => None,
    }
}
