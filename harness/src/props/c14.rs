//! C14 — clean() == Go path.Clean
use rivia::prelude::*;
use serde_json::{json, Value};

use crate::{engine::*, refpath::ref_clean, strgen::*};

const ALPHA: &[&str] = &["/", ".", "a", "b"];

pub fn check_clean(s: &str) -> CaseResult {
    let got = match catch(|| sys::clean(s)) {
        Ok(g) => g,
        Err(p) => return Err(Failure::new(format!("clean|panic|{}", panic_site(&p)), format!("clean({:?}) panicked: {}", s, p))),
    };
    let got_s = match got.to_str() {
        Some(x) => x.to_string(),
        None => return Err(Failure::new("clean|non-utf8-output", format!("clean({:?})", s))),
    };
    let want = ref_clean(s);
    if got_s != want {
        return Err(Failure::new("clean|value-mismatch", format!("clean({:?}) = {:?}, Go path.Clean gives {:?}", s, got_s, want)));
    }
    if got_s.is_empty() {
        return Err(Failure::new("clean|empty-result", format!("clean({:?}) is empty", s)));
    }
    if got_s.starts_with('/') != s.starts_with('/') {
        return Err(Failure::new("clean|absoluteness-changed", format!("clean({:?}) = {:?}", s, got_s)));
    }
    let again = match catch(|| sys::clean(&got)) {
        Ok(g) => g,
        Err(p) => return Err(Failure::new(format!("clean|panic|{}", panic_site(&p)), format!("clean({:?}) panicked: {}", got_s, p))),
    };
    if again != got || again.to_str() != Some(&got_s) {
        return Err(Failure::new("clean|not-idempotent", format!("clean({:?}) = {:?} but cleaning that gives {:?}", s, got_s, again)));
    }
    // PathExt method must be the same function
    // (compared as text: PathBuf equality is component-wise and would hide "//" vs "/")
    let via_method = std::path::Path::new(s).clean();
    if via_method.to_str() != Some(got_s.as_str()) || std::path::PathBuf::from(s).clean().to_str() != Some(got_s.as_str()) {
        return Err(Failure::new("clean|pathext-differs", format!("Path::new({:?}).clean() = {:?} but sys::clean gives {:?}", s, via_method, got_s)));
    }
    Ok(())
}

/// Paths that are not valid UTF-8 (unix paths are byte strings; Go's path.Clean works on bytes too): the
/// reference is applied through a byte <-> U+00XX mapping, which leaves '/' and '.' alone
pub fn check_clean_bytes(b: &[u8]) -> CaseResult {
    use std::os::unix::ffi::{OsStrExt, OsStringExt};
    let input = std::ffi::OsStr::from_bytes(b);
    let shown = || String::from_utf8_lossy(b).to_string();
    let got = match catch(|| sys::clean(input)) {
        Ok(g) => g,
        Err(p) => return Err(Failure::new(format!("clean|panic|{}|bytes", panic_site(&p)), format!("clean({:?} as bytes {:?}) panicked: {}", shown(), b, p))),
    };
    let latin: String = b.iter().map(|x| *x as char).collect();
    let want: Vec<u8> = ref_clean(&latin).chars().map(|ch| ch as u32 as u8).collect();
    let got_b = got.clone().into_os_string().into_vec();
    if got_b != want {
        return Err(Failure::new("clean|value-mismatch|non-utf8-bytes", format!("clean(bytes {:?}) = bytes {:?}, Go path.Clean gives {:?}", b, got_b, want)));
    }
    let again = match catch(|| sys::clean(&got)) {
        Ok(g) => g,
        Err(p) => return Err(Failure::new(format!("clean|panic|{}|bytes", panic_site(&p)), format!("clean(bytes {:?}) panicked: {}", got_b, p))),
    };
    if again.into_os_string().into_vec() != got_b {
        return Err(Failure::new("clean|not-idempotent|non-utf8-bytes", format!("clean(bytes {:?}) = {:?} is not a fixed point", b, got_b)));
    }
    Ok(())
}

fn nontrivial(s: &str) -> bool {
    let mut dd = false;
    let mut normal = false;
    for c in s.split('/') {
        match c {
            "" | "." => {},
            ".." => dd = true,
            _ => normal = true,
        }
    }
    dd && normal
}

pub fn run(c: &Ctx) {
    c.set_rule("exhaustive: every string over {'/','.','a','b'} up to length 10 (quick) / 11 (thorough), every sequence of up to 7/8 components from {.., ., a, ab.., ''} (relative, rooted, with a trailing separator), every byte string over {'/','.','a',0xE9,0xFF} up to length 6 / 7 that is not valid UTF-8 (reference applied byte-wise), fixed deep inputs (200-1000 components of names and '..' in eleven arrangements) and scheme-, home- and variable-looking prefixes, then seeded random strings <=48 symbols over an adversarial alphabet (multi-byte, '~', '$', ':', NUL, newline). Oracle: independent port of Go path.Clean + idempotence + absoluteness + non-empty. Non-trivial = input containing at least one '..' component and one normal component; distinct by input string.");
    c.assume("ref_clean is a faithful port of Go's path.Clean (checked against Go's own cleantests table in harness unit tests)");
    let max_len = c.tier.pick(10, 11);
    let n = count_upto(4, max_len);
    par_for(n, 4096, |i| {
        let mut s = String::new();
        nth_string(ALPHA, i, &mut s);
        mark("clean", &s);
        c.eval(1);
        let r = check_clean(&s);
        if nontrivial(&s) {
            c.nontrivial(fp(&s));
        }
        if i % 100_003 == 7 {
            c.sample(|| json!({"kind":"clean","input":s, "output": ref_clean(&s)}));
        }
        c.judge("clean", &s, r);
    });
    c.note("exhaustive_space", format!("all {} strings over {{/ . a b}} up to length {}", n, max_len));
    c.set_exhaustive(true);
    // component-level enumeration reaches shapes far beyond the character-level bound: every sequence of up to
    // 7 (quick) / 8 (thorough) components from {.., ., a, ab.., ''}, relative and rooted, with and without a trailing
    // separator
    let comps = ["..", ".", "a", "ab..", ""];
    let maxc = c.tier.pick(7u32, 8);
    let mut total_c = 0u64;
    for l in 1..=maxc {
        total_c += 5u64.pow(l);
    }
    par_for(total_c, 4096, |i| {
        let mut rest = i;
        let mut l = 1u32;
        while rest >= 5u64.pow(l) {
            rest -= 5u64.pow(l);
            l += 1;
        }
        let mut parts = Vec::with_capacity(l as usize);
        for _ in 0..l {
            parts.push(comps[(rest % 5) as usize]);
            rest /= 5;
        }
        let joined = parts.join("/");
        for s in [joined.clone(), format!("/{}", joined), format!("{}/", joined)] {
            c.eval(1);
            if nontrivial(&s) {
                c.nontrivial(fp(&s));
            }
            c.class("exhaustive:component-sequences");
            c.judge("clean", &s, check_clean(&s));
        }
    });
    // deep and long inputs (counters and buffers sized for "usual" paths), and inputs that look like something else
    // (clean knows nothing about schemes, home symbols or variables)
    {
        let mut deep: Vec<String> = vec![];
        for n in [200usize, 255, 256, 257, 300, 513, 1000, 4000] {
            let names = vec!["a"; n].join("/");
            let ups = vec![".."; n].join("/");
            deep.push(names.clone());
            deep.push(format!("/{}", names));
            deep.push(format!("{}/..", names));
            deep.push(format!("/{}/../..", names));
            deep.push(format!("{}/{}", names, ups));
            deep.push(format!("{}/{}/..", names, ups));
            deep.push(format!("/{}/{}/../x", names, ups));
            deep.push(ups.clone());
            deep.push(format!("{}/a/..", ups));
            deep.push(format!("{}/{}", ups, names));
            if n <= 1000 {
                deep.push(vec!["a/./b/.."; n].join("//"));
            }
        }
        for pre in ["http://", "https://", "file://", "ftp://", "HTTP://", "File://", "ntp://", "~/", "$HOME/", "${X}/"] {
            for rest in ["foo", "..", "a/..", "a/../..", "./a//b/", "", "/"] {
                deep.push(format!("{}{}", pre, rest));
                deep.push(format!("/{}{}", pre, rest));
                deep.push(format!("a/{}{}", pre, rest));
            }
        }
        par_for(deep.len() as u64, 4, |i| {
            let s = &deep[i as usize];
            c.eval(1);
            c.nontrivial(fp(s));
            c.class("deep-or-scheme-like");
            mark("clean", &s.chars().take(200).collect::<String>());
            c.judge("clean", s, check_clean(s));
        });
    }
    // more components than a 16-bit counter holds; the expected result is known by construction (the general oracle
    // is quadratic in the number of components)
    {
        let n = 66_000usize;
        let names = vec!["a"; n].join("/");
        let ups = vec![".."; n].join("/");
        let shorter = vec!["a"; n - 1].join("/");
        let cases: Vec<(String, String)> = vec![
            (names.clone(), names.clone()),
            (format!("/{}", names), format!("/{}", names)),
            (format!("{}/..", names), shorter.clone()),
            (format!("/{}/../", names), format!("/{}", shorter)),
            (format!("{}/../../..", names), vec!["a"; n - 3].join("/")),
            (format!("{}/..", vec!["a"; 65_536].join("/")), vec!["a"; 65_535].join("/")),
            (format!("/{}/../x", vec!["a"; 65_536].join("/")), format!("/{}/x", vec!["a"; 65_535].join("/"))),
            (ups.clone(), ups.clone()),
            (format!("{}/a/..", ups), ups.clone()),
            (format!("./{}//", names), names.clone()),
        ];
        par_for(cases.len() as u64, 1, |i| {
            let (input, want) = &cases[i as usize];
            c.eval(1);
            c.nontrivial(fp(&("huge", i)));
            c.class("more-than-65535-components");
            mark("clean", &format!("huge case {}", i));
            let got = crate::engine::catch(|| rivia::sys::clean(input));
            let res = match got {
                Err(_) => Err(Failure::new("clean|panic|huge", format!("clean of {} bytes (case {}) panicked", input.len(), i))),
                Ok(g) if g.as_os_str().as_encoded_bytes() != want.as_bytes() => {
                    let gs = g.to_string_lossy();
                    Err(Failure::new("clean|wrong|huge", format!("clean of {} bytes (case {}): got {} bytes ending {:?}, want {} bytes ending {:?}", input.len(), i, gs.len(), &gs[gs.len().saturating_sub(12)..], want.len(), &want[want.len().saturating_sub(12)..])))
                }
                Ok(_) => Ok(()),
            };
            c.judge("clean", &format!("huge case {}", i), res);
        });
    }
    // byte strings that are not valid UTF-8: every sequence over {'/', '.', 'a', 0xE9, 0xFF} up to length 6 / 7
    let balpha: [u8; 5] = [b'/', b'.', b'a', 0xE9, 0xFF];
    let blen = c.tier.pick(6u32, 7);
    let mut total = 0u64;
    for l in 1..=blen {
        total += 5u64.pow(l);
    }
    par_for(total, 2048, |i| {
        // decode index -> (length, digits)
        let mut rest = i;
        let mut l = 1u32;
        while rest >= 5u64.pow(l) {
            rest -= 5u64.pow(l);
            l += 1;
        }
        let mut b = Vec::with_capacity(l as usize);
        for _ in 0..l {
            b.push(balpha[(rest % 5) as usize]);
            rest /= 5;
        }
        if std::str::from_utf8(&b).is_ok() {
            return; // covered by the string enumeration
        }
        c.eval(1);
        c.class("exhaustive:non-utf8-bytes");
        if b.windows(2).any(|w| w == b"..") && b.iter().any(|x| *x >= 0x80) {
            c.nontrivial(fp(&b));
        }
        c.judge("clean-bytes", &b, check_clean_bytes(&b));
    });
    let cases = c.tier.pick(200_000, 3_000_000);
    run_proptest("clean", 14, || string_over(ADVERSARIAL, 48), cases, |s: &String| {
        mark("clean", s);
        c.eval(1);
        if nontrivial(s) {
            c.nontrivial(fp(s));
            c.class("random:has-dotdot-and-normal");
        }
        if has_multibyte(s) {
            c.class("random:multibyte");
        }
        c.sample(|| json!({"kind":"clean","input":s}));
        check_clean(s)
    });
}

pub fn replay(kind: &str, case: &Value) -> Option<CaseResult> {
    match kind {
        "clean" => Some(check_clean(case.as_str()?)),
        "clean-bytes" => {
            let b: Vec<u8> = serde_json::from_value(case.clone()).ok()?;
            Some(check_clean_bytes(&b))
        },
        _ => None,
    }
}
