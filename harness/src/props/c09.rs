//! C09 — copy duplicates and move_p relocates a subtree without loss or collateral change
use rivia::prelude::*;
use serde::{Deserialize, Serialize};
use serde_json::{json, Value};

use crate::{engine::*, fsapply::*, fstypes::*, refpath::*};

/// Description of one child slot
#[derive(Debug, Clone, Copy, Serialize, Deserialize, PartialEq)]
pub enum Slot {
    Missing,
    File,
    Dir,
    /// link to target index (see TARGETS)
    Link(u8),
}

const TARGETS: &[&str] = &["/a", "/b", "/a/a", "/nope", "/b/b"];

#[derive(Debug, Clone, Serialize, Deserialize)]
pub struct TreeSpec {
    /// top-level /a and /b: slot + (if Dir) two children
    pub top: [(Slot, [Slot; 2]); 2],
    /// selects which entries get non-default modes/owners
    pub flavour: u8,
}

#[derive(Debug, Clone, Serialize, Deserialize)]
pub struct CopyCase {
    pub tree: TreeSpec,
    pub src: String,
    pub dst: String,
    /// 0 copy, 1 chmod_all, 2 chmod_dirs, 3 chmod_files, 4 follow, 5 move_p
    pub variant: u8,
    /// run on a tmpfs sandbox through Stdfs (the tree is materialised with std::fs from the Memfs-built one)
    #[serde(default)]
    pub stdfs: bool,
}

/// Disk observations carry derived facts the in-memory dump does not have in that form: whether a link's target
/// currently is a directory, and the target as the kernel resolves it (which can leave the sandbox). Both are
/// replaced by their lexical counterparts so that the predicates compare stored facts only: the link text.
fn lexical_links(t: &mut Tree) {
    let keys: Vec<String> = t.nodes.keys().cloned().collect();
    for k in keys {
        if let Some(Node::Link { target, rel, to_dir, .. }) = t.nodes.get_mut(&k) {
            *to_dir = false;
            if !rel.is_empty() && !rel.starts_with('/') {
                *target = ref_clean(&format!("{}/{}", parent(&k), rel));
            }
        }
    }
}

static SEQ: std::sync::atomic::AtomicU64 = std::sync::atomic::AtomicU64::new(0);

/// Domain of the Stdfs runs: no argument passes through a link, the root itself is not the source
pub fn stdfs_domain(pre: &Tree, s: &str, d: &str) -> bool {
    let resolves = |start: &str| -> bool {
        let mut t = start.to_string();
        for _ in 0..8 {
            match pre.nodes.get(&t) {
                Some(Node::Link { target, .. }) => t = target.clone(),
                Some(_) => return t != "/",
                None => return false,
            }
        }
        false
    };
    let through_link = |p: &str| -> bool {
        let mut cur = parent(p);
        while cur != "/" && !cur.is_empty() {
            if pre.kind(&cur) == Some(Kind::Link) {
                return true;
            }
            cur = parent(&cur);
        }
        false
    };
    // (dangling links are fine here: the predicates compare the disk with itself, not with Memfs)
    let _ = &resolves;
    s != "/" && !through_link(s) && !through_link(d)
}

// (group-write bit set: a directory created with mkdir(mode) instead of mkdir+chmod loses it to the umask)
const CMODE: u32 = 0o731;

fn slots() -> Vec<Slot> {
    let mut v = vec![Slot::Missing, Slot::File, Slot::Dir];
    for t in 0..TARGETS.len() {
        v.push(Slot::Link(t as u8));
    }
    v
}

pub fn all_trees() -> Vec<TreeSpec> {
    let ss = slots();
    let mut tops: Vec<(Slot, [Slot; 2])> = vec![];
    for s in &ss {
        if *s == Slot::Dir {
            for c1 in &ss {
                for c2 in &ss {
                    tops.push((Slot::Dir, [*c1, *c2]));
                }
            }
        } else {
            tops.push((*s, [Slot::Missing, Slot::Missing]));
        }
    }
    let mut out = vec![];
    for (i, a) in tops.iter().enumerate() {
        for (j, b) in tops.iter().enumerate() {
            // bit 4 (every third tree): bystanders whose names merely begin with the namespace's names
            out.push(TreeSpec { top: [*a, *b], flavour: ((i * 7 + j * 3) % 4) as u8 | if (i + 2 * j) % 3 == 0 { 4 } else { 0 } });
        }
    }
    out
}

pub fn build(t: &TreeSpec) -> Memfs {
    let m = Memfs::new();
    let names = ["a", "b"];
    // directories and files first, links afterwards so recorded kinds reflect the final tree
    let mut links: Vec<(String, &str)> = vec![];
    for (i, (s, ch)) in t.top.iter().enumerate() {
        let p = format!("/{}", names[i]);
        match s {
            Slot::Missing => {},
            Slot::File => {
                let _ = m.write_all(&p, format!("top-{}", names[i]));
            },
            Slot::Dir => {
                let _ = m.mkdir_p(&p);
                for (j, c) in ch.iter().enumerate() {
                    let q = format!("{}/{}", p, names[j]);
                    match c {
                        Slot::Missing => {},
                        Slot::File => {
                            let _ = m.write_all(&q, format!("data-{}{}", names[i], names[j]));
                        },
                        Slot::Dir => {
                            let _ = m.mkdir_p(&q);
                        },
                        Slot::Link(k) => links.push((q, TARGETS[*k as usize])),
                    }
                }
            },
            Slot::Link(k) => links.push((p, TARGETS[*k as usize])),
        }
    }
    for (l, t) in links {
        let _ = m.symlink(&l, t);
    }
    // flavour: non-default modes / owners on some entries
    if t.flavour & 1 == 1 {
        // (nested directories get group/other write bits: what the umask would take away from a plain mkdir)
        for (p, dm, fm) in [("/a", 0o1750, 0o604), ("/b/b", 0o777, 0o666), ("/a/a", 0o775, 0o604)] {
            if m.is_dir(p) {
                let _ = m.chmod_b(p).and_then(|b| b.all(dm).no_recurse().exec());
            } else if m.is_file(p) {
                let _ = m.chmod_b(p).and_then(|b| b.all(fm).no_recurse().exec());
            }
        }
    }
    if t.flavour & 4 == 4 {
        // prefix-named bystanders: /ab (directory with a file), /a-old (file), and /a/ab next to /a/a when /a is a directory
        let _ = m.mkdir_p("/ab");
        let _ = m.write_all("/ab/keep", b"bystander");
        let _ = m.write_all("/a-old", b"bystander-2");
        if m.is_dir("/a") {
            let _ = m.write_all("/a/ab", b"bystander-3");
        }
    }
    if t.flavour & 2 == 2 {
        for p in ["/b", "/a/b"] {
            if m.exists(p) && !m.is_symlink(p) {
                let _ = m.chown_b(p).and_then(|b| b.owner(7, 8).recurse(false).exec());
            }
        }
    }
    m
}

pub fn arg_paths() -> Vec<&'static str> {
    vec!["/", "/a", "/b", "/a/a", "/a/b", "/b/a", "/b/b", "/c", "/a/c", "/c/d", "/a/a/x", "/b/b/y", "/ab"]
}

fn under(base: &str, rel: &str) -> String {
    if rel.is_empty() {
        base.to_string()
    } else if base == "/" {
        rel.to_string()
    } else {
        format!("{}{}", base, rel)
    }
}

pub fn check_copy(case: &CopyCase) -> CaseResult {
    let m = build(&case.tree);
    let mut pre = tree_from_dump(&m.verif_dump());
    // Stdfs: the same tree on tmpfs, observed with std::fs before and after
    let std_root: Option<String> = if case.stdfs {
        let root = crate::sandbox::root().join(format!("c09-{}", SEQ.fetch_add(1, std::sync::atomic::Ordering::Relaxed)));
        let root = root.to_str().unwrap().to_string();
        let mut abs_tree = pre.clone();
        abs_tree.nodes = pre
            .nodes
            .iter()
            .map(|(k, n)| {
                let mut n = n.clone();
                if let Node::Link { target, .. } = &mut n {
                    *target = if target == "/" { root.clone() } else { format!("{}{}", root, target) };
                }
                (if k == "/" { root.clone() } else { format!("{}{}", root, k) }, n)
            })
            .collect();
        if let Err(e) = crate::props::c02::materialise(&abs_tree, &root) {
            ctx().inconclusive(&format!("C09 cannot materialise a tree on tmpfs: {}", e));
            let _ = std::fs::remove_dir_all(&root);
            return Ok(());
        }
        // owners as in the Memfs tree where they are not the default
        for (k, n) in &abs_tree.nodes {
            let (u, g) = n.owner();
            if (u, g) != (1000, 1000) && n.kind() != Kind::Link {
                let _ = std::os::unix::fs::chown(k, Some(u), Some(g));
            }
        }
        pre = crate::props::c20::tree_from_disk(&root);
        lexical_links(&mut pre);
        Some(root)
    } else {
        None
    };
    let (s, d) = (case.src.as_str(), case.dst.as_str());
    let skind = pre.kind(s);
    let cls = format!(
        "src={},dst={},{}",
        skind.map(|k| format!("{:?}", k)).unwrap_or("missing".into()),
        pre.kind(d).map(|k| format!("{:?}", k)).unwrap_or("missing".into()),
        if s == d { "same" } else if is_under(d, s) { "dst-under-src" } else if is_under(s, d) { "src-under-dst" } else { "disjoint" }
    );
    let is_move = case.variant == 5;
    let op = match case.variant {
        0 => Op::Copy(s.into(), d.into()),
        1 => Op::CopyB(s.into(), d.into(), CopyOpt { mode: CopyMode::All(CMODE), follow: false }),
        2 => Op::CopyB(s.into(), d.into(), CopyOpt { mode: CopyMode::Dirs(CMODE), follow: false }),
        3 => Op::CopyB(s.into(), d.into(), CopyOpt { mode: CopyMode::Files(CMODE), follow: false }),
        4 => Op::CopyB(s.into(), d.into(), CopyOpt { mode: CopyMode::None, follow: true }),
        // two chmod options on one builder: the later one replaces the earlier one
        6 => Op::CopyB(s.into(), d.into(), CopyOpt { mode: CopyMode::Two(2, 0o600, 0, CMODE), follow: false }),
        7 => Op::CopyB(s.into(), d.into(), CopyOpt { mode: CopyMode::Two(0, 0o600, 1, CMODE), follow: false }),
        _ => Op::MoveP(s.into(), d.into()),
    };
    let vname = ["copy", "copy-chmod_all", "copy-chmod_dirs", "copy-chmod_files", "copy-follow", "move_p", "copy-chmod_files-then-chmod_all", "copy-chmod_all-then-chmod_dirs"][case.variant as usize % 8];
    let (out, post) = match &std_root {
        Some(root) => {
            let real: Op = serde_json::from_str(&serde_json::to_string(&op).unwrap().replace("\"/", &format!("\"{}/", root))).unwrap();
            // "/" itself is the sandbox directory
            let real: Op = serde_json::from_str(&serde_json::to_string(&real).unwrap().replace(&format!("\"{}/\"", root), &format!("\"{}\"", root))).unwrap();
            let out = apply(&Vfs::stdfs(), &real);
            let mut post = crate::props::c20::tree_from_disk(root);
            lexical_links(&mut post);
            // make the tree removable whatever modes it ended up with
            let _ = std::process::Command::new("chmod").args(["-R", "u+rwx", root]).status();
            let _ = std::fs::remove_dir_all(root);
            (out, post)
        },
        None => {
            let out = apply(&m, &op);
            let dump = m.verif_dump();
            let bad = integrity(&dump);
            if !bad.is_empty() && !matches!(out, Out::Panic(_)) {
                return Err(Failure::new(format!("{}|integrity:{}|{}", vname, bad[0].0, cls), format!("{:?} -> {:?}: {}", op, out, bad[0].1)));
            }
            (out, tree_from_dump(&dump))
        },
    };
    let cls = if case.stdfs { format!("{}|stdfs", cls) } else { cls };
    if let Out::Panic(msg) = &out {
        return Err(Failure::new(format!("{}|panic|{}|{}", vname, panic_site(msg), cls), format!("{:?} panicked: {}", op, msg)));
    }
    let base = if pre.kind(d) == Some(Kind::Dir) { join(d, &base(s)) } else { d.to_string() };
    let base = if s == "/" { d.to_string() } else { base };
    let fail = |what: &str, detail: String| Err(Failure::new(format!("{}|{}|{}", vname, what, cls), format!("{:?} -> {:?}: {}", op, out, detail)));
    if is_move {
        if out.is_err() {
            if pre != post {
                return fail("failed-move-changed-tree", format!("before {:?} after {:?}", pre.nodes.keys().collect::<Vec<_>>(), post.nodes.keys().collect::<Vec<_>>()));
            }
            return Ok(());
        }
        if skind.is_none() {
            return fail("moved-missing-source", "Ok for a missing source".into());
        }
        if base == s || s == "/" {
            if pre != post {
                return fail("self-move-changed-tree", "moving an entry onto itself changed the tree".into());
            }
            return Ok(());
        }
        // source gone, destination == former subtree, rest unchanged
        for k in pre.subtree(s) {
            if post.nodes.contains_key(&k) && !is_under(&k, &base) {
                return fail("source-still-exists", format!("{:?} still exists", k));
            }
        }
        for k in pre.subtree(s) {
            let nk = under(&base, &k[s.len()..]);
            match (pre.nodes.get(&k), post.nodes.get(&nk)) {
                (Some(a), Some(b)) => {
                    let same = match (a, b) {
                        (Node::Link { target: t1, rel: r1, mode: m1, uid: u1, gid: g1, .. }, Node::Link { target: t2, rel: r2, mode: m2, uid: u2, gid: g2, .. }) => {
                            // same link text; a relative link resolves from its new location
                            let want = if r1.is_empty() || r1.starts_with('/') { t1.clone() } else { abs_plain("/", &format!("{}/{}", parent(&nk), r1)).unwrap_or(t1.clone()) };
                            r1 == r2 && want == *t2 && m1 == m2 && u1 == u2 && g1 == g2
                        },
                        (x, y) => x == y,
                    };
                    if !same {
                        return fail("moved-entry-differs", format!("{:?} was {:?} now {:?} at {:?}", k, a, b, nk));
                    }
                },
                (_, None) => return fail("moved-entry-lost", format!("{:?} did not arrive at {:?}", k, nk)),
                _ => {},
            }
        }
        let moved_count = pre.subtree(s).len();
        if post.subtree(&base).len() != moved_count {
            return fail("destination-has-extra-entries", format!("{:?} holds {} entries, moved {}", base, post.subtree(&base).len(), moved_count));
        }
        for (k, n) in &pre.nodes {
            if !is_under(k, s) && !is_under(k, &base) && post.nodes.get(k) != Some(n) {
                return fail("collateral-change", format!("{:?} changed: {:?} -> {:?}", k, n, post.nodes.get(k)));
            }
        }
        for k in post.nodes.keys() {
            if !pre.nodes.contains_key(k) && !is_under(k, &base) {
                return fail("collateral-change", format!("{:?} appeared", k));
            }
        }
        if post.cwd != pre.cwd {
            return fail("cwd-changed", format!("{:?}", post.cwd));
        }
        return Ok(());
    }
    // ---- copy ----
    // source untouched in every case (success or failure)
    let overlapping = is_under(&base, s) || is_under(s, &base);
    if !overlapping {
        for k in pre.subtree(s) {
            if post.nodes.get(&k) != pre.nodes.get(&k) {
                return fail("source-changed", format!("{:?}: {:?} -> {:?}", k, pre.nodes.get(&k), post.nodes.get(&k)));
            }
        }
    }
    // nothing outside the destination changes, except newly created ancestor directories of it.
    // With follow and links inside the source the placement below dst is not documented
    // (DESIGN 6.3): the frame is then dst itself rather than dst/<name>.
    let has_link_pre = pre.subtree(s).iter().any(|k| pre.kind(k) == Some(Kind::Link));
    let frame = if case.variant == 4 && has_link_pre { d.to_string() } else { base.clone() };
    let base_full = base.clone();
    let base = frame;
    for (k, n) in &pre.nodes {
        if !is_under(k, &base) && post.nodes.get(k) != Some(n) {
            // follow mode may legitimately touch nothing else either
            return fail("collateral-change", format!("{:?} changed: {:?} -> {:?}", k, n, post.nodes.get(k)));
        }
    }
    for (k, n) in &post.nodes {
        if !pre.nodes.contains_key(k) && !is_under(k, &base) {
            if !(is_under(&base, k) && n.kind() == Kind::Dir) {
                return fail("collateral-change", format!("{:?} appeared outside the destination", k));
            }
        }
    }
    let base = base_full;
    if out.is_err() {
        return Ok(());
    }
    // directories created on the way to the copy of a single file: the chmod option when it selects
    // directories, else the mode of the source file's own directory
    if skind == Some(Kind::File) {
        let dirs_selected = matches!(case.variant, 1 | 2 | 6 | 7);
        let src_parent_mode = pre.nodes.get(&parent(s)).map(|n| n.mode());
        for (k, n) in &post.nodes {
            if !pre.nodes.contains_key(k) && is_under(&base, k) && k != &base && n.kind() == Kind::Dir {
                let want = if dirs_selected { Some(0o40000 | CMODE) } else { src_parent_mode };
                if want.is_some() && Some(n.mode()) != want {
                    return fail("created-ancestor-mode", format!("{:?} was created with mode {:o} want {:o}", k, n.mode(), want.unwrap()));
                }
            }
        }
    }
    if skind.is_none() && s != d {
        return fail("copied-missing-source", "Ok for a missing source".into());
    }
    let has_link = pre.subtree(s).iter().any(|k| pre.kind(k) == Some(Kind::Link));
    if case.variant == 4 && has_link {
        // a link below a directory of the source that leads back to that directory or above it (inside the
        // source) is a cycle for the following traversal: it is reported, not skipped - an Ok would claim a
        // duplicate of something endless
        let src_real = match pre.nodes.get(s) {
            Some(Node::Link { target, .. }) => target.clone(),
            _ => s.to_string(),
        };
        // (an Ok that changed nothing is the documented no-op of copying something onto itself: no traversal ran)
        if pre.kind(&src_real) == Some(Kind::Dir) && pre != post {
            for k in pre.subtree(&src_real) {
                if let Some(Node::Link { target, .. }) = pre.nodes.get(&k) {
                    if k != src_real && is_under(&k, target) && is_under(target, &src_real) && pre.kind(target) == Some(Kind::Dir) {
                        return fail("copy-follow|link-cycle-skipped", format!("the source holds {:?} -> {:?}, an ancestor of the link inside the source: the following traversal cannot finish, yet the copy returned Ok", k, target));
                    }
                }
            }
        }
        // following links while copying: placement is not documented (DESIGN 6.3), but a successful
        // copy still leaves the (followed) source untouched
        if let Some(Node::Link { target, .. }) = pre.nodes.get(s) {
            if pre.kind(target) == Some(Kind::Dir) {
                let (a, b) = (pre.subtree(target), post.subtree(target));
                if a != b || a.iter().any(|k| pre.nodes.get(k) != post.nodes.get(k)) {
                    return fail("followed-source-changed", format!("the directory {:?} the source link points to changed: {:?} -> {:?}", target, a, b));
                }
            }
        }
        // placement in the one shape where nothing is ambiguous: the source itself is a link to a directory that
        // holds no links, and the place the copy goes to is free - the new entries are exactly that directory's
        // subtree, rooted at dst (missing dst) or at dst/<name of the link or of its target> (existing directory)
        if let Some(Node::Link { target, .. }) = pre.nodes.get(s) {
            let tsub = pre.subtree(target);
            if pre.kind(target) == Some(Kind::Dir) && !tsub.iter().any(|k| pre.kind(k) == Some(Kind::Link)) {
                let cands: Vec<String> = match pre.kind(d) {
                    Some(Kind::Dir) => vec![crate::refpath::join(d, &crate::refpath::base(s)), crate::refpath::join(d, &crate::refpath::base(target))],
                    None if pre.kind(&parent(d)) == Some(Kind::Dir) => vec![d.to_string()],
                    _ => vec![],
                };
                let free = !cands.is_empty() && cands.iter().all(|c| !pre.nodes.contains_key(c) && !is_under(c, target));
                if free {
                    let new: std::collections::BTreeSet<String> = post.nodes.keys().filter(|k| !pre.nodes.contains_key(*k)).cloned().collect();
                    let fits = cands.iter().any(|c| {
                        let want: std::collections::BTreeSet<String> = tsub.iter().map(|k| format!("{}{}", if c == "/" { "" } else { c.as_str() }, &k[target.len().min(k.len())..])).map(|k| if k.is_empty() { "/".to_string() } else { k }).collect();
                        want == new
                    });
                    if !fits {
                        return fail("follow-copy-misplaced", format!("the link {:?} -> directory {:?} was copied with follow to {:?}: new entries {:?} are not that directory's subtree rooted at any of {:?}", s, target, d, new, cands));
                    }
                }
            }
        }
        // wherever the copies are placed, they are copies of what existed when the call started: a new entry
        // below the destination root carries the name of something that was there before (the source is
        // snapshotted before the first mutation - the fresh destination root is not part of it)
        let mut names: std::collections::BTreeSet<String> = pre.nodes.keys().map(|k| crate::refpath::base(k)).collect();
        // (a followed link contributes the components of its target path, also when the target is missing)
        for n in pre.nodes.values() {
            if let Node::Link { target, .. } = n {
                names.extend(target.split('/').filter(|c| !c.is_empty()).map(|c| c.to_string()));
            }
        }
        for k in post.nodes.keys() {
            if !pre.nodes.contains_key(k) && is_under(k, &base) && k != &base && !names.contains(&crate::refpath::base(k)) {
                return fail("follow-copy-invented-entry", format!("{:?} appeared below the destination but nothing of that name existed when the call started", k));
            }
        }
        // ... and with the permissions of something of their kind that was there (a followed link is copied as what
        // it points to: never with the link's own 0o777). Trees in which a link points to a link are left out
        // (how a chain is followed is not specified)
        let chain = pre.nodes.values().any(|n| matches!(n, Node::Link { target, .. } if pre.kind(target) == Some(Kind::Link)));
        if !chain {
            for (k, n) in &post.nodes {
                if !pre.nodes.contains_key(k) && is_under(k, &base) && n.kind() != Kind::Link {
                    let known = pre.nodes.values().any(|m| m.kind() == n.kind() && m.mode() == n.mode());
                    if !known {
                        return fail("follow-copy-invented-mode", format!("{:?} was created as {:?} with mode {:o}; nothing of that kind had that mode when the call started", k, n.kind(), n.mode()));
                    }
                }
            }
        }
        return Ok(());
    }
    if s == d || base == s {
        if pre != post {
            return fail("self-copy-changed-tree", "copying an entry onto itself changed the tree".into());
        }
        return Ok(());
    }
    for k in pre.subtree(s) {
        let nk = under(&base, &k[s.len()..]);
        let a = pre.nodes.get(&k).unwrap();
        let b = match post.nodes.get(&nk) {
            Some(b) => b,
            None => return fail("entry-not-copied", format!("{:?} has no copy at {:?}", k, nk)),
        };
        if a.kind() != b.kind() {
            return fail("copied-kind-differs", format!("{:?} is {:?}, copy {:?} is {:?}", k, a.kind(), nk, b.kind()));
        }
        match (a, b) {
            (Node::File { data: x, .. }, Node::File { data: y, .. }) if x != y => return fail("copied-bytes-differ", format!("{:?} -> {:?}", k, nk)),
            (Node::Link { target: x, .. }, Node::Link { target: y, .. }) if x != y => return fail("copied-link-target-differs", format!("{:?} -> {:?}: {:?} vs {:?}", k, nk, x, y)),
            _ => {},
        }
        let existed = pre.nodes.get(&nk);
        match existed {
            Some(e) => {
                // entries that already existed are kept: kind, mode, owner
                if e.kind() != b.kind() || e.mode() != b.mode() || e.owner() != b.owner() {
                    return fail("existing-destination-entry-not-kept", format!("{:?} was {:?} now {:?}", nk, e, b));
                }
            },
            None => {
                let selected = match (case.variant, a.kind()) {
                    (1, Kind::Dir) | (1, Kind::File) | (2, Kind::Dir) | (3, Kind::File) | (6, Kind::Dir) | (6, Kind::File) | (7, Kind::Dir) => true,
                    _ => false,
                };
                let want = if a.kind() == Kind::Link {
                    DEF_LINK
                } else if selected {
                    a.type_bits() | CMODE
                } else {
                    a.mode()
                };
                if b.mode() != want {
                    return fail(
                        &format!("new-entry-mode|{:?}|selected={}", a.kind(), selected),
                        format!("{:?} (mode {:o}) copied to {:?} with mode {:o} want {:o}", k, a.mode(), nk, b.mode(), want),
                    );
                }
            },
        }
    }
    // nothing else appears under the destination
    for k in post.subtree(&base) {
        if !pre.nodes.contains_key(&k) {
            let rel = &k[base.len().min(k.len())..];
            let src_k = under(s, if base == "/" { &k[..] } else { rel });
            if !pre.nodes.contains_key(&src_k) {
                return fail("extra-entry-under-destination", format!("{:?} has no counterpart in the source", k));
            }
        }
    }
    Ok(())
}

pub fn run(c: &Ctx) {
    c.set_rule("exhaustive: every tree over the namespace {/a,/b} x {a,b} where each top-level slot is missing / file / link (to /a,/b,/a/a,/nope,/b/b) / directory with two children each missing / file / dir / link (3025 trees; every fourth gets non-default modes, owners or both; every third additionally holds bystanders whose names begin with a namespace name: /ab/keep, /a-old, /a/ab), materialised on a fresh Memfs; x every ordered (src,dst) pair of 12 paths (the namespace, root, missing names, a missing parent, deeper-than-namespace) x {copy, copy+chmod_all, +chmod_dirs, +chmod_files, +follow, move_p, chmod_files-then-chmod_all, chmod_all-then-chmod_dirs (the later option replaces the earlier)}. quick: a seeded 1/3 of the trees, thorough: all (3.5 M cases); a seeded 1/40 (quick) / 1/12 (thorough) of the cases whose arguments do not pass through a link also runs through Stdfs on a tmpfs copy of the tree (materialised and observed with std::fs), same predicates. Oracle: postcondition predicates on the dump before/after (DESIGN section 4 C09): source untouched, every source entry has a copy at the same relative path with same kind/bytes/link target, new entries carry the source mode unless the chmod option selects their kind, existing entries kept, nothing outside the destination changes (except created ancestors); move: source gone, destination == former subtree (modes, owners, bytes, link text; relative links resolve from the new location), rest unchanged, failed move changes nothing; C03 invariants; call returns. Plus three moves across a mount point on Stdfs (fresh name, into a directory that holds an empty directory of that name, onto an existing file): a relocation or a refusal that changes nothing. Non-trivial = src exists and (dst exists or src/dst nested or an option is set); distinct by (tree, src, dst, variant).");
    c.assume("copy with follow on a source containing links: only frame conditions are asserted (placement undocumented)");
    let trees = all_trees();
    let paths = arg_paths();
    let den = c.tier.pick(3, 1);
    let np = paths.len() as u64;
    c.note("trees_total", trees.len());
    let per_tree = np * np * 8;
    let std_den = c.tier.pick(40, 12);
    par_for(trees.len() as u64, 2, |ti| {
        if !sampled(c.seed, 900, ti, 1, den) {
            return;
        }
        let tree = &trees[ti as usize];
        let m = build(tree);
        let pre = tree_from_dump(&m.verif_dump());
        let mut fps = vec![];
        for j in 0..per_tree {
            let variant = (j % 8) as u8;
            let s = paths[((j / 8) / np) as usize];
            let d = paths[((j / 8) % np) as usize];
            let case = CopyCase { tree: tree.clone(), src: s.into(), dst: d.into(), variant, stdfs: false };
            // the same case through Stdfs on tmpfs: a seeded sample inside the Stdfs domain
            // (follow with links inside the source is the undocumented-placement area of DESIGN 6.3; on a real
            // filesystem the traversal can even descend into what it is writing, so it is left out there)
            let follow_links = variant == 4 && pre.subtree(s).iter().any(|k| pre.kind(k) == Some(Kind::Link));
            if sampled(c.seed, 901, ti * per_tree + j, 1, std_den) && stdfs_domain(&pre, s, d) && !follow_links {
                let sc = CopyCase { stdfs: true, ..case.clone() };
                mark("copy", &serde_json::to_string(&sc).unwrap());
                c.eval(1);
                c.class("stdfs");
                if pre.nodes.contains_key(s) {
                    fps.push(fp(&(ti, j, "std")));
                }
                c.judge("copy", &sc, check_copy(&sc));
            }
            if j % 97 == 0 {
                mark("copy", &serde_json::to_string(&case).unwrap());
            } else {
                tick();
            }
            c.eval(1);
            if pre.nodes.contains_key(s) && (pre.nodes.contains_key(d) || is_under(d, s) || is_under(s, d) || (variant != 0 && variant != 5)) {
                fps.push(fp(&(ti, j)));
            }
            if ti % 211 == 0 && j % 173 == 5 {
                c.sample(|| json!({"kind":"copy","case":case}));
            }
            // write-ahead for the (rare) hanging case costs too much per case; mark the risky ones
            if variant == 5 || is_under(d, s) {
                mark("copy", &serde_json::to_string(&case).unwrap());
            }
            c.judge("copy", &case, check_copy(&case));
        }
        c.nontrivial_many(&mut fps);
    });
    if den == 1 {
        c.set_exhaustive(true);
    }
    // the same Copier executed twice (exec takes &self), on both backends with std::fs / the dump as observers:
    // the second run meets the tree the first one left (the destination exists now: copy-into), not a decision
    // remembered from when the builder was made
    {
        let sb = crate::sandbox::root().join("c09-twice");
        let base = sb.to_str().unwrap().to_string();
        let mut views: Vec<Vec<String>> = vec![];
        for stdfs in [false, true] {
            let v = if stdfs { Vfs::stdfs() } else { Vfs::memfs() };
            let _ = v.remove_all(&base);
            let _ = v.mkdir_p(format!("{}/src/sub", base));
            let _ = v.write_all(format!("{}/src/f", base), b"f");
            let _ = v.write_all(format!("{}/file", base), b"single");
            let mut seen = vec![];
            if let Ok(cp) = v.copy_b(format!("{}/src", base), format!("{}/dst", base)) {
                seen.push(format!("{:?}", cp.exec().is_ok()));
                seen.push(format!("{:?}", cp.exec().is_ok()));
            }
            // a builder made while the destination is missing, run after it became a directory
            if let Ok(cp) = v.copy_b(format!("{}/file", base), format!("{}/later", base)) {
                let _ = v.mkdir_p(format!("{}/later", base));
                seen.push(format!("{:?}", cp.exec().is_ok()));
            }
            let mut paths: Vec<String> = v.all_paths(&base).unwrap_or_default().iter().map(|p| p.to_string_lossy().replace(&base, "")).collect();
            paths.sort();
            seen.extend(paths);
            views.push(seen);
            let _ = v.remove_all(&base);
        }
        c.eval(1);
        c.nontrivial(fp(&"copier-twice"));
        c.class("copier-executed-twice:stdfs-vs-memfs");
        let res = if views[0] == views[1] { Ok(()) } else { Err(Failure::new("copy_b|exec-twice-or-late|backends-differ", format!("results and tree: Memfs {:?} Stdfs {:?}", views[0], views[1]))) };
        c.judge("xdev", &json!("twice"), res);
    }
    // move_p across a mount point (the sandbox is on tmpfs; the other side is the first of a few scratch locations that
    // lives on another device): rename cannot do it, so whatever the backend does instead still has to be a
    // relocation - or a refusal that changes nothing. Skipped (counted) where no second device is writable.
    {
        use std::os::unix::fs::{MetadataExt, PermissionsExt};
        let here = crate::sandbox::root().join("c09-xdev");
        let _ = std::fs::create_dir_all(&here);
        let dev_here = std::fs::metadata(&here).map(|m| m.dev()).unwrap_or(0);
        let other = ["/tmp", "/var/tmp", "/verif/out"].iter().map(std::path::PathBuf::from).find(|p| std::fs::metadata(p).map(|m| m.dev() != dev_here && m.is_dir()).unwrap_or(false));
        match other {
            None => c.class("xdev:no-second-device(skipped)"),
            Some(base) => {
                let there = base.join(format!("rvh-xdev-{}", std::process::id()));
                // a snapshot of a subtree: relative path -> (kind, bytes, mode)
                fn snap(root: &std::path::Path) -> Vec<(String, String)> {
                    let mut out = vec![];
                    fn walk(root: &std::path::Path, p: &std::path::Path, out: &mut Vec<(String, String)>) {
                        let md = match std::fs::symlink_metadata(p) {
                            Ok(m) => m,
                            Err(_) => return,
                        };
                        let rel = p.strip_prefix(root).map(|r| r.to_string_lossy().to_string()).unwrap_or_default();
                        if md.is_dir() {
                            out.push((rel, format!("dir {:o}", md.permissions().mode() & 0o7777)));
                            let mut kids: Vec<_> = std::fs::read_dir(p).map(|d| d.flatten().map(|e| e.path()).collect()).unwrap_or_default();
                            kids.sort();
                            for k in kids {
                                walk(root, &k, out);
                            }
                        } else {
                            out.push((rel, format!("file {:o} {:?}", md.permissions().mode() & 0o7777, std::fs::read(p).unwrap_or_default())));
                        }
                    }
                    walk(root, root, &mut out);
                    out
                }
                let v = Vfs::stdfs();
                for shape in 0..3u8 {
                    let _ = std::fs::remove_dir_all(&here);
                    let _ = std::fs::remove_dir_all(&there);
                    let _ = std::fs::create_dir_all(here.join("src/sub"));
                    let _ = std::fs::create_dir_all(&there);
                    let _ = std::fs::write(here.join("src/f"), b"moved bytes");
                    let _ = std::fs::write(here.join("src/sub/g"), b"g");
                    let _ = std::fs::set_permissions(here.join("src/f"), std::fs::Permissions::from_mode(0o640));
                    let (src, dst, lands): (std::path::PathBuf, std::path::PathBuf, std::path::PathBuf) = match shape {
                        0 => (here.join("src"), there.join("fresh"), there.join("fresh")),
                        1 => {
                            // an existing directory that already holds an empty directory of the source's name
                            let _ = std::fs::create_dir_all(there.join("d/src"));
                            (here.join("src"), there.join("d"), there.join("d/src"))
                        },
                        _ => {
                            let _ = std::fs::write(there.join("old"), b"old destination bytes, longer");
                            let _ = std::fs::set_permissions(there.join("old"), std::fs::Permissions::from_mode(0o600));
                            (here.join("src/f"), there.join("old"), there.join("old"))
                        },
                    };
                    let before_src = snap(&src);
                    let before_there = snap(&there);
                    c.eval(1);
                    c.nontrivial(fp(&("xdev", shape)));
                    c.class("xdev:move-across-a-mount-point");
                    mark("xdev", &format!("{}", shape));
                    let out = v.move_p(&src, &dst);
                    let res = match out {
                        Err(_) => {
                            if snap(&src) != before_src || snap(&there) != before_there {
                                Err(Failure::new("move_p|across-devices|failed-but-changed-something|stdfs", format!("shape {}: move_p({:?}, {:?}) failed, yet source or destination side changed: {:?} -> {:?}", shape, src, dst, before_there, snap(&there))))
                            } else {
                                Ok(())
                            }
                        },
                        Ok(()) => {
                            let landed = snap(&lands);
                            if std::fs::symlink_metadata(&src).is_ok() {
                                Err(Failure::new("move_p|across-devices|source-still-there|stdfs", format!("shape {}: Ok but {:?} still exists", shape, src)))
                            } else if landed != before_src {
                                Err(Failure::new("move_p|across-devices|destination-differs-from-former-source|stdfs", format!("shape {}: move_p({:?}, {:?}) -> Ok: {:?} holds {:?}, the source was {:?}", shape, src, dst, lands, landed, before_src)))
                            } else {
                                Ok(())
                            }
                        },
                    };
                    c.judge("xdev", &json!(shape), res);
                }
                let _ = std::fs::remove_dir_all(&there);
            },
        }
        let _ = std::fs::remove_dir_all(&here);
    }
    crate::sandbox::cleanup();
}

pub fn replay(kind: &str, case: &Value) -> Option<CaseResult> {
    match kind {
        "copy" => {
            let r = check_copy(&serde_json::from_value(case.clone()).ok()?);
            crate::sandbox::cleanup();
            Some(r)
        },
        _ => None,
    }
}
