//! C15 — path helpers obey their inverse and containment laws on all UTF-8 input
use std::path::{Path, PathBuf};

use rivia::prelude::*;
use serde_json::{json, Value};

use crate::{engine::*, refpath::*, strgen::*};

const ALPHA: &[&str] = &["/", ".", ":", "a", "é", "日", "😀"];

fn cls(s: &str) -> &'static str {
    if s.is_ascii() {
        "ascii"
    } else {
        "multibyte"
    }
}

macro_rules! guard {
    ($name:expr, $args:expr, $e:expr) => {
        match catch(|| $e) {
            Ok(v) => v,
            Err(m) => {
                return Err(Failure::new(
                    format!("{}|panic|{}", $name, panic_site(&m)),
                    format!("{}{} panicked: {}", $name, $args, m),
                ))
            },
        }
    };
}

fn s_of(p: &PathBuf) -> String {
    p.to_str().unwrap_or("<non-utf8>").to_string()
}

fn rs_eq(a: &RvResult<String>, b: &RvResult<String>) -> bool {
    match (a, b) {
        (Ok(x), Ok(y)) => x == y,
        (Err(_), Err(_)) => true,
        _ => false,
    }
}

/// Laws over a single path string
pub fn check_single(p: &str) -> CaseResult {
    let args = format!("({:?})", p);
    let path = Path::new(p);
    let cs = comps(path);
    let n = cs.len();

    // --- ext / trim_ext / name ---------------------------------------------------------------
    let ext = guard!("ext", args, sys::ext(p));
    let trimmed = guard!("trim_ext", args, sys::trim_ext(p));
    let name = guard!("name", args, sys::name(p));
    let base = guard!("base", args, sys::base(p));
    let std_ext = path.extension().map(|x| x.to_str().unwrap().to_string());
    match (&ext, &std_ext) {
        (Ok(a), Some(b)) if a == b => {},
        (Err(_), None) => {},
        _ => return Err(Failure::new("ext|vs-std", format!("ext{} = {:?}, std extension = {:?}", args, ext.as_ref().map_err(|e| e.to_string()), std_ext))),
    }
    // the inverse law is meaningful where the string ends with its file name (no trailing
    // separator or '/.' which std ignores when computing the extension)
    let ends_with_file_name = path.file_name().map(|f| p.ends_with(f.to_str().unwrap())).unwrap_or(false);
    match &trimmed {
        Ok(t) => {
            if let Ok(e) = &ext {
                if ends_with_file_name {
                    let back = format!("{}.{}", s_of(t), e);
                    if back != p {
                        return Err(Failure::new(format!("trim_ext|inverse|{}", cls(p)), format!("trim_ext{} + '.' + ext = {:?}", args, back)));
                    }
                }
            } else if s_of(t) != p {
                return Err(Failure::new("trim_ext|no-ext-identity", format!("trim_ext{} = {:?} though ext fails", args, s_of(t))));
            }
        },
        Err(e) => return Err(Failure::new("trim_ext|err", format!("trim_ext{} = Err({})", args, e))),
    }
    if ends_with_file_name || ext.is_err() {
        let want: RvResult<String> = match (&ext, &base) {
            (Ok(e), Ok(b)) => Ok(b.strip_suffix(&format!(".{}", e)).unwrap_or(b).to_string()),
            (_, Ok(b)) => Ok(b.clone()),
            (_, Err(_)) => Err(PathError::Empty.into()),
        };
        if !rs_eq(&name, &want) {
            return Err(Failure::new(
                format!("name|base-without-ext|{}", cls(p)),
                format!("name{} = {:?}, base without extension = {:?}", args, name.as_ref().map_err(|e| e.to_string()), want.as_ref().map_err(|e| e.to_string())),
            ));
        }
    }

    // --- dir / base ---------------------------------------------------------------------------
    let dir = guard!("dir", args, sys::dir(p));
    if n == 0 {
        if base.is_ok() {
            return Err(Failure::new("base|empty-ok", format!("base{} = {:?}", args, base.as_ref().ok())));
        }
    } else {
        match &base {
            Ok(b) if *b == cs[n - 1] => {},
            other => return Err(Failure::new("base|last-component", format!("base{} = {:?}, last component {:?}", args, other.as_ref().map_err(|e| e.to_string()), cs[n - 1]))),
        }
        if let Ok(d) = &dir {
            if comps(d) != cs[..n - 1] {
                return Err(Failure::new("dir|all-but-last", format!("dir{} = {:?} components {:?} != {:?}", args, s_of(d), comps(d), &cs[..n - 1])));
            }
        } else if cs != ["/"] {
            return Err(Failure::new("dir|err", format!("dir{} failed although a parent exists", args)));
        }
        // "ParentNotFound if the path has no parent": the root has none (callers rely on that to refuse the root)
        if cs == ["/"] && dir.is_ok() {
            return Err(Failure::new("dir|root-has-a-parent", format!("dir{} = {:?} but the root has no parent", args, dir.as_ref().ok().map(|d| s_of(d)))));
        }
    }

    // --- first / trim_first, last / trim_last ---------------------------------------------------
    let first = guard!("first", args, sys::first(p));
    let tf = guard!("trim_first", args, sys::trim_first(p));
    let last = guard!("last", args, sys::last(p));
    let tl = guard!("trim_last", args, sys::trim_last(p));
    if n == 0 {
        if first.is_ok() || last.is_ok() || !comps(&tf).is_empty() || !comps(&tl).is_empty() {
            return Err(Failure::new("first-last|empty", format!("first/last/trim_first/trim_last{} on a path without components", args)));
        }
    } else {
        if first.as_ref().ok() != Some(&cs[0]) {
            return Err(Failure::new("first|first-component", format!("first{} = {:?} want {:?}", args, first.as_ref().map_err(|e| e.to_string()), cs[0])));
        }
        if comps(&tf) != cs[1..] {
            return Err(Failure::new("trim_first|rest", format!("trim_first{} = {:?} want components {:?}", args, s_of(&tf), &cs[1..])));
        }
        if last.as_ref().ok() != Some(&cs[n - 1]) {
            return Err(Failure::new("last|last-component", format!("last{} = {:?} want {:?}", args, last.as_ref().map_err(|e| e.to_string()), cs[n - 1])));
        }
        if comps(&tl) != cs[..n - 1] {
            return Err(Failure::new("trim_last|rest", format!("trim_last{} = {:?} want components {:?}", args, s_of(&tl), &cs[..n - 1])));
        }
    }

    // --- trim_protocol ------------------------------------------------------------------------
    check_protocol(p)?;

    // --- parse_paths --------------------------------------------------------------------------
    let pp = guard!("parse_paths", args, sys::parse_paths(p));
    let want: Vec<PathBuf> = p.split(':').filter(|x| !x.is_empty()).map(PathBuf::from).collect();
    match pp {
        Ok(v) if v == want && v.iter().map(s_of).collect::<Vec<_>>() == want.iter().map(s_of).collect::<Vec<_>>() => {},
        other => return Err(Failure::new("parse_paths|split", format!("parse_paths{} = {:?} want {:?}", args, other.map_err(|e| e.to_string()), want))),
    }

    // --- PathExt forms are the same functions -------------------------------------------------
    let same = guard!("pathext", args, {
        rs_eq(&path.base(), &base)
            && path.trim_first() == tf
            && path.trim_last() == tl
            && rs_eq(&path.first(), &first)
            && rs_eq(&path.last(), &last)
            && rs_eq(&path.ext(), &ext)
            && rs_eq(&path.name(), &name)
            && path.trim_protocol() == sys::trim_protocol(p)
            && path.is_empty() == p.is_empty()
            && path.dir().ok() == dir.as_ref().ok().cloned()
            && path.trim_ext().ok() == trimmed.as_ref().ok().cloned()
    });
    if !same {
        return Err(Failure::new("pathext|differs", format!("a PathExt method differs from its sys:: function for {}", args)));
    }
    Ok(())
}

pub fn check_protocol(p: &str) -> CaseResult {
    let args = format!("({:?})", p);
    let tp = guard!("trim_protocol", args, sys::trim_protocol(p));
    let want = ref_trim_protocol(p);
    if s_of(&tp) != want {
        return Err(Failure::new("trim_protocol|value", format!("trim_protocol{} = {:?} want {:?}", args, s_of(&tp), want)));
    }
    Ok(())
}

/// Laws over two strings
pub fn check_pair(s: &str, p: &str) -> CaseResult {
    let args = format!("({:?},{:?})", s, p);
    let c2 = if s.is_ascii() && p.is_ascii() { "ascii" } else { "multibyte" };

    // --- mash(d=s, p) -------------------------------------------------------------------------
    let m = guard!("mash", args, sys::mash(s, p));
    let stripped = p.trim_start_matches('/');
    let want: PathBuf = Path::new(s).join(stripped).components().collect();
    if comps(&m) != comps(&want) {
        let lead = p.len() - stripped.len();
        return Err(Failure::new(
            format!("mash|components|leading-seps={}", lead.min(3)),
            format!("mash{} = {:?}; want components of dir then of path without leading separators: {:?}", args, s_of(&m), comps(&want)),
        ));
    }
    let ms = s_of(&m);
    if ms.len() > 1 && ms.ends_with('/') {
        return Err(Failure::new("mash|trailing-separator", format!("mash{} = {:?}", args, ms)));
    }
    if !m.starts_with(Path::new(s).components().collect::<PathBuf>()) {
        return Err(Failure::new("mash|escapes-dir", format!("mash{} = {:?} is not under the directory", args, ms)));
    }

    // --- trim_prefix / trim_suffix inverse laws -----------------------------------------------
    let sp = format!("{}{}", s, p);
    let t = guard!("trim_prefix", format!("({:?},{:?})", sp, s), sys::trim_prefix(&sp, s));
    if s_of(&t) != p {
        return Err(Failure::new(format!("trim_prefix|inverse|{}", c2), format!("trim_prefix({:?},{:?}) = {:?} want {:?}", sp, s, s_of(&t), p)));
    }
    let ps = format!("{}{}", p, s);
    let t = guard!("trim_suffix", format!("({:?},{:?})", ps, s), sys::trim_suffix(&ps, s));
    if s_of(&t) != p {
        return Err(Failure::new(format!("trim_suffix|inverse|{}", c2), format!("trim_suffix({:?},{:?}) = {:?} want {:?}", ps, s, s_of(&t), p)));
    }
    // general form: strip once when it is a prefix/suffix, identity otherwise
    let t = guard!("trim_prefix", args, sys::trim_prefix(p, s));
    let want = p.strip_prefix(s).unwrap_or(p);
    if s_of(&t) != want {
        return Err(Failure::new(format!("trim_prefix|strip-or-identity|{}", c2), format!("trim_prefix({:?},{:?}) = {:?} want {:?}", p, s, s_of(&t), want)));
    }
    let t = guard!("trim_suffix", args, sys::trim_suffix(p, s));
    let want = p.strip_suffix(s).unwrap_or(p);
    if s_of(&t) != want {
        return Err(Failure::new(format!("trim_suffix|strip-or-identity|{}", c2), format!("trim_suffix({:?},{:?}) = {:?} want {:?}", p, s, s_of(&t), want)));
    }

    // --- has / has_prefix / has_suffix ---------------------------------------------------------
    let (h, hp, hs) = guard!("has", args, (sys::has(p, s), sys::has_prefix(p, s), sys::has_suffix(p, s)));
    if h != p.contains(s) || hp != p.starts_with(s) || hs != p.ends_with(s) {
        return Err(Failure::new("has|containment", format!("has/has_prefix/has_suffix({:?},{:?}) = {:?}", p, s, (h, hp, hs))));
    }

    // --- concat ---------------------------------------------------------------------------------
    let cc = guard!("concat", args, sys::concat(p, s));
    match cc {
        Ok(x) if s_of(&x) == ps => {},
        other => return Err(Failure::new("concat|append", format!("concat({:?},{:?}) = {:?}", p, s, other.map_err(|e| e.to_string())))),
    }

    // --- PathExt forms ------------------------------------------------------------------------
    let pp = Path::new(p);
    let same = guard!("pathext", args, {
        Path::new(s).mash(p) == m
            && pp.trim_prefix(s) == sys::trim_prefix(p, s)
            && pp.trim_suffix(s) == sys::trim_suffix(p, s)
            && pp.has(s) == h
            && pp.has_prefix(s) == hp
            && pp.has_suffix(s) == hs
            && pp.concat(s).ok() == sys::concat(p, s).ok()
    });
    if !same {
        return Err(Failure::new("pathext|differs", format!("a PathExt method differs from its sys:: function for {}", args)));
    }
    Ok(())
}

fn nontrivial(s: &str) -> bool {
    !s.is_ascii() || s.starts_with("//")
}

fn protocol_cases() -> Vec<String> {
    let mut v = vec![];
    let schemes = ["file", "ftp", "http", "https", "File", "FTP", "hTTp", "HTTPS", "filex", "ftps", "htt", "xfile", "", "fıle", "ﬁle", "httpſ", "HTTPſ", "ﬁLE", "ſftp", "Ftp", "hTtPs"];
    let seps = ["://", ":/", "//", ":", ":///", "://:", "::/"];
    let tails = ["", "a", "/a", "a/b", "//a", "é", "file://x", "ftp://", "HTTP://a"];
    for s in schemes {
        for sep in seps {
            for t in tails {
                v.push(format!("{}{}{}", s, sep, t));
                v.push(format!("/{}{}{}", s, sep, t));
                v.push(format!(" {}{}{}", s, sep, t));
            }
        }
    }
    v
}

pub fn run(c: &Ctx) {
    c.set_rule("exhaustive: every string over {'/','.',':','a','é','日','😀'} up to length 4 (quick) / 5 (thorough) for single-argument laws; every ordered pair of such strings up to length 3 (quick) / 4 (thorough) for two-argument laws; a protocol table (scheme case variants, look-alikes whose upper/lower-case forms collide with a scheme, x separator near-misses x tails); colon lists with white space at entry ends; then seeded random strings <=24 symbols over an adversarial alphabet. One executable law per clause of the statement. Non-trivial = an argument with a multi-byte character or >=2 leading separators; distinct by argument tuple.");
    c.assume("std::path::Path::components/extension/file_name/parent are correct (used to state component-level laws)");
    c.assume("trim_ext/name inverse laws are asserted where the string ends with its file name (std ignores trailing separators when computing the extension); other inputs only have to not panic");
    let single_len = c.tier.pick(4, 5);
    let pair_len = c.tier.pick(3, 4);
    let singles = all_strings(ALPHA, single_len);
    par_for(singles.len() as u64, 64, |i| {
        let p = &singles[i as usize];
        mark("single", p);
        c.eval(1);
        if nontrivial(p) {
            c.nontrivial(fp(&("single", p)));
        }
        if i % 397 == 11 {
            c.sample(|| json!({"kind":"single","path":p}));
        }
        c.judge("single", p, check_single(p));
    });
    let pairs = all_strings(ALPHA, pair_len);
    let n = pairs.len() as u64;
    par_for(n * n, 2048, |i| {
        let (s, p) = (&pairs[(i / n) as usize], &pairs[(i % n) as usize]);
        mark("pair", s);
        c.eval(1);
        if i % 50_021 == 3 {
            c.sample(|| json!({"kind":"pair","s":s,"p":p}));
        }
        let r = check_pair(s, p);
        if r.is_err() || ((nontrivial(s) || nontrivial(p)) && i % 16 == 0) {
            c.nontrivial(fp(&("pair", s, p)));
        }
        c.judge("pair", &json!([s, p]), r);
    });
    c.note("nontrivial_counting", "pairs: every 16th non-trivial pair is inserted into the distinct set (memory bound); the reported count is therefore a lower bound");
    for p in protocol_cases() {
        c.eval(1);
        c.nontrivial(fp(&("proto", &p)));
        c.class("protocol-table");
        c.judge("single", &p, check_single(&p));
    }
    // characters that are separators or special elsewhere but ordinary name characters here (backslash, drive-letter
    // colon, white space, '*', '?'): every string / ordered pair over this second alphabet up to length 3
    {
        let alt: &[&str] = &["/", "\\", "a", " ", "*", "?", "C:"];
        let strs = all_strings(alt, 3);
        for p in &strs {
            c.eval(1);
            c.nontrivial(fp(&("alt-single", p)));
            c.class("second-alphabet:ordinary-here-special-elsewhere");
            c.judge("single", p, check_single(p));
        }
        let m = strs.len() as u64;
        par_for(m * m, 1024, |i| {
            let (s, p) = (&strs[(i / m) as usize], &strs[(i % m) as usize]);
            mark("pair", s);
            c.eval(1);
            if i % 16 == 0 {
                c.nontrivial(fp(&("alt-pair", s, p)));
            }
            c.judge("pair", &json!([s, p]), check_pair(s, p));
        });
    }
    // colon lists whose entries begin or end with white space of any kind (an entry is listed verbatim)
    for p in ["/a:/b ", "/a: ", "/a:/b\n", " /a:/b", "/a:/b\t", "/a :/b", "\u{a0}", "/a:\u{3000}", "/a:/b\r\n", " ", ":: ", "/a:\n"] {
        c.eval(1);
        c.nontrivial(fp(&("list", p)));
        c.class("list-table:white-space");
        c.judge("single", &p.to_string(), check_single(p));
    }
    c.note("exhaustive_space", format!("{} single strings (len<={}), {} ordered pairs (len<={})", singles.len(), single_len, n * n, pair_len));
    c.set_exhaustive(true);
    let cases = c.tier.pick(150_000, 2_000_000);
    run_proptest("single", 151, || string_over(ADVERSARIAL, 24), cases, |p: &String| {
        mark("single", p);
        c.eval(1);
        if nontrivial(p) {
            c.nontrivial(fp(&("single", p)));
            c.class("random-single:nontrivial");
        }
        c.sample(|| json!({"kind":"single","path":p}));
        check_single(p)
    });
    run_proptest("pair", 152, || (string_over(ADVERSARIAL, 8), string_over(ADVERSARIAL, 16)), cases, |(s, p): &(String, String)| {
        mark("pair", s);
        c.eval(1);
        if nontrivial(p) || nontrivial(s) {
            c.nontrivial(fp(&("pair", s, p)));
            c.class("random-pair:nontrivial");
        }
        c.sample(|| json!({"kind":"pair","s":s,"p":p}));
        check_pair(s, p)
    });
}

pub fn replay(kind: &str, case: &Value) -> Option<CaseResult> {
    match kind {
        "single" => Some(check_single(case.as_str()?)),
        "pair" => {
            let a = case.as_array()?;
            Some(check_pair(a[0].as_str()?, a[1].as_str()?))
        },
        _ => None,
    }
}
