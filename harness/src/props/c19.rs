//! C19 — core iterator, string, option and defer helpers match their plain definitions
use std::{cell::RefCell, path::Path};

use proptest::prelude::*;
use rivia::prelude::*;
use serde::{Deserialize, Serialize};
use serde_json::{json, Value};

use crate::{engine::*, strgen::*};

// ---------------------------------------------------------------------------------------------
// iterators
// ---------------------------------------------------------------------------------------------
fn want_slice(len: isize, l: isize, r: isize) -> Vec<isize> {
    // documented index normalisation: negative counts from the end, right bound clamped
    let l2 = if l < 0 { len + l } else { l };
    let mut r2 = if r < 0 { len + r } else { r };
    if r2 > len - 1 {
        r2 = len - 1;
    }
    if l2 < 0 || l2 >= len || r2 < 0 || l2 > r2 {
        return vec![];
    }
    (l2..=r2).collect()
}

fn want_drop(len: isize, n: isize) -> Vec<isize> {
    if n >= 0 {
        (n.min(len)..len).collect()
    } else {
        (0..(len + n).max(0)).collect()
    }
}

fn idx_class(len: isize, i: isize) -> &'static str {
    if i < -len {
        "below"
    } else if i < 0 {
        "neg"
    } else if i == 0 {
        "zero"
    } else if i < len {
        "in"
    } else {
        "beyond"
    }
}

pub fn check_slice(src: &str, len: isize, l: isize, r: isize) -> CaseResult {
    let desc = format!("{} len={} slice({},{})", src, len, l, r);
    let in_domain = l >= -len;
    let got: Result<Vec<isize>, String> = catch(|| match src {
        "vec" => (0..len).collect::<Vec<isize>>().into_iter().slice(l, r).collect::<Vec<isize>>(),
        "chars" => {
            let s: String = (0..len).map(|i| char::from(b'a' + i as u8)).collect();
            s.chars().slice(l, r).map(|c| (c as u8 - b'a') as isize).collect()
        },
        "chars-multibyte" => {
            // size_hint upper bound (bytes) exceeds the real number of items
            let s: String = (0..len).map(|i| char::from_u32(0x3042 + i as u32).unwrap()).collect();
            s.chars().slice(l, r).map(|c| (c as u32 - 0x3042) as isize).collect()
        },
        "filter" => {
            // not ExactSize: upper bound 2*len, real length len
            (0..2 * len).collect::<Vec<isize>>().into_iter().filter(|x| x % 2 == 0).slice(l, r).map(|x| x / 2).collect()
        },
        _ => {
            let s: String = (0..len).map(|i| format!("{}", i)).collect::<Vec<_>>().join("/");
            Path::new(&s).components().slice(l, r).map(|c| c.as_os_str().to_str().unwrap().parse::<isize>().unwrap()).collect()
        },
    });
    match got {
        Err(m) => Err(Failure::new(
            format!("slice|panic|left={}|right={}", idx_class(len, l), idx_class(len, r)),
            format!("{} panicked: {}", desc, m),
        )),
        Ok(g) => {
            if !in_domain {
                return Ok(()); // left below -len: only totality is claimed
            }
            let want = want_slice(len, l, r);
            if g != want {
                return Err(Failure::new(
                    format!("slice|value|left={}|right={}|want-empty={}", idx_class(len, l), idx_class(len, r), want.is_empty()),
                    format!("{} yields {:?} want {:?}", desc, g, want),
                ));
            }
            Ok(())
        },
    }
}

pub fn check_drop(src: &str, len: isize, n: isize) -> CaseResult {
    let desc = format!("{} len={} drop({})", src, len, n);
    let got: Result<Vec<isize>, String> = catch(|| match src {
        "vec" => IteratorExt::drop((0..len).collect::<Vec<isize>>().into_iter(), n).collect::<Vec<isize>>(),
        "chars" => {
            let s: String = (0..len).map(|i| char::from(b'a' + i as u8)).collect();
            IteratorExt::drop(s.chars(), n).map(|c| (c as u8 - b'a') as isize).collect()
        },
        "chars-multibyte" => {
            let s: String = (0..len).map(|i| char::from_u32(0x3042 + i as u32).unwrap()).collect();
            IteratorExt::drop(s.chars(), n).map(|c| (c as u32 - 0x3042) as isize).collect()
        },
        "filter" => IteratorExt::drop((0..2 * len).collect::<Vec<isize>>().into_iter().filter(|x| x % 2 == 0), n).map(|x| x / 2).collect(),
        _ => {
            let s: String = (0..len).map(|i| format!("{}", i)).collect::<Vec<_>>().join("/");
            IteratorExt::drop(Path::new(&s).components(), n).map(|c| c.as_os_str().to_str().unwrap().parse::<isize>().unwrap()).collect()
        },
    });
    match got {
        Err(m) => Err(Failure::new(format!("drop|panic|n={}", idx_class(len, n)), format!("{} panicked: {}", desc, m))),
        Ok(g) => {
            let want = want_drop(len, n);
            if g != want {
                return Err(Failure::new(format!("drop|value|n={}", idx_class(len, n)), format!("{} yields {:?} want {:?}", desc, g, want)));
            }
            Ok(())
        },
    }
}

pub fn check_simple(len: isize) -> CaseResult {
    let v: Vec<isize> = (0..len).collect();
    let r = catch(|| {
        let mut errs = vec![];
        if v.clone().into_iter().first() != v.first().copied() {
            errs.push("first");
        }
        match (v.clone().into_iter().first_result(), v.first()) {
            (Ok(a), Some(b)) if a == *b => {},
            (Err(e), None) if e.downcast_ref::<IterError>() == Some(&IterError::ItemNotFound) => {},
            _ => errs.push("first_result"),
        }
        match (v.clone().into_iter().last_result(), v.last()) {
            (Ok(a), Some(b)) if a == *b => {},
            (Err(e), None) if e.downcast_ref::<IterError>() == Some(&IterError::ItemNotFound) => {},
            _ => errs.push("last_result"),
        }
        match (v.clone().into_iter().single(), v.len()) {
            (Ok(a), 1) if a == v[0] => {},
            (Err(e), 0) if e.downcast_ref::<IterError>() == Some(&IterError::ItemNotFound) => {},
            (Err(e), n) if n > 1 && e.downcast_ref::<IterError>() == Some(&IterError::MultipleItemsFound) => {},
            _ => errs.push("single"),
        }
        if v.clone().into_iter().some() != !v.is_empty() {
            errs.push("some");
        }
        let mut it = v.clone().into_iter().consume();
        if it.next().is_some() {
            errs.push("consume");
        }
        let text: String = (0..len).map(|i| if i % 2 == 0 { 'é' } else { 'a' }).collect();
        if text.chars().consume().next().is_some() {
            errs.push("consume(chars)");
        }
        // filtered sources (not ExactSize)
        for keep in 0..=len {
            let f = || v.clone().into_iter().filter(move |x| *x < keep);
            if f().some() != (keep > 0) || f().first() != (if keep > 0 { Some(0) } else { None }) {
                errs.push("some/first(filter)");
            }
            match (f().single(), keep) {
                (Ok(0), 1) => {},
                (Err(_), k) if k != 1 => {},
                _ => errs.push("single(filter)"),
            }
            // consume leaves nothing behind, whatever the size hint promised
            if f().consume().next().is_some() {
                errs.push("consume(filter)");
            }
            if v.clone().into_iter().skip_while(move |x| *x < keep / 2).consume().next().is_some() {
                errs.push("consume(skip_while)");
            }
            match (f().last_result(), keep) {
                (Ok(x), k) if k > 0 && x == k - 1 => {},
                (Err(_), 0) => {},
                _ => errs.push("last_result(filter)"),
            }
        }
        errs
    });
    match r {
        Err(m) => Err(Failure::new("iter-simple|panic", format!("len={} panicked: {}", len, m))),
        Ok(e) if e.is_empty() => Ok(()),
        Ok(e) => Err(Failure::new(format!("iter-simple|{}", e[0]), format!("len={} wrong: {:?}", len, e))),
    }
}

// ---------------------------------------------------------------------------------------------
// strings, option, take_while_p
// ---------------------------------------------------------------------------------------------
pub fn check_string(s: &str) -> CaseResult {
    let r = catch(|| {
        let mut errs: Vec<String> = vec![];
        let chars = s.as_bytes().iter().filter(|b| (**b & 0xC0) != 0x80).count();
        if StringExt::size(s) != chars || s.to_string().size() != chars {
            errs.push(format!("size={} want {}", StringExt::size(s), chars));
        }
        let want_false = s.is_empty() || s == "0" || (s.len() == 5 && s.eq_ignore_ascii_case("false"));
        if s.to_bool() == want_false || s.to_string().to_bool() == want_false {
            errs.push(format!("to_bool={} want {}", s.to_bool(), !want_false));
        }
        errs
    });
    match r {
        Err(m) => Err(Failure::new("string|panic", format!("{:?} panicked: {}", s, m))),
        Ok(e) if e.is_empty() => Ok(()),
        Ok(e) => Err(Failure::new(format!("string|{}", e[0].split('=').next().unwrap()), format!("{:?}: {:?}", s, e))),
    }
}

pub fn check_string_pair(s: &str, suffix: &str) -> CaseResult {
    let r = catch(|| {
        let want = s.strip_suffix(suffix).unwrap_or(s).to_string();
        let a = StringExt::trim_suffix(s, suffix);
        let b = StringExt::trim_suffix(&s.to_string(), suffix.to_string());
        let some = Some(s.to_string());
        let none: Option<String> = None;
        let has_ok = some.has(suffix.to_string()) == (s == suffix) && !none.has(suffix.to_string()) && some.has(s.to_string());
        (a == want && b == want, has_ok, a, want)
    });
    match r {
        Err(m) => Err(Failure::new("trim_suffix|panic", format!("({:?},{:?}) panicked: {}", s, suffix, m))),
        Ok((true, true, _, _)) => Ok(()),
        Ok((false, _, a, w)) => Err(Failure::new("string-trim_suffix|value", format!("trim_suffix({:?},{:?}) = {:?} want {:?}", s, suffix, a, w))),
        Ok((_, false, _, _)) => Err(Failure::new("option-has|value", format!("Option::has wrong for ({:?},{:?})", s, suffix))),
    }
}

pub fn check_take_while(seq: &[u8], threshold: u8) -> CaseResult {
    let r = catch(|| {
        let mut it = seq.iter().copied().peekable();
        let taken: Vec<u8> = it.take_while_p(|x| *x < threshold).collect();
        let rest: Vec<u8> = it.collect();
        let k = seq.iter().take_while(|x| **x < threshold).count();
        // fold path
        let mut it2 = seq.iter().copied().peekable();
        let folded = it2.take_while_p(|x| *x < threshold).fold(0usize, |a, _| a + 1);
        let next2 = it2.next();
        // "behaves the same as take_while": also for a predicate with state of its own (at most `threshold`
        // items, each item asked about once), driven item by item and through fold
        let limit = threshold as usize;
        let kc = seq.len().min(limit);
        let mut n = 0usize;
        let mut it3 = seq.iter().copied().peekable();
        let mut counted: Vec<u8> = vec![];
        {
            let mut tw = it3.take_while_p(move |_| {
                n += 1;
                n <= limit
            });
            while let Some(x) = tw.next() {
                counted.push(x);
            }
        }
        let rest3: Vec<u8> = it3.collect();
        let mut n4 = 0usize;
        let mut it4 = seq.iter().copied().peekable();
        let folded4 = it4
            .take_while_p(move |_| {
                n4 += 1;
                n4 <= limit
            })
            .fold(0usize, |a, _| a + 1);
        // a short prefix of a source that is far too long to hold: what the adaptor promises about its length must
        // not make a collection reserve for the whole source
        let huge: Vec<u64> = (0..u64::MAX).peekable().take_while_p(|x| *x < limit as u64).collect();
        let endless: String = std::iter::repeat('a').enumerate().map(|(i, ch)| if i < limit { ch } else { 'b' }).peekable().take_while_p(|ch| *ch == 'a').collect();
        let stateful_ok = counted == seq[..kc] && rest3 == seq[kc..] && folded4 == kc && huge.len() == limit && endless.len() == limit;
        if !stateful_ok {
            return (false, counted, rest3);
        }
        (taken == seq[..k] && rest == seq[k..] && folded == k && next2 == seq.get(k).copied(), taken, rest)
    });
    match r {
        Err(m) => Err(Failure::new("take_while_p|panic", format!("{:?} < {} panicked: {}", seq, threshold, m))),
        Ok((true, _, _)) => Ok(()),
        Ok((false, t, rest)) => Err(Failure::new("take_while_p|value", format!("seq {:?} pred <{}: took {:?}, left {:?}", seq, threshold, t, rest))),
    }
}

// ---------------------------------------------------------------------------------------------
// defer
// ---------------------------------------------------------------------------------------------
#[derive(Debug, Clone, Serialize, Deserialize, PartialEq)]
pub enum Stmt {
    Defer(u32),
    Log(u32),
    Block(Vec<Stmt>),
    Return,
    Panic,
    /// a guard whose closure itself runs a block with its own guards
    DeferBlock(u32, Vec<Stmt>),
    /// a guard whose closure panics after logging
    DeferPanic(u32),
}

#[derive(PartialEq)]
enum Flow {
    Next,
    Return,
}

thread_local! {
    static LOG: RefCell<Vec<i64>> = const { RefCell::new(vec![]) };
}

fn log(x: i64) {
    LOG.with(|l| l.borrow_mut().push(x));
}

/// Real execution: every Defer statement is a real `defer(..)` local living in its own stack frame
/// until the rest of its block has run.
fn exec(stmts: &[Stmt]) -> Flow {
    match stmts.first() {
        None => Flow::Next,
        Some(Stmt::Defer(id)) => {
            let id = *id as i64;
            let _guard = defer(move || log(-id));
            exec(&stmts[1..])
        },
        Some(Stmt::DeferBlock(id, inner)) => {
            let id = *id as i64;
            let inner = inner.clone();
            let _guard = defer(move || {
                log(-id);
                exec(&inner);
            });
            exec(&stmts[1..])
        },
        Some(Stmt::DeferPanic(id)) => {
            let id = *id as i64;
            let _guard = defer(move || {
                log(-id);
                panic!("generated panic inside a deferred closure");
            });
            exec(&stmts[1..])
        },
        Some(Stmt::Log(id)) => {
            log(*id as i64);
            exec(&stmts[1..])
        },
        Some(Stmt::Block(inner)) => {
            if exec(inner) == Flow::Return {
                return Flow::Return;
            }
            exec(&stmts[1..])
        },
        Some(Stmt::Return) => Flow::Return,
        Some(Stmt::Panic) => panic!("generated panic"),
    }
}

#[derive(PartialEq)]
enum MFlow {
    Next,
    Return,
    Panic,
}

/// Model: a block's guards run in reverse creation order when the block is left by any means
fn model(stmts: &[Stmt], out: &mut Vec<i64>) -> MFlow {
    let mut guards: Vec<&Stmt> = vec![];
    let mut flow = MFlow::Next;
    for s in stmts {
        match s {
            Stmt::Defer(_) | Stmt::DeferBlock(..) | Stmt::DeferPanic(_) => guards.push(s),
            Stmt::Log(id) => out.push(*id as i64),
            Stmt::Block(inner) => {
                let f = model(inner, out);
                if f != MFlow::Next {
                    flow = f;
                    break;
                }
            },
            Stmt::Return => {
                flow = MFlow::Return;
                break;
            },
            Stmt::Panic => {
                flow = MFlow::Panic;
                break;
            },
        }
    }
    for g in guards.iter().rev() {
        match g {
            Stmt::Defer(id) => out.push(-(*id as i64)),
            Stmt::DeferBlock(id, inner) => {
                out.push(-(*id as i64));
                let _ = model(inner, out);
            },
            Stmt::DeferPanic(id) => {
                out.push(-(*id as i64));
                flow = MFlow::Panic; // unwinding continues through the remaining guards
            },
            _ => {},
        }
    }
    flow
}

/// Keep at most one panic source per program (a second panic while unwinding aborts the process,
/// which is Rust's rule, not the property's) and no exits inside deferred closures
fn sanitise(stmts: &mut Vec<Stmt>, panics_left: &mut u32, in_closure: bool) {
    for s in stmts.iter_mut() {
        match s {
            Stmt::Panic | Stmt::DeferPanic(_) => {
                if *panics_left == 0 || in_closure {
                    *s = Stmt::Log(99);
                } else {
                    *panics_left -= 1;
                }
            },
            Stmt::Return if in_closure => *s = Stmt::Log(98),
            Stmt::Block(b) => sanitise(b, panics_left, in_closure),
            Stmt::DeferBlock(_, b) => sanitise(b, panics_left, true),
            _ => {},
        }
    }
}

fn exits(stmts: &[Stmt]) -> (bool, bool) {
    let mut r = (false, false);
    for s in stmts {
        match s {
            Stmt::Return => r.0 = true,
            Stmt::Panic | Stmt::DeferPanic(_) => r.1 = true,
            Stmt::DeferBlock(_, b) | Stmt::Block(b) => {
                let x = exits(b);
                r.0 |= x.0;
                r.1 |= x.1;
            },
            _ => {},
        }
    }
    r
}

pub fn check_defer(prog: &[Stmt]) -> CaseResult {
    let mut prog = prog.to_vec();
    let mut budget = 1u32;
    sanitise(&mut prog, &mut budget, false);
    let prog = &prog[..];
    LOG.with(|l| l.borrow_mut().clear());
    let res = catch(|| {
        exec(prog);
    });
    let got = LOG.with(|l| l.borrow().clone());
    let mut want = vec![];
    let flow = model(prog, &mut want);
    let exit = match flow {
        MFlow::Next => "fallthrough",
        MFlow::Return => "return",
        MFlow::Panic => "panic",
    };
    if res.is_err() != (flow == MFlow::Panic) {
        return Err(Failure::new(format!("defer|unexpected-unwind|{}", exit), format!("program {:?}: panicked={} expected {}", prog, res.is_err(), flow == MFlow::Panic)));
    }
    if got != want {
        return Err(Failure::new(format!("defer|order-or-count|exit={}", exit), format!("program {:?}: log {:?} want {:?} (negative = guard ran)", prog, got, want)));
    }
    Ok(())
}

// fixed family written with the defer! macro, parameterised by exit point / mode
fn macro_family(mode: u8) -> Vec<i64> {
    LOG.with(|l| l.borrow_mut().clear());
    fn inner(mode: u8) -> u8 {
        defer!(log(-1));
        log(1);
        if mode == 1 {
            return 1;
        }
        {
            defer!(log(-2));
            log(2);
            if mode == 2 {
                return 2;
            }
            if mode == 3 {
                panic!("generated panic");
            }
            defer!(log(-3));
            log(3);
        }
        log(4);
        defer!(log(-4));
        if mode == 4 {
            panic!("generated panic");
        }
        log(5);
        0
    }
    let _ = catch(|| inner(mode));
    LOG.with(|l| l.borrow().clone())
}

pub fn check_defer_macro(mode: u8) -> CaseResult {
    let want: Vec<i64> = match mode {
        0 => vec![1, 2, 3, -3, -2, 4, 5, -4, -1],
        1 => vec![1, -1],
        2 => vec![1, 2, -2, -1],
        3 => vec![1, 2, -2, -1],
        _ => vec![1, 2, 3, -3, -2, 4, -4, -1],
    };
    let got = macro_family(mode);
    if got != want {
        return Err(Failure::new(format!("defer-macro|order-or-count|mode={}", mode), format!("defer! family mode {}: log {:?} want {:?}", mode, got, want)));
    }
    Ok(())
}

fn stmt_strategy() -> impl Strategy<Value = Vec<Stmt>> {
    let leaf = prop_oneof![
        4 => (1u32..7).prop_map(Stmt::Defer),
        3 => (10u32..20).prop_map(Stmt::Log),
        1 => Just(Stmt::Return),
        1 => Just(Stmt::Panic),
        1 => (20u32..30).prop_map(Stmt::DeferPanic),
        2 => ((30u32..40), prop::collection::vec(prop_oneof![(40u32..50).prop_map(Stmt::Defer), (50u32..60).prop_map(Stmt::Log)], 0..4)).prop_map(|(id, b)| Stmt::DeferBlock(id, b)),
    ];
    let stmt = leaf.prop_recursive(3, 24, 5, |inner| prop::collection::vec(inner, 0..5).prop_map(Stmt::Block));
    prop::collection::vec(stmt, 0..7)
}

/// Exhaustive small programs: all statement lists of length <= n over a small statement alphabet,
/// with one nested block position
fn small_programs(max_len: usize) -> Vec<Vec<Stmt>> {
    let atoms = [
        Stmt::Defer(1),
        Stmt::Defer(2),
        Stmt::Log(10),
        Stmt::Return,
        Stmt::Panic,
        Stmt::DeferPanic(5),
        Stmt::DeferBlock(6, vec![Stmt::Defer(7), Stmt::Log(12)]),
    ];
    let mut flat: Vec<Vec<Stmt>> = vec![vec![]];
    let mut frontier: Vec<Vec<Stmt>> = vec![vec![]];
    for _ in 0..max_len {
        let mut next = vec![];
        for f in &frontier {
            for a in &atoms {
                let mut g = f.clone();
                g.push(a.clone());
                next.push(g);
            }
        }
        flat.extend(next.iter().cloned());
        frontier = next;
    }
    // programs: outer prefix + Block(inner) + outer suffix, over short flats
    let short: Vec<&Vec<Stmt>> = flat.iter().filter(|f| f.len() <= 2).collect();
    let mut out = flat.clone();
    for pre in &short {
        for inner in &short {
            for suf in &short {
                let mut p = (*pre).clone();
                p.push(Stmt::Block((*inner).clone()));
                p.extend((*suf).iter().cloned());
                out.push(p.clone());
                // depth 3
                if inner.len() <= 1 && pre.len() <= 1 {
                    let mut q = (*pre).clone();
                    q.push(Stmt::Block(vec![Stmt::Defer(3), Stmt::Block((*inner).clone()), Stmt::Log(11)]));
                    q.extend((*suf).iter().cloned());
                    out.push(q);
                }
            }
        }
    }
    out
}

pub fn run(c: &Ctx) {
    c.set_rule("exhaustive: slice(l,r) and drop(n) for all lengths 0..=8 and all indices in -10..=10, plus the ends of the index type (isize::MIN/MAX and their neighbours) for lengths 0..=3, on five iterator sources (Vec::into_iter, Path::components, str::chars ASCII and multi-byte, a filtered Vec iterator whose size_hint over-estimates); first/first_result/last_result/single/some/consume for all lengths 0..=8 (plain and filtered sources); all strings <=3 (quick) / 4 (thorough) symbols over {a,F,f,0,é,ß,İ,space} plus casings of false/true/0 for size/to_bool/trim_suffix/Option::has; defer: every program of <=4 (quick) / 5 (thorough) statements over {defer,defer,log,return,panic,defer-whose-closure-panics,defer-whose-closure-uses-defer} plus nested-block compositions up to depth 3 and a defer! macro family; then seeded random sequences/strings/programs. Oracles: Vec slicing with the documented index normalisation, byte-level char count, str::strip_suffix, ==, longest-prefix, reverse-creation-order model under catch_unwind. Non-trivial = index pair with a negative or out-of-range index / string with a multi-byte char / program with a return or panic exit; distinct by case.");
    // --- iterators (exhaustive) -----------------------------------------------------------------
    let srcs = ["vec", "components", "chars", "chars-multibyte", "filter"];
    for src in srcs {
        for len in 0..=8isize {
            for l in -10..=10isize {
                for r in -10..=10isize {
                    c.eval(1);
                    if l < -len {
                        c.exclude(1);
                    }
                    if l < 0 || r < 0 || l >= len || r >= len {
                        c.nontrivial(fp(&("slice", src, len, l, r)));
                    }
                    mark("slice", &format!("[{:?},{},{},{}]", src, len, l, r));
                    c.judge("slice", &json!([src, len, l, r]), check_slice(src, len, l, r));
                }
                c.eval(1);
                if l < 0 || l >= len {
                    c.nontrivial(fp(&("drop", src, len, l)));
                }
                c.judge("drop", &json!([src, len, l]), check_drop(src, len, l));
            }
        }
    }
    // the ends of the index type ("for all indices ... none of these panics"; l stays at or above -len)
    for src in srcs {
        for len in 0..=3isize {
            for l in [0, 1, -len, isize::MAX, isize::MAX - 1] {
                for r in [isize::MIN, isize::MIN + 1, isize::MAX, isize::MAX - 1, -1, 0] {
                    c.eval(1);
                    c.nontrivial(fp(&("slice-extreme", src, len, l, r)));
                    c.class("slice:extreme-index");
                    mark("slice", &format!("[{:?},{},{},{}]", src, len, l, r));
                    c.judge("slice", &json!([src, len, l, r]), check_slice(src, len, l, r));
                }
            }
            for n in [isize::MIN, isize::MIN + 1, isize::MAX, isize::MAX - 1] {
                c.eval(1);
                c.class("drop:extreme-index");
                c.judge("drop", &json!([src, len, n]), check_drop(src, len, n));
            }
        }
    }
    c.sample(|| json!({"kind":"slice","case":["vec",4,1,0]}));
    c.sample(|| json!({"kind":"drop","case":["components",3,-2]}));
    for len in 0..=8isize {
        c.eval(1);
        c.judge("iter-simple", &json!(len), check_simple(len));
    }
    // --- strings (exhaustive) -------------------------------------------------------------------
    let alpha = ["a", "F", "f", "0", "é", "ß", "İ", " "];
    let mut strings = all_strings(&alpha, c.tier.pick(3, 4));
    for w in ["false", "true", "0", "00", "no", "False", "FALSE", "fAlSe", "falsE", "TRUE", "false ", " false", "fals", "falsé", "ﬀalse", "FALSE0", "0false", "\n", "0\n", "false\n", "FALSE\r\n", "\r", "0\r\n", "\nfalse", "false\t", "\u{feff}false", "0\u{0}"] {
        strings.push(w.to_string());
    }
    par_for(strings.len() as u64, 64, |i| {
        let s = &strings[i as usize];
        mark("string", s);
        c.eval(1);
        if !s.is_ascii() {
            c.nontrivial(fp(&("string", s)));
        }
        if i % 211 == 5 {
            c.sample(|| json!({"kind":"string","s":s}));
        }
        c.judge("string", s, check_string(s));
    });
    let short = all_strings(&alpha, c.tier.pick(2, 3));
    let n = short.len() as u64;
    par_for(n * n, 512, |i| {
        let (s, t) = (&short[(i / n) as usize], &short[(i % n) as usize]);
        c.eval(1);
        if !s.is_ascii() || !t.is_ascii() {
            c.nontrivial(fp(&("strpair", s, t)));
        }
        c.judge("string-pair", &json!([s, t]), check_string_pair(s, t));
        c.judge("string-pair", &json!([format!("{}{}", s, t), t]), check_string_pair(&format!("{}{}", s, t), t));
    });
    // --- defer (exhaustive small programs) ------------------------------------------------------
    let progs = small_programs(c.tier.pick(4, 5));
    c.note("defer_programs_enumerated", progs.len());
    par_for(progs.len() as u64, 64, |i| {
        let p = &progs[i as usize];
        c.eval(1);
        let (r, pn) = exits(p);
        if r || pn {
            c.nontrivial(fp(&format!("{:?}", p)));
        }
        if pn {
            c.class("defer:program-with-panic");
        }
        if r {
            c.class("defer:program-with-return");
        }
        if i % 1013 == 17 {
            c.sample(|| json!({"kind":"defer","program":p}));
        }
        mark("defer", &serde_json::to_string(p).unwrap());
        c.judge("defer", p, check_defer(p));
    });
    for mode in 0..=4u8 {
        c.eval(1);
        c.nontrivial(fp(&("defer-macro", mode)));
        c.judge("defer-macro", &json!(mode), check_defer_macro(mode));
    }
    c.set_exhaustive(true);
    // --- random ---------------------------------------------------------------------------------
    let cases = c.tier.pick(30_000, 600_000);
    run_proptest("defer", 191, || stmt_strategy(), cases, |p: &Vec<Stmt>| {
        c.eval(1);
        let (r, pn) = exits(p);
        if r || pn {
            c.nontrivial(fp(&format!("{:?}", p)));
            c.class("random-defer:has-exit");
        }
        c.sample(|| json!({"kind":"defer","program":p}));
        mark("defer", &serde_json::to_string(p).unwrap());
        check_defer(p)
    });
    run_proptest("take_while_p", 192, || (prop::collection::vec(0u8..10, 0..12), 0u8..11), cases, |(seq, t): &(Vec<u8>, u8)| {
        c.eval(1);
        let k = seq.iter().take_while(|x| **x < *t).count();
        if k > 0 && k < seq.len() {
            c.nontrivial(fp(&("twp", seq, t)));
        }
        check_take_while(seq, *t)
    });
    run_proptest("string", 193, || string_over(&["a", "F", "f", "A", "L", "S", "E", "l", "s", "e", "0", "é", "ß", "İ", " ", "日", "😀", "false", "FALSE"], 10), cases, |s: &String| {
        c.eval(1);
        if !s.is_ascii() {
            c.nontrivial(fp(&("string", s)));
        }
        check_string(s)
    });
    run_proptest(
        "string-pair",
        194,
        || (string_over(&["a", "b", "é", "日", "😀", " "], 8), string_over(&["a", "b", "é", "日", "😀", " "], 3), any::<bool>()),
        cases,
        |(s, t, glue): &(String, String, bool)| {
            c.eval(1);
            let s2 = if *glue { format!("{}{}", s, t) } else { s.clone() };
            if !s2.is_ascii() {
                c.nontrivial(fp(&("strpair", &s2, t)));
            }
            check_string_pair(&s2, t)
        },
    );
    run_proptest("slice", 195, || (0isize..40, -50isize..50, -50isize..50), cases, |(len, l, r): &(isize, isize, isize)| {
        c.eval(1);
        if *l < -*len {
            c.exclude(1);
        }
        c.nontrivial(fp(&("slice", "vec", len, l, r)));
        check_slice("vec", *len, *l, *r)?;
        check_drop("vec", *len, *l)
    });
}

pub fn replay(kind: &str, case: &Value) -> Option<CaseResult> {
    match kind {
        "slice" => {
            let a = case.as_array()?;
            if a.len() == 3 {
                let (len, l, r) = (a[0].as_i64()? as isize, a[1].as_i64()? as isize, a[2].as_i64()? as isize);
                return Some(check_slice("vec", len, l, r).and_then(|_| check_drop("vec", len, l)));
            }
            Some(check_slice(a[0].as_str()?, a[1].as_i64()? as isize, a[2].as_i64()? as isize, a[3].as_i64()? as isize))
        },
        "drop" => {
            let a = case.as_array()?;
            Some(check_drop(a[0].as_str()?, a[1].as_i64()? as isize, a[2].as_i64()? as isize))
        },
        "iter-simple" => Some(check_simple(case.as_i64()? as isize)),
        "string" => Some(check_string(case.as_str()?)),
        "string-pair" => {
            let a = case.as_array()?;
            if a.len() == 3 {
                let (s, t, glue) = (a[0].as_str()?, a[1].as_str()?, a[2].as_bool()?);
                let s2 = if glue { format!("{}{}", s, t) } else { s.to_string() };
                return Some(check_string_pair(&s2, t));
            }
            Some(check_string_pair(a[0].as_str()?, a[1].as_str()?))
        },
        "take_while_p" => {
            let a = case.as_array()?;
            let seq: Vec<u8> = serde_json::from_value(a[0].clone()).ok()?;
            Some(check_take_while(&seq, a[1].as_u64()? as u8))
        },
        "defer" => {
            let p: Vec<Stmt> = serde_json::from_value(case.clone()).ok()?;
            Some(check_defer(&p))
        },
        "defer-macro" => Some(check_defer_macro(case.as_u64()? as u8)),
        _ => None,
    }
}
