//! C01 — Memfs behaves as a tree filesystem for every operation history
use serde_json::{json, Value};

use std::collections::HashMap;
use std::sync::Mutex;

use rivia::prelude::*;

use crate::{engine::*, fsapply::*, fsdrive::*, fsgen::*, fsmodel::Model, fstypes::*, refpath::*};

pub const OPTS: StepOpts = StepOpts { model_compare: true, api_view: false };

pub fn cfg_small() -> GenCfg {
    GenCfg { names: NAMES3, avoid_through_link: true, plain_spelling: false, wild: false, handles: false }
}
pub fn cfg_adv() -> GenCfg {
    GenCfg { names: NAMES_ADV, avoid_through_link: true, plain_spelling: false, wild: false, handles: false }
}

/// Check one generated history; on failure minimise the concrete ops and attach them
pub fn check_history(c: &Ctx, specs: &[OpSpec], cfg: &GenCfg, opts: &StepOpts, kind: &str) -> CaseResult {
    let mut excluded = 0u64;
    let (st, res) = run_specs(specs, cfg, opts, &mut excluded);
    c.eval(1);
    c.exclude(excluded);
    c.note_add_quiet("ops_executed", st.ops.len() as u64);
    if st.failing_calls > 0 {
        c.class("history:has-failing-call");
    }
    if st.two_path > 0 {
        c.class("history:has-two-path-op");
    }
    if st.relative > 0 {
        c.class("history:has-relative-path");
    }
    if st.links {
        c.class("history:has-link");
    }
    if st.resyncs > 0 {
        c.class("history:resynced-after-unspecified-step");
    }
    if (st.ok_mutators >= 1 && st.failing_calls >= 1) || st.two_path >= 1 {
        c.nontrivial(fp(&format!("{:?}", st.ops)));
    }
    c.sample(|| json!({"kind": kind, "ops": st.ops.iter().take(12).collect::<Vec<_>>()}));
    match res {
        Ok(()) => Ok(()),
        Err(f) => {
            if in_shrink() || c.is_known(&f.sig) {
                return Err(f.with_case(kind, json!(st.ops)));
            }
            let ops = minimise(&st.ops, opts, &f.sig);
            let f = run_ops(&ops, opts).err().unwrap_or(f);
            Err(f.with_case(kind, json!(ops)))
        },
    }
}

const NS: &[&str] = &["/a", "/b", "/a/a", "/a/b", "/b/a", "/b/b"];
const NS_SMALL: &[&str] = &["/a", "/b", "/a/b"];

fn bfs_ops(m: &Model, ns: &[&str]) -> Vec<Op> {
    let s = |x: &str| x.to_string();
    let mut v = vec![Op::Cwd];
    let mut spellings: Vec<(String, String)> = vec![]; // (absolute, literal)
    for p in ns {
        spellings.push((s(p), s(p)));
        if m.t.cwd != "/" && !m.through_link(p) {
            let r = ref_relative(p, &m.t.cwd);
            let r = if r.is_empty() { ".".to_string() } else { r };
            if !m.through_link(&r) {
                spellings.push((s(p), r));
            }
        }
    }
    for (_, lit) in &spellings {
        let l = || lit.clone();
        v.extend(vec![
            Op::Mkfile(l()),
            Op::MkdirP(l()),
            Op::WriteAll(l(), b"1".to_vec()),
            Op::WriteAll(l(), vec![]),
            Op::AppendAll(l(), b"1".to_vec()),
            Op::Remove(l()),
            Op::RemoveAll(l()),
            Op::SetCwd(l()),
            Op::Exists(l()),
            Op::IsDir(l()),
            Op::IsFile(l()),
            Op::IsSymlink(l()),
            Op::IsSymlinkDir(l()),
            Op::Mode(l()),
            Op::ReadAll(l()),
            Op::Paths(l()),
            Op::AllPaths(l()),
            Op::Readlink(l()),
            Op::ReadlinkAbs(l()),
            Op::Entry(l()),
        ]);
    }
    v.push(Op::SetCwd(s("/")));
    v.push(Op::AllPaths(s("/")));
    for a in ns {
        for b in ns.iter().chain(["/"].iter()) {
            v.push(Op::Copy(s(a), s(b)));
            v.push(Op::MoveP(s(a), s(b)));
            if *b != "/" {
                v.push(Op::Symlink(s(a), s(b)));
            }
        }
        v.push(Op::Symlink(s(a), s("/")));
        v.push(Op::Symlink(s(a), s("/nowhere")));
    }
    v
}

fn in_namespace(m: &Model, ns: &[&str]) -> bool {
    m.t.nodes.iter().all(|(k, n)| {
        (k == "/" || ns.contains(&k.as_str()))
            && match n {
                Node::File { data, .. } => data.len() <= 1,
                _ => true,
            }
    })
}

/// Explicit-state exploration: every (reachable state, op) edge is executed on a fresh Memfs (the
/// state is re-created by replaying its BFS path) and on the model; new states inside the namespace
/// are expanded until no new state appears or the cap is hit.
fn fixpoint(c: &Ctx, ns: &[&str], label: &str, cap: usize) -> bool {
    let mut seen: HashMap<u64, ()> = HashMap::new();
    let root = Model::fresh();
    let key = |m: &Model| fp(&(format!("{:?}", m.t.nodes), &m.t.cwd, format!("{:?}", m.meta)));
    seen.insert(key(&root), ());
    let mut frontier: Vec<(Model, Vec<Op>)> = vec![(root, vec![])];
    let mut states = 1usize;
    let mut edges = 0u64;
    let mut frontier_left = 0usize;
    let mut depth = 0;
    let mut complete = true;
    while !frontier.is_empty() {
        depth += 1;
        let next: Mutex<Vec<(Model, Vec<Op>)>> = Mutex::new(vec![]);
        let edge_count = std::sync::atomic::AtomicU64::new(0);
        let fr = &frontier;
        par_for(fr.len() as u64, 4, |i| {
            let (model, path) = &fr[i as usize];
            let ops = bfs_ops(model, ns);
            let mut fps = vec![];
            for op in &ops {
                let mem = Memfs::new();
                for p in path {
                    let _ = apply(&mem, p);
                }
                let mut m2 = model.clone();
                let mut full = path.clone();
                full.push(op.clone());
                if edge_count.load(std::sync::atomic::Ordering::Relaxed) % 64 == 0 {
                    mark("ops", &serde_json::to_string(&full).unwrap());
                } else {
                    tick();
                }
                edge_count.fetch_add(1, std::sync::atomic::Ordering::Relaxed);
                c.eval(1);
                match step(&mem, &mut m2, op, &OPTS) {
                    Ok(info) => {
                        if !path.is_empty() && (info.out_err || op.paths().len() == 2) {
                            fps.push(fp(&(format!("{:?}", model.t.nodes), format!("{:?}", op))));
                        }
                        // a link whose recorded kind depended on the (per-instance) iteration order of a
                        // copy cannot be re-created faithfully by replaying the path: compared, not expanded
                        let reproducible = !info.resynced && m2.meta.values().all(|l| l.created_kind.is_some());
                        if op.is_mutator() && info.mutated && !reproducible {
                            c.class("fixpoint:successor-not-reproducible(compared,not-expanded)");
                        } else if op.is_mutator() && info.mutated && in_namespace(&m2, ns) {
                            next.lock().unwrap().push((m2, full));
                        } else if op.is_mutator() && info.mutated {
                            c.class("fixpoint:successor-outside-namespace(compared,not-expanded)");
                        }
                    },
                    Err(f) => {
                        c.judge("ops", &full, Err(f.with_case("ops", serde_json::json!(full))));
                    },
                }
            }
            c.nontrivial_many(&mut fps);
        });
        edges += edge_count.load(std::sync::atomic::Ordering::Relaxed);
        let mut nf = vec![];
        for (m, p) in next.into_inner().unwrap() {
            let k = key(&m);
            if seen.contains_key(&k) {
                continue;
            }
            if states >= cap {
                frontier_left += 1;
                complete = false;
                continue;
            }
            seen.insert(k, ());
            states += 1;
            nf.push((m, p));
        }
        frontier = nf;
        if c.saturated() {
            complete = false;
            break;
        }
    }
    c.note(&format!("fixpoint_{}_states", label), states);
    c.note(&format!("fixpoint_{}_transitions", label), edges);
    c.note(&format!("fixpoint_{}_depth", label), depth);
    c.note(&format!("fixpoint_{}_reached", label), complete);
    c.note(&format!("fixpoint_{}_unexpanded_successors_at_cap", label), frontier_left);
    c.class_n(&format!("fixpoint:{}:states", label), states as u64);
    complete
}

pub fn run(c: &Ctx) {
    // small namespace: explored to the fixpoint (exhaustive); larger namespace: breadth-first up to a state cap
    let closed = fixpoint(c, NS_SMALL, "small", 200_000);
    fixpoint(c, NS, "large", c.tier.pick(1_200, 40_000));
    if closed {
        c.set_exhaustive(true);
    }
    c.set_rule("(a) reachability exploration, to the FIXPOINT over the namespace {/a,/b,/a/b} and breadth-first up to a state cap over {/a,/b}x{a,b} (file data \"\" or \"1\", links to every namespace path, the root and a missing path, cwd any directory): breadth-first from the fresh instance, every (state, op) edge for ~250 ops (creators, writers, removers, set_cwd, copy/move_p/symlink over all ordered pairs, all queries; absolute and cwd-relative spellings) executed on a Memfs re-created by replaying the state's BFS path and on the reference model, successors inside the namespace expanded until no new state appears (thorough) or the state cap (quick; evidence says whether the fixpoint was reached). (c) history sweep (run with HOME unset - plain paths need no home directory): EVERY sequence of 3 calls (thorough: also a seeded 1/16 of the sequences of 4) over a 67-form alphabet (create/write/remove/remove_all/set_cwd on 4 paths, copy/move_p/symlink on all ordered pairs, cwd-relative forms, an untouched write handle, an append) after each of 3 seed prefixes, each history run from a fresh instance against the model - the reachability exploration re-creates a state by its shortest path and cannot see what one particular history left in hidden bookkeeping. (b) model-based histories: proptest-generated sequences of calls (every trait method incl. builders and handles) whose path selectors are resolved against the current reference-model state (existing dir/file/link, missing child, missing parent, below a file, root/cwd; 8 spellings: absolute, cwd-relative, './', doubled separators, 'x/../' detours, trailing '/.'), executed in lock step on Memfs and on a reference tree filesystem written from the trait docs; after every step the result (value or error kind) must be admitted by the model and the dump-derived tree (names, kinds, bytes, link targets, modes, owners, cwd) must equal the model's; failed single-target calls must leave the raw dump unchanged. Non-trivial = history with >=1 successful mutator and >=1 failing call, or a two-path op (copy/move/symlink); distinct by concrete op list.");
    c.assume("reference model rules: DESIGN.md appendix A; arguments traversing a link as an intermediate component are excluded by construction (counted)");
    c.assume("Memfs::verif_dump (hook H2) is a faithful copy of the internal indexes");
    // (c) every short history (not state): what a call leaves in hidden bookkeeping for the next one
    // (this phase runs with HOME removed from the process environment: none of its paths mentions the home
    // directory, so none of its calls may need it; nothing else runs in this process meanwhile)
    let home = std::env::var_os("HOME");
    std::env::remove_var("HOME");
    crate::hsweep::history_sweep(c, 3, 103, 1, "model", |ops| run_ops(ops, &OPTS));
    // "a single-target call that reports failure leaves the tree exactly as it was", for path arguments that are
    // not valid UTF-8 (the reference has no such names: only the failure clause is judged)
    for (desc, res, same, _bad) in crate::hsweep::odd_path_calls() {
        c.eval(1);
        c.nontrivial(fp(&("odd", &desc)));
        c.class("non-utf8-path-argument");
        let r = match res {
            Err(p) => Err(Failure::new("panic|non-utf8-path", format!("{}: {}", desc, p))),
            Ok(true) if !same => Err(Failure::new("failed-call-changed-the-tree|non-utf8-path", format!("{} reported failure, the state differs from the one before the call", desc))),
            _ => Ok(()),
        };
        c.judge("odd", &json!(desc), r);
    }
    if let Some(h) = home {
        std::env::set_var("HOME", h);
    }
    if c.tier == Tier::Thorough {
        crate::hsweep::history_sweep(c, 4, 104, 16, "model", |ops| run_ops(ops, &OPTS));
    }
    let n = c.tier.pick(30_000, 300_000);
    let cfg = cfg_small();
    run_proptest("ops", 101, || history(40), n, |specs: &Vec<OpSpec>| {
        check_history(c, specs, &cfg, &OPTS, "ops")
    });
    let cfg2 = cfg_adv();
    let n2 = c.tier.pick(2_000, 50_000);
    run_proptest("ops", 102, || history(c.tier.pick(80, 200)), n2, |specs: &Vec<OpSpec>| {
        check_history(c, specs, &cfg2, &OPTS, "ops")
    });
}

pub fn replay(kind: &str, case: &Value) -> Option<CaseResult> {
    match kind {
        "ops" => {
            let ops: Vec<Op> = serde_json::from_value(case.clone()).ok()?;
            Some(run_ops(&ops, &OPTS))
        },
        _ => None,
    }
}
