//! C01 — Memfs behaves as a tree filesystem for every operation history
use serde_json::{json, Value};

use crate::{engine::*, fsdrive::*, fsgen::*, fstypes::Op};

pub const OPTS: StepOpts = StepOpts { model_compare: true, api_view: false };

pub fn cfg_small() -> GenCfg {
    GenCfg { names: NAMES3, avoid_through_link: true, plain_spelling: false, wild: false, handles: false }
}
pub fn cfg_adv() -> GenCfg {
    GenCfg { names: NAMES_ADV, avoid_through_link: true, plain_spelling: false, wild: false, handles: false }
}

/// Check one generated history; on failure minimise the concrete ops and attach them
pub fn check_history(c: &Ctx, specs: &[OpSpec], cfg: &GenCfg, opts: &StepOpts, kind: &str) -> CaseResult {
    let mut excluded = 0u64;
    let (st, res) = run_specs(specs, cfg, opts, &mut excluded);
    c.eval(1);
    c.exclude(excluded);
    c.note_add_quiet("ops_executed", st.ops.len() as u64);
    if st.failing_calls > 0 {
        c.class("history:has-failing-call");
    }
    if st.two_path > 0 {
        c.class("history:has-two-path-op");
    }
    if st.relative > 0 {
        c.class("history:has-relative-path");
    }
    if st.links {
        c.class("history:has-link");
    }
    if st.resyncs > 0 {
        c.class("history:resynced-after-unspecified-step");
    }
    if (st.ok_mutators >= 1 && st.failing_calls >= 1) || st.two_path >= 1 {
        c.nontrivial(fp(&format!("{:?}", st.ops)));
    }
    c.sample(|| json!({"kind": kind, "ops": st.ops.iter().take(12).collect::<Vec<_>>()}));
    match res {
        Ok(()) => Ok(()),
        Err(f) => {
            if in_shrink() || c.is_known(&f.sig) {
                return Err(f.with_case(kind, json!(st.ops)));
            }
            let ops = minimise(&st.ops, opts, &f.sig);
            let f = run_ops(&ops, opts).err().unwrap_or(f);
            Err(f.with_case(kind, json!(ops)))
        },
    }
}

pub fn run(c: &Ctx) {
    c.set_rule("model-based histories: proptest-generated sequences of calls (every trait method incl. builders and handles) whose path selectors are resolved against the current reference-model state (existing dir/file/link, missing child, missing parent, below a file, root/cwd; 8 spellings: absolute, cwd-relative, './', doubled separators, 'x/../' detours, trailing '/.'), executed in lock step on Memfs and on a reference tree filesystem written from the trait docs; after every step the result (value or error kind) must be admitted by the model and the dump-derived tree (names, kinds, bytes, link targets, modes, owners, cwd) must equal the model's; failed single-target calls must leave the raw dump unchanged. Non-trivial = history with >=1 successful mutator and >=1 failing call, or a two-path op (copy/move/symlink); distinct by concrete op list.");
    c.assume("reference model rules: DESIGN.md appendix A; arguments traversing a link as an intermediate component are excluded by construction (counted)");
    c.assume("Memfs::verif_dump (hook H2) is a faithful copy of the internal indexes");
    let n = c.tier.pick(30_000, 300_000);
    let cfg = cfg_small();
    run_proptest("ops", 101, || history(40), n, |specs: &Vec<OpSpec>| {
        check_history(c, specs, &cfg, &OPTS, "ops")
    });
    let cfg2 = cfg_adv();
    let n2 = c.tier.pick(2_000, 50_000);
    run_proptest("ops", 102, || history(c.tier.pick(80, 200)), n2, |specs: &Vec<OpSpec>| {
        check_history(c, specs, &cfg2, &OPTS, "ops")
    });
}

pub fn replay(kind: &str, case: &Value) -> Option<CaseResult> {
    match kind {
        "ops" => {
            let ops: Vec<Op> = serde_json::from_value(case.clone()).ok()?;
            Some(run_ops(&ops, &OPTS))
        },
        _ => None,
    }
}
