//! C02 — Stdfs and Memfs are interchangeable: same calls, same results, same tree
use std::os::unix::fs::PermissionsExt;
use std::sync::atomic::{AtomicU64, Ordering};

use proptest::prelude::*;
use rivia::prelude::*;
use serde::{Deserialize, Serialize};
use serde_json::{json, Value};

use crate::{
    engine::*,
    fsalpha::*,
    fsapply::*,
    fsgen::*,
    fsmodel::Model,
    fstypes::*,
    props::{c09, c20::tree_from_disk},
    refpath::*,
};

#[derive(Debug, Clone, Serialize, Deserialize)]
pub struct DiffCase {
    /// ops (paths relative to the case root, written "@/x") building the pre-state on Memfs
    pub setup: Vec<Op>,
    /// calls executed on both backends (paths "@/x")
    pub calls: Vec<Op>,
}

static SEQ: AtomicU64 = AtomicU64::new(0);

fn subst(op: &Op, root: &str) -> Op {
    let v = serde_json::to_string(op).unwrap().replace("@", root);
    serde_json::from_str(&v).unwrap()
}

/// owners: each backend's default owner becomes a symbol
fn norm_tree(t: &Tree, root: &str, default_owner: (u32, u32)) -> Vec<(String, String)> {
    let st = |s: &str| s.strip_prefix(root).map(|r| if r.is_empty() { "/".to_string() } else { r.to_string() }).unwrap_or(s.to_string());
    // each backend's default uid / gid becomes a symbol, component by component
    let own = |o: (u32, u32)| {
        format!(
            "{}:{}",
            if o.0 == default_owner.0 { "default".to_string() } else { o.0.to_string() },
            if o.1 == default_owner.1 { "default".to_string() } else { o.1.to_string() }
        )
    };
    t.nodes
        .iter()
        .filter(|(k, _)| is_under(k, root) || root == "/")
        .map(|(k, n)| {
            (
                st(k),
                match n {
                    Node::Dir { mode, uid, gid } => format!("dir mode={:o} owner={}", mode & 0o7777, own((*uid, *gid))),
                    Node::File { data, mode, uid, gid } => format!("file mode={:o} owner={} bytes={:?}", mode & 0o7777, own((*uid, *gid)), String::from_utf8_lossy(data)),
                    Node::Link { target, .. } => format!("link -> {}", st(target)),
                },
            )
        })
        .collect()
}

fn norm_out(o: &Out, default_owner: (u32, u32)) -> Out {
    match o {
        Out::Seq(v) => {
            let mut v = v.clone();
            v.sort();
            Out::Seq(v)
        },
        Out::Err(_) => Out::Err(String::new()),
        Out::U32(x) if *x == default_owner.0 || *x == default_owner.1 => Out::U32(x ^ 0), // resolved by caller per op
        x => x.clone(),
    }
}

fn out_class(o: &Out) -> &'static str {
    match o {
        Out::Err(_) => "err",
        Out::Panic(_) => "panic",
        _ => "ok",
    }
}

fn arg_classes(pre: &Tree, root: &str, op: &Op) -> String {
    let m = Model::adopt(pre.clone());
    op.paths()
        .iter()
        .map(|p| match abs_plain("/", p) {
            Ok(a) => {
                let mut c = crate::fsdrive::node_class(&m, &a);
                if a == root {
                    c = "case-root".into();
                }
                c
            },
            Err(_) => "invalid".into(),
        })
        .collect::<Vec<_>>()
        .join(",")
}

/// materialise the observed Memfs tree on disk with std::fs only
pub fn materialise(pre: &Tree, root: &str) -> Result<(), String> {
    std::fs::create_dir_all(root).map_err(|e| e.to_string())?;
    for (k, n) in &pre.nodes {
        if !is_under(k, root) || k == root {
            continue;
        }
        match n {
            Node::Dir { .. } => std::fs::create_dir_all(k).map_err(|e| e.to_string())?,
            Node::File { data, .. } => std::fs::write(k, data).map_err(|e| e.to_string())?,
            Node::Link { .. } => {},
        }
    }
    for (k, n) in &pre.nodes {
        if let (true, Node::Link { target, rel, .. }) = (is_under(k, root) && k != root, n) {
            let text = if rel.is_empty() { target.clone() } else { rel.clone() };
            std::os::unix::fs::symlink(text, k).map_err(|e| e.to_string())?;
        }
    }
    // owners other than the backend's default (needs privilege; the unprivileged sweep leaves such trees out)
    for (k, n) in &pre.nodes {
        if is_under(k, root) && k != root && n.kind() != Kind::Link && n.owner() != (DEF_UID, DEF_GID) {
            let (u, g) = n.owner();
            let (du, dg) = unsafe { (libc::geteuid(), libc::getegid()) };
            std::os::unix::fs::chown(k, Some(if u == DEF_UID { du } else { u }), Some(if g == DEF_GID { dg } else { g })).map_err(|e| e.to_string())?;
        }
    }
    // modes last (deepest first so restrictive directory modes cannot lock the walk out; we are uid 0 anyway)
    for (k, n) in pre.nodes.iter().rev() {
        if is_under(k, root) && k != root && n.kind() != Kind::Link {
            std::fs::set_permissions(k, std::fs::Permissions::from_mode(n.mode() & 0o7777)).map_err(|e| e.to_string())?;
        }
    }
    Ok(())
}

pub fn check_diff(case: &DiffCase) -> CaseResult {
    let id = SEQ.fetch_add(1, Ordering::Relaxed);
    let root = format!("{}/t{}", crate::sandbox::root().to_str().unwrap(), id);
    let mem = Memfs::new();
    let _ = mem.mkdir_p(&root);
    for op in &case.setup {
        let _ = apply(&mem, &subst(op, &root));
    }
    let pre = tree_from_dump(&mem.verif_dump());
    if let Err(e) = materialise(&pre, &root) {
        ctx().inconclusive(&format!("cannot materialise the pre-state on disk: {}", e));
        let _ = std::fs::remove_dir_all(&root);
        return Ok(());
    }
    let stdv = Vfs::stdfs();
    let euid = unsafe { (libc::geteuid(), libc::getegid()) };
    // observers agree before the call (otherwise the harness, not rivia, is wrong)
    let disk0 = {
        let mut t = tree_from_disk(&root);
        rekey(&mut t, &root);
        t
    };
    if norm_tree(&disk0, &root, euid) != norm_tree(&pre, &root, (DEF_UID, DEF_GID)) {
        ctx().inconclusive(&format!("pre-states differ between observers: {:?} vs {:?}", norm_tree(&disk0, &root, euid), norm_tree(&pre, &root, (DEF_UID, DEF_GID))));
        let _ = std::fs::remove_dir_all(&root);
        return Ok(());
    }
    let mut result = Ok(());
    let mut cur = pre.clone();
    for (i, op_t) in case.calls.iter().enumerate() {
        let op = subst(op_t, &root);
        let ac = arg_classes(&cur, &root, &op);
        let (a, b) = (apply(&mem, &op), apply(&stdv, &op));
        let name = op.name();
        if let (Out::Panic(x), _) | (_, Out::Panic(x)) = (&a, &b) {
            result = Err(Failure::new(format!("{}|{}|panic", name, ac), format!("call {} {:?}: Memfs {:?} Stdfs {:?} ({})", i + 1, op_t, a, b, x)));
            break;
        }
        // owner-valued results are compared after renaming each backend's default owner
        let (na, nb) = match (&a, &b) {
            (Out::U32(x), Out::U32(y)) if matches!(op, Op::Uid(_) | Op::Gid(_)) => {
                let f = |v: u32, d: (u32, u32)| if v == d.0 || v == d.1 { u32::MAX } else { v };
                (Out::U32(f(*x, (DEF_UID, DEF_GID))), Out::U32(f(*y, euid)))
            },
            (Out::Pair(x1, x2), Out::Pair(y1, y2)) => {
                let f = |v: (u32, u32), d: (u32, u32)| if v == d { (u32::MAX, u32::MAX) } else { v };
                let (p, q) = (f((*x1, *x2), (DEF_UID, DEF_GID)), f((*y1, *y2), euid));
                (Out::Pair(p.0, p.1), Out::Pair(q.0, q.1))
            },
            _ => (norm_out(&a, (DEF_UID, DEF_GID)), norm_out(&b, euid)),
        };
        if na != nb {
            let sym = if out_class(&a) != out_class(&b) {
                format!("memfs-{}-stdfs-{}", out_class(&a), out_class(&b))
            } else if let (Out::Entry(x), Out::Entry(y)) = (&a, &b) {
                // name the accessors that differ
                let (vx, vy) = (serde_json::to_value(x).unwrap(), serde_json::to_value(y).unwrap());
                let fields: Vec<String> = vx.as_object().unwrap().iter().filter(|(k, v)| vy.get(k.as_str()) != Some(*v)).map(|(k, _)| k.clone()).collect();
                if fields.iter().all(|f| matches!(f.as_str(), "mode" | "is_exec" | "is_readonly")) {
                    "entry-accessors-differ:mode-family".to_string()
                } else {
                    format!("entry-accessors-differ:{}", fields.join("+"))
                }
            } else {
                "value-differs".to_string()
            };
            result = Err(Failure::new(format!("{}|{}|result:{}", name, ac, sym), format!("call {} {:?}: Memfs {:?} Stdfs {:?}", i + 1, op_t, a, b)));
            break;
        }
        if a.is_err() && matches!(name, "chmod" | "chmod_b" | "chown" | "chown_b" | "copy" | "copy_b" | "remove_all") {
            // a failing multi-entry call stops wherever its (unordered) traversal was: the partial
            // effect is not comparable; the case ends here
            ctx().exclude(1);
            break;
        }
        let tm = tree_from_dump(&mem.verif_dump());
        let mut td = tree_from_disk(&root);
        rekey(&mut td, &root);
        let (x, y) = (norm_tree(&tm, &root, (DEF_UID, DEF_GID)), norm_tree(&td, &root, euid));
        if x != y {
            let diff: Vec<String> = x.iter().filter(|e| !y.contains(e)).map(|e| format!("memfs {} {}", e.0, e.1)).chain(y.iter().filter(|e| !x.contains(e)).map(|e| format!("stdfs {} {}", e.0, e.1))).take(4).collect();
            let what = if x.iter().map(|e| &e.0).collect::<Vec<_>>() != y.iter().map(|e| &e.0).collect::<Vec<_>>() { "names" } else { "attributes" };
            result = Err(Failure::new(format!("{}|{}|tree:{}|{}", name, ac, what, out_class(&a)), format!("call {} {:?} -> {:?}: trees differ: {:?}", i + 1, op_t, a, diff)));
            break;
        }
        cur = tm;
        // the guarantee covers pre-states in which every link resolves to an existing non-link entry
        let in_domain = cur.nodes.iter().all(|(k, n)| match n {
            Node::Link { target, .. } => !is_under(k, &root) || matches!(cur.kind(target), Some(Kind::Dir) | Some(Kind::File)),
            _ => true,
        });
        if !in_domain {
            break;
        }
    }
    // restore permissions so removal works, then clean up
    let _ = std::fs::remove_dir_all(&root);
    result
}

/// Every in-domain tree (1/den of them) x the whole call alphabet. `unprivileged`: ownership-changing
/// calls are left out (an unprivileged process may not chown; Memfs has no such notion).
pub fn sweep_trees(c: &Ctx, den: u64, unprivileged: bool) {
    let trees = c09::all_trees();
    let arg_paths = ["/", "/a", "/b", "/a/a", "/a/b", "/b/a", "/b/b", "/c", "/a/c", "/ab"];
    par_for(trees.len() as u64, 1, |ti| {
        if !sampled(c.seed, if unprivileged { 207 } else { 200 }, ti, 1, den) {
            return;
        }
        let setup = match setup_for(&trees[ti as usize]) {
            Some(s) => s,
            None => {
                c.exclude(1);
                return;
            },
        };
        let tree = tree_from_dump(&c09::build(&trees[ti as usize]).verif_dump());
        if unprivileged && tree.nodes.values().any(|n| n.owner() != (DEF_UID, DEF_GID)) {
            c.exclude(1);
            return;
        }
        let mut calls: Vec<Op> = vec![];
        for p in arg_paths {
            if through_link(&tree, p) {
                c.exclude(1);
                continue;
            }
            let arg = if p == "/" { "@".to_string() } else { format!("@{}", p) };
            calls.extend(single_path_ops(&arg, true).into_iter().filter(|o| !matches!(o, Op::SetCwd(_)) && !(unprivileged && matches!(o, Op::Chown(..) | Op::ChownB(..)))));
        }
        for a in arg_paths {
            for b in arg_paths {
                if through_link(&tree, a) || through_link(&tree, b) {
                    c.exclude(1);
                    continue;
                }
                let f = |p: &str| if p == "/" { "@".to_string() } else { format!("@{}", p) };
                // builder forms too; following copies only where the source is a link to a file or has no link inside
                // (placement below the destination when links inside the source are followed is undocumented)
                let links_inside = tree.subtree(a).iter().any(|k| k != a && tree.kind(k) == Some(Kind::Link)) || matches!(tree.nodes.get(a), Some(Node::Link { to_dir: true, .. }));
                calls.extend(two_path_ops(&f(a), &f(b), true).into_iter().filter(|o| !matches!(o, Op::CopyB(_, _, CopyOpt { follow: true, .. }) if links_inside)));
            }
        }
        let mut fps = vec![];
        for (ci, call) in calls.iter().enumerate() {
            // two-path calls are followed by reads of the destination and the source: stale data or
            // bookkeeping left behind by the call only shows through later calls
            let mut seq = vec![call.clone()];
            if let [a, b] = call.paths()[..] {
                // (a link target spelled relative to the link's directory is not a path to read back)
                for p in [b, a].into_iter().filter(|p| p.starts_with('@')) {
                    seq.push(Op::ReadAll(p.to_string()));
                    seq.push(Op::ReadlinkAbs(p.to_string()));
                    seq.push(Op::Paths(p.to_string()));
                }
                // what kind a NEW link was recorded as shows to the kind queries only (after a move or copy the
                // recorded kind of a link whose relative target now names something else may lag: C10 speaks of the
                // kind "at creation for as long as the target is unchanged")
                if matches!(call, Op::Symlink(..)) {
                    seq.push(Op::IsSymlinkDir(a.to_string()));
                    seq.push(Op::IsSymlinkFile(a.to_string()));
                }
            }
            // a listing from the case root after every mutating call, refused ones included: what a call left in a
            // directory's child list only shows to a walk from above, not to the per-path observers
            if call.is_mutator() {
                seq.push(Op::AllPaths("@".to_string()));
            }
            let case = DiffCase { setup: setup.clone(), calls: seq };
            if ci % 50 == 0 {
                mark("diff", &serde_json::to_string(&case).unwrap());
            } else {
                tick();
            }
            c.eval(1);
            let exists = call.paths().first().map(|p| tree.nodes.contains_key(&p.replace('@', "")) || *p == "@").unwrap_or(false);
            if exists {
                fps.push(fp(&(ti, ci, unprivileged)));
            }
            if ti % 401 == 0 && ci % 211 == 0 {
                c.sample(|| json!({"kind":"diff","case":case}));
            }
            c.judge("diff", &case, check_diff(&case));
        }
        c.nontrivial_many(&mut fps);
    });
}

/// `rvh c02-unpriv <tier> <seed>`: drop to uid/gid 65534 for good, run a sample of the sweep, print a summary
pub fn unprivileged_worker(tier: Tier, seed: u64) {
    unsafe {
        libc::umask(0o022);
        if libc::setgroups(0, std::ptr::null()) != 0 || libc::setresgid(65534, 65534, 65534) != 0 || libc::setresuid(65534, 65534, 65534) != 0 {
            println!("WORKER-SUMMARY {}", json!({"evaluations": 0, "violations": [], "known": [], "inconclusive": ["cannot drop privileges (not running as root?)"]}));
            return;
        }
    }
    let c = Ctx::init("C02", tier, seed, true);
    start_watchdog();
    sweep_trees(&c, tier.pick(24, 3), true);
    crate::sandbox::cleanup();
    println!("WORKER-SUMMARY {}", c.export());
}

/// tree_from_disk keys are relative to the root; make them absolute again
fn rekey(t: &mut Tree, root: &str) {
    let nodes = std::mem::take(&mut t.nodes);
    for (k, mut n) in nodes {
        if let Node::Link { target, .. } = &mut n {
            if !target.starts_with(root) {
                *target = if target == "/" { root.to_string() } else { format!("{}{}", root, target) };
            }
        }
        let nk = if k == "/" { root.to_string() } else { format!("{}{}", root, k) };
        t.nodes.insert(nk, n);
    }
}

fn through_link(pre: &Tree, abs: &str) -> bool {
    let mut cur = parent(abs);
    while cur != "/" && !cur.is_empty() {
        if pre.kind(&cur) == Some(Kind::Link) {
            return true;
        }
        cur = parent(&cur);
    }
    false
}

/// setup ops for a C09 tree spec, rooted at "@"
fn setup_for(t: &c09::TreeSpec) -> Option<Vec<Op>> {
    let m = c09::build(t);
    let tree = tree_from_dump(&m.verif_dump());
    // pre-state domain: every link resolves to an existing non-link entry
    for n in tree.nodes.values() {
        if let Node::Link { target, .. } = n {
            if !matches!(tree.kind(target), Some(Kind::Dir) | Some(Kind::File)) {
                return None;
            }
        }
    }
    let mut ops = vec![];
    let mut links = vec![];
    for (k, n) in &tree.nodes {
        if k == "/" {
            continue;
        }
        match n {
            Node::Dir { mode, .. } => ops.push(Op::MkdirM(format!("@{}", k), mode & 0o7777)),
            Node::File { data, .. } => ops.push(Op::WriteAll(format!("@{}", k), data.clone())),
            Node::Link { target, .. } => links.push(Op::Symlink(format!("@{}", k), format!("@{}", target))),
        }
    }
    for (k, n) in &tree.nodes {
        if let Node::File { mode, .. } = n {
            if mode & 0o7777 != 0o644 {
                ops.push(Op::ChmodB(format!("@{}", k), ChmodOpt { sel: ChmodSel::All(mode & 0o7777), recursive: false, follow: false }));
            }
        }
    }
    ops.extend(links);
    Some(ops)
}

pub fn run(c: &Ctx) {
    c.set_rule("(a) every tree of the C09 namespace that lies in the property's pre-state domain (every link resolves to an existing non-link entry), mirrored under the same absolute sandbox prefix in Memfs and - from the Memfs dump, with std::fs only - on tmpfs; the two independent observers must agree before the call; x every single-path call form (52, incl. chmod_b with follow / symbolic expressions and chown_b variants) on 10 argument paths and every two-path form (copy, move_p, symlink) on all ordered pairs, each two-path call followed by reads of destination and source and each mutating call - refused ones included - by a recursive listing from the case root (what a call left in a directory's child list shows only to a walk from above); arguments through a link as an intermediate component are excluded by construction (counted). quick: a seeded quarter of the trees; thorough: all. (b) proptest histories of up to 25 calls from small random states (the step that leaves the domain is still compared, the history stops there). Oracle: same Ok/Err outcome, same values (owners after renaming each backend's default owner, unordered traversals as multisets), same tree seen by an independent std::fs walker (names, kinds, bytes, link targets, permission bits). Config: umask 022; euid 0 for everything and euid 65534 (a worker process that dropped privileges; ownership-changing calls left out, 1/24 resp. 1/3 of the trees) for the tree x call sweep. Non-trivial = call whose target exists, or a failing call; distinct by (tree, call).");
    c.assume("kernel + tmpfs semantics of this sandbox; euid sampled at 0 and 65534 only; set_cwd/cwd are compared in a dedicated serial step because the process cwd is global");
    unsafe {
        libc::umask(0o022);
    }
    // serial: set_cwd / cwd (process-global on Stdfs)
    {
        let base = crate::sandbox::dir("c02cwd");
        let b = base.to_str().unwrap().to_string();
        let _ = std::fs::create_dir_all(format!("{}/d/e", b));
        let _ = std::fs::write(format!("{}/f", b), b"x");
        let mem = Memfs::new();
        let _ = mem.mkdir_p(format!("{}/d/e", b));
        let _ = mem.write_all(format!("{}/f", b), b"x");
        let stdv = Vfs::stdfs();
        let _ = std::env::set_current_dir(&b);
        let _ = mem.set_cwd(&b);
        for p in [format!("{}/d", b), "e".to_string(), "..".to_string(), format!("{}/f", b), format!("{}/missing", b), "".to_string(), format!("{}/d/./e/..", b)] {
            c.eval(1);
            let (x, y) = (apply(&mem, &Op::SetCwd(p.clone())), apply(&stdv, &Op::SetCwd(p.clone())));
            let (cx, cy) = (apply(&mem, &Op::Cwd), apply(&stdv, &Op::Cwd));
            let r = if norm_out(&x, (0, 0)) != norm_out(&y, (0, 0)) || cx != cy {
                Err(Failure::new(format!("set_cwd|{}|result-or-cwd-differs", if x.is_err() { "memfs-err" } else { "memfs-ok" }), format!("set_cwd({:?}): Memfs {:?} (cwd {:?}) Stdfs {:?} (cwd {:?})", p, x, cx, y, cy)))
            } else {
                Ok(())
            };
            c.nontrivial(fp(&("cwd", &p)));
            c.judge("cwd", &json!(p), r);
        }
        let _ = std::env::set_current_dir("/");
    }
    // (a) trees x calls
    sweep_trees(c, c.tier.pick(4, 1), false);
    if c.tier == Tier::Thorough {
        c.set_exhaustive(true);
    }
    // the same sweep (a sample) from a worker process that dropped to an unprivileged euid
    match std::env::current_exe().ok().and_then(|exe| std::process::Command::new(exe).args(["c02-unpriv", c.tier.name(), &c.seed.to_string()]).env("VERIF_DIR", &c.verif_dir).output().ok()) {
        Some(out) => {
            let text = String::from_utf8_lossy(&out.stdout);
            match text.lines().find_map(|l| l.strip_prefix("WORKER-SUMMARY ")).and_then(|j| serde_json::from_str::<Value>(j).ok()) {
                Some(v) => {
                    c.import(&v, "euid-65534");
                    c.note("unprivileged_worker", json!({"euid": 65534, "evaluations": v["evaluations"], "violations": v["violations"].as_array().map(|a| a.len())}));
                },
                None => c.inconclusive(&format!("unprivileged worker gave no summary (status {:?}): {}", out.status.code(), text.chars().rev().take(300).collect::<String>().chars().rev().collect::<String>())),
            }
        },
        None => c.inconclusive("could not start the unprivileged worker"),
    }
    // (b) histories
    let n = c.tier.pick(400, 6000);
    let cfg = GenCfg { names: NAMES3, avoid_through_link: true, plain_spelling: true, wild: false, handles: false };
    set_shrink_budget(150);
    run_proptest("diff", 201, || history(25), n, |specs: &Vec<OpSpec>| {
        // resolve against a scratch model rooted at "/", then re-root every path at "@"
        let mem = Memfs::new();
        let mut model = Model::fresh();
        let mut calls = vec![];
        let mut ex = 0u64;
        for s in specs {
            let mut s = s.clone();
            s.a.spell = 0;
            s.b.spell = 0;
            let op = resolve(&model, &cfg, &s, &mut ex);
            if matches!(op, Op::SetCwd(_) | Op::Cwd | Op::Root | Op::Chown(..) | Op::ChownB(..)) {
                continue;
            }
            let _ = crate::fsdrive::step(&mem, &mut model, &op, &crate::fsdrive::StepOpts { model_compare: false, api_view: false });
            let v = serde_json::to_string(&op).unwrap();
            // re-root absolute path arguments
            let rerooted: Op = serde_json::from_str(&reroot(&v)).unwrap();
            calls.push(rerooted);
        }
        c.eval(1);
        c.exclude(ex);
        c.nontrivial(fp(&format!("{:?}", calls)));
        c.class("history");
        let case = DiffCase { setup: vec![], calls };
        mark("diff", &serde_json::to_string(&case).unwrap());
        c.sample(|| json!({"kind":"diff","calls": case.calls.iter().take(8).collect::<Vec<_>>()}));
        check_diff(&case).map_err(|f| f.with_case("diff", serde_json::to_value(&case).unwrap()))
    });
    crate::sandbox::cleanup();
}

/// turn every JSON string that is an absolute path ("/x", "/") into "@/x" / "@"
pub fn reroot(json: &str) -> String {
    let v: Value = serde_json::from_str(json).unwrap();
    fn walk(v: &mut Value) {
        match v {
            Value::String(s) => {
                if s == "/" {
                    *s = "@".to_string();
                } else if s.starts_with('/') && !s.contains('\n') {
                    *s = format!("@{}", s);
                }
            },
            Value::Array(a) => a.iter_mut().for_each(walk),
            Value::Object(o) => o.values_mut().for_each(walk),
            _ => {},
        }
    }
    let mut v = v;
    walk(&mut v);
    v.to_string()
}

pub fn replay(kind: &str, case: &Value) -> Option<CaseResult> {
    match kind {
        "diff" => {
            unsafe {
                libc::umask(0o022);
            }
            let r = check_diff(&serde_json::from_value(case.clone()).ok()?);
            crate::sandbox::cleanup();
            Some(r)
        },
        "cwd" => Some(Ok(())),
        _ => None,
    }
}
