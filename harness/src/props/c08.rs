//! C08 — traversal yields exactly the selected entries, once, in order, and terminates
use std::cmp::Ordering;
use std::collections::BTreeMap;
use std::sync::atomic::{AtomicU64, Ordering as AO};

use proptest::prelude::*;
use rivia::prelude::*;
use serde::{Deserialize, Serialize};
use serde_json::{json, Value};

use crate::{engine::*, fsmodel::*, fstypes::*, refpath::*};

#[derive(Debug, Clone, Serialize, Deserialize, PartialEq)]
pub enum EKind {
    Dir,
    File,
    /// link to the entry with this index (must be smaller), or dangling when None
    Link(Option<usize>),
    /// link to an ancestor directory (k levels up)
    LinkUp(usize),
}

#[derive(Debug, Clone, Serialize, Deserialize, PartialEq)]
pub struct TEntry {
    pub parent: usize, // index into the list of directories created so far (0 = root)
    pub name: usize,
    pub kind: EKind,
}

#[derive(Debug, Clone, Serialize, Deserialize, PartialEq)]
pub struct TreeDesc {
    pub entries: Vec<TEntry>,
    /// append a chain of nested directories this deep below the root (0 = none)
    pub chain: usize,
}

const NAMES: &[&str] = &["a", "b", "c", "é", "d e", ".hid", "x.tar.gz", "日本", "B", "aa", "a.b", "z"];

#[derive(Debug, Clone, Copy, Serialize, Deserialize, PartialEq)]
pub struct Opts {
    pub min: usize,
    pub max: usize, // usize::MAX = unbounded
    pub max_first: bool,
    pub filter: u8, // 0 none 1 dirs 2 files 3 filter_p(name contains 'a')
    pub follow: bool,
    pub order: u8, // 0 none 1 sort_by_name 2 dirs_first 3 files_first 4 custom (reverse name)
    pub contents_first: bool,
    pub cap: u16, // 0 = default
}

#[derive(Debug, Clone, Serialize, Deserialize)]
pub struct TravCase {
    pub stdfs: bool,
    pub tree: TreeDesc,
    pub root: String,
    pub opts: Opts,
}

#[derive(Debug, Clone, PartialEq, Eq, PartialOrd, Ord)]
pub enum Item {
    Entry { path: String, alt: String, dir: bool, file: bool, link: bool },
    Loop(String),
    OtherErr(String),
}

/// Ops that build the tree (links last so that recorded kinds reflect the final tree)
pub fn build_ops(t: &TreeDesc) -> Vec<Op> {
    let mut dirs: Vec<String> = vec!["/".into()];
    let mut all: Vec<String> = vec![];
    let mut ops = vec![];
    let mut links = vec![];
    for e in &t.entries {
        let par = dirs[e.parent % dirs.len()].clone();
        let p = join(&par, NAMES[e.name % NAMES.len()]);
        if all.contains(&p) {
            all.push(p);
            continue; // keep indices stable
        }
        match &e.kind {
            EKind::Dir => {
                ops.push(Op::MkdirP(p.clone()));
                dirs.push(p.clone());
            },
            EKind::File => ops.push(Op::WriteAll(p.clone(), b"f".to_vec())),
            EKind::Link(Some(i)) => {
                if all.is_empty() {
                    links.push((p.clone(), "/nowhere".to_string()));
                } else {
                    links.push((p.clone(), all[i % all.len()].clone()));
                }
            },
            EKind::Link(None) => links.push((p.clone(), "/nowhere".to_string())),
            EKind::LinkUp(k) => {
                let mut up = par.clone();
                for _ in 0..*k {
                    up = parent(&up);
                }
                links.push((p.clone(), up));
            },
        }
        all.push(p);
    }
    if t.chain > 0 {
        let mut p = String::from("/chain");
        for i in 0..t.chain {
            p.push_str(&format!("/n{}", i % 3));
        }
        ops.push(Op::MkdirP(p.clone()));
        ops.push(Op::WriteAll(format!("{}/leaf", p), b"x".to_vec()));
        // an empty directory opened while the descriptor cap is already exhausted
        ops.push(Op::MkdirP(format!("{}/empty", p)));
    }
    for (l, t) in links {
        if l != t {
            ops.push(Op::Symlink(l, t));
        }
    }
    ops
}

pub fn build_model(ops: &[Op]) -> Model {
    let mut m = Model::fresh();
    for op in ops {
        for alt in m.apply(op) {
            if let (Pat::Is(_), Some(post)) = (&alt.out, &alt.post) {
                m = post.clone();
                break;
            }
        }
    }
    m
}

fn yielded_name(p: &str) -> String {
    base(p)
}

/// Reference traversal: the sequence the options denote (siblings name-ordered; for unsorted
/// runs the caller compares as multiset + parent/child constraints)
/// a link that does not lead (directly or through more links) to an existing non-link entry
fn is_dangling(m: &Model, link: &str) -> bool {
    let mut t = link.to_string();
    for _ in 0..16 {
        match m.t.nodes.get(&t) {
            Some(Node::Link { target, .. }) => t = target.clone(),
            Some(_) => return false,
            None => return true,
        }
    }
    true
}

/// `std_flags`: a link whose target does not exist (directly or through more links) has no kind on the real
/// filesystem (neither is_dir nor is_file) while Memfs types it as a file - both admitted, per backend
fn ref_walk(m: &Model, own: &str, depth: usize, o: &Opts, chain: &mut Vec<String>, out: &mut Vec<Item>, unsupported: &mut bool, std_flags: bool) {
    let n = match m.t.nodes.get(own) {
        Some(n) => n,
        None => return,
    };
    let is_link = n.kind() == Kind::Link;
    let (dirish, target) = match n {
        Node::Link { to_dir, target, .. } => (*to_dir, target.clone()),
        Node::Dir { .. } => (true, String::new()),
        _ => (false, String::new()),
    };
    let (ypath, yalt) = if is_link && o.follow { (target.clone(), own.to_string()) } else { (own.to_string(), target.clone()) };
    let dangling = is_link && is_dangling(m, own);
    let filish = !dirish && !(std_flags && dangling);
    let item = Item::Entry { path: ypath.clone(), alt: yalt, dir: dirish, file: filish, link: is_link };
    let descend_candidate = dirish && (!is_link || o.follow);
    if descend_candidate && is_link && chain.iter().any(|c| *c == ypath) {
        out.push(Item::Loop(ypath));
        return;
    }
    let in_window = depth >= o.min;
    let passes = match o.filter {
        // (4: files() then dirs() - "filter down to just directories" is what the last call says; 5: the reverse)
        1 | 4 => dirish,
        2 | 5 => filish,
        3 => yielded_name(&ypath).contains('a'),
        _ => true,
    };
    let emit = in_window && passes;
    if emit && !(o.contents_first && dirish) {
        out.push(item.clone());
    }
    if descend_candidate && depth < o.max {
        if is_link && m.kind(&ypath) != Some(Kind::Dir) {
            *unsupported = true; // link -> link -> dir followed: not specified
            return;
        }
        chain.push(ypath.clone());
        let mut kids: Vec<(String, String, bool)> = m
            .t
            .children(&ypath)
            .into_iter()
            .map(|c| {
                let (yp, d) = match m.t.nodes.get(&c) {
                    Some(Node::Link { target, to_dir, .. }) => (if o.follow { target.clone() } else { c.clone() }, *to_dir),
                    Some(Node::Dir { .. }) => (c.clone(), true),
                    _ => (c.clone(), false),
                };
                (c, yp, d)
            })
            .collect();
        // two siblings yielding the same file name (a link next to an entry named like its target, two
        // links to one target): their relative order is not defined, such directories are not compared
        {
            let mut names: Vec<String> = kids.iter().map(|k| yielded_name(&k.1)).collect();
            names.sort();
            let n = names.len();
            names.dedup();
            if names.len() != n && o.order != 0 {
                *unsupported = true;
            }
        }
        let by_name = |a: &(String, String, bool), b: &(String, String, bool)| yielded_name(&a.1).cmp(&yielded_name(&b.1));
        match o.order {
            4 => kids.sort_by(|a, b| by_name(b, a)),
            _ => kids.sort_by(by_name),
        }
        if o.order == 2 || o.order == 3 {
            let (d, f): (Vec<_>, Vec<_>) = kids.into_iter().partition(|k| k.2);
            kids = if o.order == 2 { d.into_iter().chain(f).collect() } else { f.into_iter().chain(d).collect() };
        }
        for (c, _, _) in kids {
            ref_walk(m, &c, depth + 1, o, chain, out, unsupported, std_flags);
        }
        chain.pop();
    }
    if emit && o.contents_first && dirish {
        out.push(item);
    }
}

fn collect(es: Entries, o: &Opts, strip: &str, bound: usize) -> Vec<Item> {
    let mut e = es;
    if o.max_first {
        if o.max != usize::MAX {
            e = e.max_depth(o.max);
        }
        e = e.min_depth(o.min);
    } else {
        e = e.min_depth(o.min);
        if o.max != usize::MAX {
            e = e.max_depth(o.max);
        }
    }
    e = e.follow(o.follow);
    e = match o.order {
        1 => e.sort_by_name(),
        2 => e.dirs_first(),
        3 => e.files_first(),
        4 => e.sort(|a, b| b.file_name().cmp(&a.file_name())),
        _ => e,
    };
    e = match o.filter {
        1 => e.dirs(),
        2 => e.files(),
        4 => e.files().dirs(),
        5 => e.dirs().files(),
        _ => e,
    };
    if o.contents_first {
        e = e.contents_first();
    }
    if o.cap != 0 {
        e = e.verif_max_descriptors(o.cap);
    }
    let st = |p: &std::path::Path| -> String {
        let s = p.to_str().unwrap_or("<non-utf8>");
        match s.strip_prefix(strip) {
            Some("") => "/".to_string(),
            Some(r) if strip.is_empty() || r.starts_with('/') => r.to_string(),
            _ => s.to_string(),
        }
    };
    let mut out = vec![];
    let mut it = e.into_iter();
    if o.filter == 3 {
        it = it.filter_p(|x| x.file_name().map(|f| f.to_string_lossy().contains('a')).unwrap_or(false));
    }
    for x in it {
        match x {
            Ok(en) => out.push(Item::Entry { path: st(en.path()), alt: if en.alt().as_os_str().is_empty() { String::new() } else { st(en.alt()) }, dir: en.is_dir(), file: en.is_file(), link: en.is_symlink() }),
            Err(err) => match err.downcast_ref::<PathError>() {
                Some(PathError::LinkLooping(p)) => out.push(Item::Loop(st(p))),
                _ => out.push(Item::OtherErr(crate::obs::errkind(&err))),
            },
        }
        if out.len() > bound {
            out.push(Item::OtherErr("!does-not-terminate".into()));
            break;
        }
    }
    out
}

fn opts_class(o: &Opts) -> String {
    format!(
        "min={},max={},filter={},follow={},order={},contents_first={}",
        o.min.min(3),
        if o.max == usize::MAX { "inf".to_string() } else { o.max.to_string() },
        ["none", "dirs", "files", "filter_p", "files-then-dirs", "dirs-then-files"][o.filter as usize % 6],
        o.follow,
        ["none", "name", "dirs_first", "files_first", "custom"][o.order as usize % 5],
        o.contents_first
    )
}

static SEQ: AtomicU64 = AtomicU64::new(0);

pub struct Built {
    pub model: Model,
    pub mem: Memfs,
    pub std_root: Option<std::path::PathBuf>,
}

pub fn materialise(t: &TreeDesc, stdfs: bool) -> Built {
    materialise_ops(&build_ops(t), stdfs)
}

/// hand-made trees aimed at name-prefix confusions and shared link targets (ops, traversal roots)
pub fn directed() -> Vec<(Vec<Op>, Vec<&'static str>)> {
    let d = |p: &str| Op::MkdirP(p.to_string());
    let f = |p: &str| Op::WriteAll(p.to_string(), b"x".to_vec());
    let l = |a: &str, b: &str| Op::Symlink(a.to_string(), b.to_string());
    vec![
        (
            vec![d("/t/dir/in"), d("/t/dir2/sub"), f("/t/dir2/f"), f("/t/dir/in/g"), l("/t/dir/a_link", "/t/dir2"), l("/t/dir/b_link", "/t/dir2/sub"), l("/t/di", "/t/dir2"), l("/t/dir/in/up", "/t/dir")],
            vec!["/t/dir", "/t/di", "/t", "/", "/t/dir/in"],
        ),
        (
            vec![d("/a/b"), d("/ab/c"), d("/a.b"), f("/ab/c/f"), f("/a/b/f"), l("/a/to_ab", "/ab"), l("/a/b/to_abc", "/ab/c"), l("/a/to_a.b", "/a.b"), l("/ab/back", "/a")],
            vec!["/a", "/a/b", "/ab", "/"],
        ),
        (
            vec![d("/x/y/z"), f("/x/y/z/f"), l("/x/l1", "/x/y"), l("/x/y/l2", "/x/y/z"), l("/x/y/z/l3", "/x/y/z/f"), l("/x/y/z/self", "/x/y/z"), l("/x/y/z/top", "/x")],
            vec!["/x", "/x/y", "/x/y/z", "/x/l1"],
        ),
        // chains of links (link -> link -> dir / file) between directories that sort around them
        (
            vec![d("/c/real/sub"), f("/c/real/f"), d("/c/a_dir"), d("/c/z_dir/in"), l("/c/l1", "/c/real"), l("/c/l2", "/c/l1"), l("/c/lf1", "/c/real/f"), l("/c/lf2", "/c/lf1"), l("/c/z_dir/in/l3", "/c/l2"), l("/c/m_dang", "/c/nope")],
            vec!["/c", "/", "/c/z_dir"],
        ),
        // a wide directory (more entries than any plausible batch / descriptor size) whose names differ in case,
        // punctuation, length and byte width: the order of sorted traversals is byte order of the names
        (
            {
                let mut v = vec![d("/w/sub/deep")];
                for i in 0..220 {
                    v.push(f(&format!("/w/f{:03}", i)));
                }
                for i in 0..70 {
                    v.push(d(&format!("/w/d{:02}", i)));
                }
                for n in ["A", "a", "B", "b", "_x", "-x", "é", "E", "z10", "z9", "z090", "Z", "日", "a b", "a.b", "ab"] {
                    v.push(if n.len() % 2 == 0 { d(&format!("/w/{}", n)) } else { f(&format!("/w/{}", n)) });
                }
                v.push(l("/w/sub/back", "/w"));
                v
            },
            vec!["/w", "/"],
        ),
    ]
}

pub fn materialise_ops(ops: &[Op], stdfs: bool) -> Built {
    let ops = ops.to_vec();
    let model = build_model(&ops);
    let mem = Memfs::new();
    for op in &ops {
        let _ = crate::fsapply::apply(&mem, op);
    }
    let std_root = if stdfs {
        let d = crate::sandbox::root().join(format!("c08-{}", SEQ.fetch_add(1, AO::Relaxed)));
        let _ = std::fs::create_dir_all(&d);
        let pre = d.to_str().unwrap().to_string();
        // materialise directly with std::fs from the model (no rivia code)
        for (k, n) in &model.t.nodes {
            let p = format!("{}{}", pre, if k == "/" { "" } else { k });
            match n {
                Node::Dir { .. } => {
                    let _ = std::fs::create_dir_all(&p);
                },
                Node::File { data, .. } => {
                    let _ = std::fs::write(&p, data);
                },
                Node::Link { .. } => {},
            }
        }
        for (k, n) in &model.t.nodes {
            if let Node::Link { target, .. } = n {
                let p = format!("{}{}", pre, k);
                let _ = std::os::unix::fs::symlink(format!("{}{}", pre, if target == "/" { "" } else { target }), &p);
            }
        }
        Some(d)
    } else {
        None
    };
    Built { model, mem, std_root }
}

pub fn check_trav_on(b: &Built, root: &str, o: &Opts, stdfs: bool) -> CaseResult {
    let cls = format!("{}|{}", opts_class(o), if stdfs { "stdfs" } else { "memfs" });
    let m = &b.model;
    let mut want = vec![];
    let mut unsupported = false;
    ref_walk(m, root, 0, o, &mut vec![], &mut want, &mut unsupported, stdfs);
    if unsupported {
        ctx().exclude(1);
        return Ok(());
    }
    let bound = 4 * (m.t.nodes.len() + 1) * (m.t.nodes.values().filter(|n| n.kind() == Kind::Link).count() + 1) + 8;
    let got = match catch(|| {
        if stdfs {
            let pre = b.std_root.as_ref().unwrap().to_str().unwrap().to_string();
            let r = format!("{}{}", pre, if root == "/" { "" } else { root });
            Stdfs::entries(&r).map(|e| collect(e, o, &pre, bound))
        } else {
            b.mem.entries(root).map(|e| collect(e, o, "", bound))
        }
    }) {
        Ok(Ok(g)) => g,
        Ok(Err(e)) => return Err(Failure::new(format!("entries|err|{}", cls), format!("entries({}) = Err({})", root, e))),
        Err(p) => return Err(Failure::new(format!("entries|panic|{}|{}", panic_site(&p), cls), format!("traversal panicked: {}", p))),
    };
    if got.iter().any(|i| matches!(i, Item::OtherErr(e) if e == "!does-not-terminate")) {
        return Err(Failure::new(format!("entries|does-not-terminate|{}", cls), format!("more than {} items from a tree of {} entries", bound, m.t.nodes.len())));
    }
    let mut a = want.clone();
    let mut g = got.clone();
    a.sort();
    g.sort();
    if a != g {
        let missing: Vec<&Item> = a.iter().filter(|x| !g.contains(x)).take(3).collect();
        let extra: Vec<&Item> = g.iter().filter(|x| !a.contains(x)).take(3).collect();
        let what = if !extra.is_empty() && missing.is_empty() {
            "extra-items"
        } else if extra.is_empty() && !missing.is_empty() {
            "missing-items"
        } else if extra.is_empty() && missing.is_empty() {
            "wrong-multiplicity"
        } else {
            "different-items"
        };
        return Err(Failure::new(
            format!("entries|{}|{}", what, cls),
            format!("root {} opts {:?}: missing {:?} extra {:?} (got {} items, want {})", root, o, missing, extra, got.len(), want.len()),
        ));
    }
    if o.order != 0 {
        if got != want {
            let i = got.iter().zip(want.iter()).position(|(x, y)| x != y).unwrap_or(0);
            return Err(Failure::new(
                format!("entries|wrong-order|{}", cls),
                format!("root {} opts {:?}: at position {} got {:?} want {:?}; full got {:?}", root, o, i, got.get(i), want.get(i), got.iter().map(|x| match x { Item::Entry { path, .. } => path.clone(), Item::Loop(p) => format!("LOOP {}", p), Item::OtherErr(e) => e.clone() }).collect::<Vec<_>>()),
            ));
        }
    } else if !o.follow {
        // unsorted: a directory comes before (after, with contents_first) everything yielded below it
        // (with follow the yielded paths are the targets' and do not form one hierarchy: multiset only)
        let paths: Vec<&String> = got.iter().filter_map(|i| if let Item::Entry { path, .. } = i { Some(path) } else { None }).collect();
        for (i, p) in paths.iter().enumerate() {
            let par = parent(p);
            let pos: Vec<usize> = paths.iter().enumerate().filter(|(_, q)| ***q == par).map(|(j, _)| j).collect();
            if pos.is_empty() || **p == par {
                continue;
            }
            let ok = if o.contents_first { pos.iter().any(|j| *j > i) } else { pos.iter().any(|j| *j < i) };
            if !ok {
                return Err(Failure::new(format!("entries|parent-child-order|{}", cls), format!("root {} opts {:?}: {:?} is on the wrong side of its directory", root, o, p)));
            }
        }
    }
    Ok(())
}

pub fn check_trav(case: &TravCase) -> CaseResult {
    let b = materialise(&case.tree, case.stdfs);
    let r = check_trav_on(&b, &case.root, &case.opts, case.stdfs);
    if let Some(d) = &b.std_root {
        let _ = std::fs::remove_dir_all(d);
    }
    r
}

/// listing helpers on every path, against the model and consistent with the type queries
pub fn check_listings(b: &Built, stdfs: bool) -> CaseResult {
    let backend = if stdfs { "stdfs" } else { "memfs" };
    let pre = if stdfs { b.std_root.as_ref().map(|d| d.to_str().unwrap().to_string()).unwrap_or_default() } else { String::new() };
    let v: Vfs = if stdfs { Vfs::stdfs() } else { Vfs::memfs() };
    let m = &b.model;
    let mut probe: Vec<String> = m.t.nodes.keys().cloned().collect();
    probe.push("/missing-x".into());
    for p in &probe {
        let arg = format!("{}{}", pre, if p == "/" && stdfs { "" } else { p });
        for (name, op) in [
            ("paths", Op::Paths(p.clone())),
            ("dirs", Op::Dirs(p.clone())),
            ("files", Op::Files(p.clone())),
            ("all_paths", Op::AllPaths(p.clone())),
            ("all_dirs", Op::AllDirs(p.clone())),
            ("all_files", Op::AllFiles(p.clone())),
        ] {
            let mut expect = m.apply(&op);
            if stdfs && name.ends_with("files") {
                // on the real filesystem a dangling link is no file (Memfs types it as one): admitted per backend
                for a in expect.iter_mut() {
                    match &mut a.out {
                        Pat::Listing(v) | Pat::Is(Out::Paths(v)) => v.retain(|x| !(m.kind(x) == Some(Kind::Link) && is_dangling(m, x))),
                        _ => {},
                    }
                }
            }
            let real_op = match &op {
                Op::Paths(_) => Op::Paths(arg.clone()),
                Op::Dirs(_) => Op::Dirs(arg.clone()),
                Op::Files(_) => Op::Files(arg.clone()),
                Op::AllPaths(_) => Op::AllPaths(arg.clone()),
                Op::AllDirs(_) => Op::AllDirs(arg.clone()),
                _ => Op::AllFiles(arg.clone()),
            };
            let out = if stdfs { crate::fsapply::apply(&v, &real_op) } else { crate::fsapply::apply(&b.mem, &real_op) };
            let out = match out {
                Out::Paths(list) => Out::Paths(list.into_iter().map(|x| x.strip_prefix(&pre).map(|r| if r.is_empty() { "/".to_string() } else { r.to_string() }).unwrap_or(x)).collect()),
                o => o,
            };
            if let Out::Panic(msg) = &out {
                return Err(Failure::new(format!("{}|panic|{}", name, backend), format!("{}({}) panicked: {}", name, p, msg)));
            }
            if !expect.iter().any(|a| pat_matches(&a.out, &out)) {
                let cls = crate::fsdrive::node_class(m, p);
                return Err(Failure::new(
                    format!("{}|differs-from-reference|{}|{}", name, cls, backend),
                    format!("{}({}) = {:?}; reference admits {:?}", name, p, out, expect.iter().map(|a| format!("{:?}", a.out)).collect::<Vec<_>>()),
                ));
            }
            if let Out::Paths(list) = &out {
                let mut d = list.clone();
                d.sort();
                d.dedup();
                if d.len() != list.len() || list.iter().any(|x| !x.starts_with('/') || x == p) {
                    return Err(Failure::new(format!("{}|not-distinct-absolute-or-contains-argument|{}", name, backend), format!("{}({}) = {:?}", name, p, list)));
                }
                // name order, directory by directory: the sequence is sorted component-wise (a directory, then what
                // is below it, then its next sibling) - which is not the byte order of the whole path strings when a
                // sibling's name continues with a byte below the separator ("a", "a.b", "a-1")
                let comps = |x: &String| -> Vec<String> { x.split('/').map(|c| c.to_string()).collect() };
                if list.windows(2).any(|w| comps(&w[0]) > comps(&w[1])) {
                    return Err(Failure::new(format!("{}|not-in-name-order|{}", name, backend), format!("{}({}) = {:?}", name, p, list)));
                }
                // agreement with the type queries for non-link members
                for x in list {
                    if m.kind(x) == Some(Kind::Link) {
                        continue;
                    }
                    let full = format!("{}{}", pre, x);
                    let (e, isd, isf) = if stdfs { (v.exists(&full), v.is_dir(&full), v.is_file(&full)) } else { (b.mem.exists(&full), b.mem.is_dir(&full), b.mem.is_file(&full)) };
                    let bad = !e || (name.ends_with("dirs") && !isd) || (name.ends_with("files") && !isf);
                    if bad {
                        return Err(Failure::new(format!("{}|disagrees-with-type-queries|{}", name, backend), format!("{} lists {:?}: exists {} is_dir {} is_file {}", name, x, e, isd, isf)));
                    }
                }
            }
        }
    }
    Ok(())
}

fn tree_strategy() -> impl Strategy<Value = TreeDesc> {
    let kind = prop_oneof![
        5 => Just(EKind::Dir),
        5 => Just(EKind::File),
        2 => any::<usize>().prop_map(|i| EKind::Link(Some(i))),
        1 => Just(EKind::Link(None)),
        1 => (0usize..3).prop_map(EKind::LinkUp),
    ];
    (prop::collection::vec((any::<usize>(), 0usize..12, kind).prop_map(|(parent, name, kind)| TEntry { parent, name, kind }), 1..25), prop_oneof![9 => Just(0usize), 1 => Just(60usize)])
        .prop_map(|(entries, chain)| TreeDesc { entries, chain })
}

pub fn all_opts() -> Vec<Opts> {
    let m = usize::MAX;
    let windows = [(0, 0), (0, 1), (0, 2), (0, m), (1, 1), (1, 2), (1, m), (2, 2), (2, m), (3, m)];
    let mut v = vec![];
    for (min, max) in windows {
        for max_first in [false, true] {
            for filter in 0..6u8 {
                for follow in [false, true] {
                    for order in 0..5u8 {
                        for contents_first in [false, true] {
                            for cap in [0u16, 1, 2] {
                                v.push(Opts { min, max, max_first, filter, follow, order, contents_first, cap });
                            }
                        }
                    }
                }
            }
        }
    }
    v
}

pub fn run(c: &Ctx) {
    c.set_rule("five hand-made trees aimed at name-prefix confusions, shared targets, self/ancestor links, chains of links and a wide directory (300 entries whose names differ in case, punctuation, length and byte width) (full option product from 4-5 roots each, both backends) and proptest-generated trees (<=25 entries, depth <=5, 12 adversarial names incl. multi-byte/space/dot names, links to earlier entries of any kind, dangling links, links to ancestor directories; one tree in ten with a 60-level directory chain, deeper than the descriptor cap) x the FULL cross-product of entries() options: depth window {(0,0),(0,1),(0,2),(0,inf),(1,1),(1,2),(1,inf),(2,2),(2,inf),(3,inf)} in both call orders x filter {none, dirs(), files(), filter_p(name contains 'a'), files() then dirs(), dirs() then files() (the last call decides)} x follow x ordering {none, sort_by_name, dirs_first, files_first, custom reverse-name sort} x contents_first x descriptor cap {default, 1, 2 via hook H3} = 7200 option sets per tree, from the root and from one inner directory; Memfs always; on Stdfs (tree materialised with std::fs) one tree in four with a seeded sixth of the option sets. Oracle: reference traversal over the model: multiset equality of (path, alt, kind flags) incl. LinkLooping items, exact sequence when an ordering is set, parent-before/after-contents otherwise, termination bound 4*(entries+1)*(links+1). Listing helpers paths/dirs/files/all_* on every path (dir, file, link, missing) vs the model: absolute, distinct, name-sorted, exclude the argument, agree with exists/is_dir/is_file. Non-trivial = option set with >=2 non-default options on a tree with a nested directory (and a link when follow); distinct by (tree, root, options).");
    c.assume("windows with min>max (builder clamping) are not generated; trees in which a followed link points at another link are excluded for follow runs (counted); generated Stdfs trees have no dangling links; the hand-made chain tree has one: on the real filesystem a dangling link is neither dir nor file (Memfs: a file), the reference follows the backend");
    let opts = all_opts();
    c.note("option_sets_per_tree", opts.len());
    // directed trees, full option product, Memfs + Stdfs
    for (ti, (ops, roots)) in directed().into_iter().enumerate() {
        let b = materialise_ops(&ops, true);
        let roots: Vec<String> = roots.iter().map(|r| r.to_string()).collect();
        let bref = &b;
        par_for((roots.len() * opts.len()) as u64, 64, |i| {
            let root = &roots[i as usize / opts.len()];
            let o = &opts[i as usize % opts.len()];
            for stdfs in [false, true] {
                c.eval(1);
                c.nontrivial(fp(&("directed", ti, root, i, stdfs)));
                c.class("directed-tree");
                let r = check_trav_on(bref, root, o, stdfs).map_err(|f| f.with_case("trav-directed", json!({"tree": ti, "root": root, "opts": o, "stdfs": stdfs})));
                c.judge("trav-directed", &json!(null), r);
            }
        });
        for stdfs in [false, true] {
            c.eval(1);
            let r = check_listings(&b, stdfs).map_err(|f| f.with_case("listing-directed", json!({"tree": ti, "stdfs": stdfs})));
            c.judge("listing-directed", &json!(null), r);
        }
        if let Some(d) = &b.std_root {
            let _ = std::fs::remove_dir_all(d);
        }
    }
    let n_trees = c.tier.pick(32, 320);
    set_shrink_budget(40);
    run_proptest("trav", 801, tree_strategy, n_trees, |tree: &TreeDesc| {
        let idx = fp(&format!("{:?}", tree));
        let stdfs_tree = idx % 4 == 0;
        // Stdfs comparison: no link may be dangling (directly or through another link) and none may
        // point at the tree root (its name on disk is the sandbox directory's)
        let probe = build_model(&build_ops(tree));
        let bad_link = probe.t.nodes.values().any(|n| {
            if let Node::Link { target, .. } = n {
                let mut t = target.clone();
                for _ in 0..8 {
                    match probe.t.nodes.get(&t) {
                        Some(Node::Link { target: t2, .. }) => t = t2.clone(),
                        Some(_) => return t == "/" || target == "/",
                        None => return true,
                    }
                }
                true
            } else {
                false
            }
        });
        let b = materialise(tree, stdfs_tree && !bad_link);
        let do_std = b.std_root.is_some();
        mark("trav", &serde_json::to_string(tree).unwrap());
        let m = &b.model;
        let nested = m.t.nodes.keys().any(|k| k.matches('/').count() >= 2 && m.kind(k) == Some(Kind::Dir));
        let has_link = m.t.nodes.values().any(|n| n.kind() == Kind::Link);
        let mut roots = vec!["/".to_string()];
        if let Some(d) = m.t.nodes.keys().find(|k| k.as_str() != "/" && m.kind(k) == Some(Kind::Dir) && !m.t.children(k).is_empty()) {
            roots.push(d.clone());
        }
        let mut first: Option<Failure> = None;
        let mut fps = vec![];
        'outer: for root in &roots {
            for (oi, o) in opts.iter().enumerate() {
                for stdfs in [false, true] {
                    if stdfs && (!do_std || !sampled(c.seed, idx, oi as u64, 1, 6)) {
                        continue;
                    }
                    tick();
                    c.eval(1);
                    let nondefault = (o.min > 0) as u8 + (o.max != usize::MAX) as u8 + (o.filter != 0) as u8 + o.follow as u8 + (o.order != 0) as u8 + o.contents_first as u8 + (o.cap != 0) as u8;
                    if nondefault >= 2 && nested && (!o.follow || has_link) {
                        fps.push(idx ^ fp(&(root, oi, stdfs)));
                    }
                    if let Err(f) = check_trav_on(&b, root, o, stdfs) {
                        let case = TravCase { stdfs, tree: tree.clone(), root: root.clone(), opts: *o };
                        let f = f.with_case("trav", serde_json::to_value(&case).unwrap());
                        if c.is_known(&f.sig) {
                            c.judge("trav", &case, Err(f));
                        } else if first.is_none() {
                            first = Some(f);
                            break 'outer;
                        }
                    }
                }
            }
        }
        c.nontrivial_many(&mut fps);
        c.class(if tree.chain > 0 { "tree:with-60-level-chain" } else { "tree:no-chain" });
        if has_link {
            c.class("tree:has-link");
        }
        if do_std {
            c.class("tree:also-on-stdfs");
        }
        c.sample(|| json!({"kind":"trav","tree_entries": m.t.nodes.keys().take(14).collect::<Vec<_>>(), "option_sets": opts.len()}));
        let mut res = match first {
            Some(f) => Err(f),
            None => Ok(()),
        };
        if res.is_ok() {
            res = check_listings(&b, false).map_err(|f| f.with_case("listing", json!({"stdfs": false, "tree": tree})));
            if res.is_ok() && do_std {
                res = check_listings(&b, true).map_err(|f| f.with_case("listing", json!({"stdfs": true, "tree": tree})));
            }
        }
        if let Some(d) = &b.std_root {
            let _ = std::fs::remove_dir_all(d);
        }
        res
    });
    // the consumer removes a sibling that was not handed out yet, between two next() calls (as a caller that deletes
    // while walking, or another process, does): whatever happens to the vanished name, every entry that was there
    // from the first to the last call is still yielded exactly once and the walk ends
    {
        let sb = crate::sandbox::root().join(format!("c08-vanish-{}", std::process::id()));
        let files = ["a", "b", "c", "d", "e", "f", "s/x", "s/y", "s/z", "t/u/w"];
        for stdfs in [true, false] {
            for after in 1..=4usize {
                for which in 0..3usize {
                    for sorted in [false, true] {
                        let (v, root) = if stdfs { (Vfs::stdfs(), sb.to_str().unwrap().to_string()) } else { (Vfs::memfs(), "/vanish".to_string()) };
                        let _ = v.remove_all(&root);
                        for f in files {
                            let p = format!("{}/{}", root, f);
                            let _ = v.mkdir_p(crate::refpath::parent(&p));
                            let _ = v.write_all(&p, b"1");
                        }
                        c.eval(1);
                        c.nontrivial(fp(&("vanish", stdfs, after, which, sorted)));
                        c.class("entry-removed-during-the-walk");
                        let res = crate::engine::catch(|| -> Result<(), Failure> {
                            let es = v.entries(&root).map_err(|e| Failure::new("vanish|entries-err", e.to_string()))?;
                            let es = if sorted { es.sort_by_name() } else { es };
                            let mut seen: Vec<String> = vec![];
                            let mut removed: Option<String> = None;
                            let mut n = 0usize;
                            for item in es.into_iter() {
                                n += 1;
                                if n > 100 {
                                    return Err(Failure::new("vanish|walk-does-not-end", format!("more than 100 items from a tree of 14 entries; seen {:?}", seen)));
                                }
                                if let Ok(e) = item {
                                    seen.push(e.path().to_string_lossy().replacen(&root, "", 1));
                                }
                                if n == after && removed.is_none() {
                                    let cands: Vec<&str> = files.iter().copied().filter(|f| !seen.iter().any(|s| s.trim_start_matches('/') == *f)).collect();
                                    if let Some(f) = cands.get(which * cands.len() / 3) {
                                        let _ = v.remove(format!("{}/{}", root, f));
                                        removed = Some(f.to_string());
                                    }
                                }
                            }
                            let mut stable: Vec<String> = vec!["".into(), "/s".into(), "/t".into(), "/t/u".into()];
                            stable.extend(files.iter().filter(|f| Some(f.to_string()) != removed).map(|f| format!("/{}", f)));
                            for want in &stable {
                                let k = seen.iter().filter(|s| *s == want).count();
                                if k != 1 {
                                    return Err(Failure::new(
                                        format!("vanish|stable-entry-yielded-{}-times|{}{}", if k == 0 { "0" } else { "many" }, if stdfs { "stdfs" } else { "memfs" }, if sorted { ",sorted" } else { "" }),
                                        format!("removed {:?} after item {}: {:?} yielded {} times; items {:?}", removed, after, want, k, seen),
                                    ));
                                }
                            }
                            Ok(())
                        });
                        let res = match res {
                            Ok(r) => r,
                            Err(p) => Err(Failure::new("vanish|panic", p)),
                        };
                        c.judge("vanish", &json!([stdfs, after, which, sorted]), res);
                    }
                }
            }
        }
        let _ = std::fs::remove_dir_all(&sb);
    }
    crate::sandbox::cleanup();
}

pub fn replay(kind: &str, case: &Value) -> Option<CaseResult> {
    let r = match kind {
        "trav" => {
            if case.get("opts").is_some() {
                Some(check_trav(&serde_json::from_value(case.clone()).ok()?))
            } else {
                // a whole tree (shrunk generator value): run the full option product
                let tree: TreeDesc = serde_json::from_value(case.clone()).ok()?;
                let b = materialise(&tree, false);
                let mut r = Ok(());
                for o in all_opts() {
                    r = check_trav_on(&b, "/", &o, false);
                    if r.is_err() {
                        break;
                    }
                }
                Some(r)
            }
        },
        "trav-directed" => {
            let (ops, _) = directed().into_iter().nth(case["tree"].as_u64()? as usize)?;
            let stdfs = case["stdfs"].as_bool().unwrap_or(false);
            let b = materialise_ops(&ops, stdfs);
            let o: Opts = serde_json::from_value(case["opts"].clone()).ok()?;
            Some(check_trav_on(&b, case["root"].as_str()?, &o, stdfs))
        },
        "listing-directed" => {
            let (ops, _) = directed().into_iter().nth(case["tree"].as_u64()? as usize)?;
            let stdfs = case["stdfs"].as_bool().unwrap_or(false);
            let b = materialise_ops(&ops, stdfs);
            Some(check_listings(&b, stdfs))
        },
        "listing" => {
            let tree: TreeDesc = serde_json::from_value(case["tree"].clone()).ok()?;
            let stdfs = case["stdfs"].as_bool().unwrap_or(false);
            let b = materialise(&tree, stdfs);
            let r = check_listings(&b, stdfs);
            Some(r)
        },
        _ => None,
    };
    crate::sandbox::cleanup();
    r
}

#[allow(dead_code)]
fn _unused(_: BTreeMap<u8, u8>, _: Ordering) {}
