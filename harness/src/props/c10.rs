//! C10 — symlinks record their target faithfully and are never mistaken for the target
use std::sync::atomic::{AtomicU64, Ordering};

use rivia::prelude::*;
use serde::{Deserialize, Serialize};
use serde_json::{json, Value};

use crate::{engine::*, fsapply::entry_info, refpath::*};

#[derive(Debug, Clone, Serialize, Deserialize)]
pub struct LinkCase {
    pub stdfs: bool,
    /// link path and target path inside the tree (absolute, clean, relative to the tree root "/")
    pub link: String,
    pub target: String,
    /// "dir" | "file" | "missing" | "link-dir" | "link-file"
    pub target_kind: String,
    /// 0 absolute, 1 relative to the link's directory, 2 relative and unclean, 3 absolute and unclean
    pub spelling: u8,
}

static SEQ: AtomicU64 = AtomicU64::new(0);

fn positions(depth: usize, names: &[&str]) -> Vec<String> {
    let mut out = vec![];
    let mut frontier = vec![String::new()];
    for _ in 0..depth {
        let mut next = vec![];
        for f in &frontier {
            // one name is a string prefix of the other: textual prefix tests differ from component ones
            for n in names {
                let p = format!("{}/{}", f, n);
                out.push(p.clone());
                next.push(p);
            }
        }
        frontier = next;
    }
    out
}

fn spell(link: &str, target: &str, spelling: u8) -> String {
    let dir = parent(link);
    match spelling {
        0 => target.to_string(),
        1 => {
            let r = ref_relative(target, &dir);
            if r.is_empty() {
                ".".into()
            } else {
                r
            }
        },
        2 => {
            let r = ref_relative(target, &dir);
            if r.is_empty() {
                "./.".into()
            } else {
                format!("./{}/.", r.replace('/', "//"))
            }
        },
        _ => format!("{}/.", target.replace('/', "//")),
    }
}

struct Fail(Failure);

pub fn check_link(case: &LinkCase) -> CaseResult {
    let backend = if case.stdfs { "stdfs" } else { "memfs" };
    let cls = format!("target={},spelling={},{}", case.target_kind, ["abs", "rel", "rel-unclean", "abs-unclean"][case.spelling as usize % 4], backend);
    let (v, root, cleanup): (Vfs, String, Option<std::path::PathBuf>) = if case.stdfs {
        let d = crate::sandbox::root().join(format!("c10-{}", SEQ.fetch_add(1, Ordering::Relaxed)));
        let _ = std::fs::create_dir_all(&d);
        (Vfs::stdfs(), d.to_str().unwrap().to_string(), Some(d))
    } else {
        (Vfs::memfs(), String::new(), None)
    };
    // absolute path on the backend for a tree path
    let ab = |p: &str| if p == "/" { if root.is_empty() { "/".to_string() } else { root.clone() } } else { format!("{}{}", root, p) };
    let res = catch(|| -> Result<(), Fail> {
        let fail = |what: &str, detail: String| Fail(Failure::new(format!("{}|{}", what, cls), format!("{:?}: {}", case, detail)));
        let (l, t) = (ab(&case.link), ab(&case.target));
        let ldir = ab(&parent(&case.link));
        v.mkdir_p(&ldir).map_err(|e| fail("setup", e.to_string()))?;
        let aux = ab("/zz-aux");
        match case.target_kind.as_str() {
            "dir" => {
                v.mkdir_m(&t, 0o750).map_err(|e| fail("setup", e.to_string()))?;
            },
            "file" => {
                v.mkdir_p(ab(&parent(&case.target))).map_err(|e| fail("setup", e.to_string()))?;
                v.write_all(&t, b"target-bytes").map_err(|e| fail("setup", e.to_string()))?;
                let _ = v.chmod_b(&t).and_then(|b| b.all(0o640).no_recurse().exec());
            },
            "link-dir" | "link-file" => {
                v.mkdir_p(ab(&parent(&case.target))).map_err(|e| fail("setup", e.to_string()))?;
                if case.target_kind == "link-dir" {
                    v.mkdir_p(&aux).map_err(|e| fail("setup", e.to_string()))?;
                } else {
                    v.write_all(&aux, b"aux").map_err(|e| fail("setup", e.to_string()))?;
                }
                v.symlink(&t, &aux).map_err(|e| fail("setup", e.to_string()))?;
            },
            _ => {
                // (a missing target below the link's own path has no parent to create)
                if !is_under(&case.target, &case.link) {
                    v.mkdir_p(ab(&parent(&case.target))).map_err(|e| fail("setup", e.to_string()))?;
                }
            },
        }
        let points_to_dir = matches!(case.target_kind.as_str(), "dir" | "link-dir");
        // spelled target: relative spellings are relative to the link's directory
        let spelled = match case.spelling {
            0 | 3 => {
                let s = spell(&case.link, &case.target, case.spelling);
                if root.is_empty() {
                    s
                } else {
                    format!("{}{}", root, s)
                }
            },
            s => spell(&case.link, &case.target, s),
        };
        let before_mode = v.mode(&t).ok();
        let before_owner = v.owner(&t).ok();
        // ---- symlink ----
        match v.symlink(&l, &spelled) {
            Ok(p) if p.to_str() == Some(&l) => {},
            other => return Err(fail("symlink|result", format!("symlink({:?},{:?}) = {:?}", l, spelled, other.map_err(|e| e.to_string())))),
        }
        // readlink_abs == abs(target)
        match v.readlink_abs(&l) {
            Ok(p) if p.to_str() == Some(&t) => {},
            other => return Err(fail("readlink_abs|value", format!("readlink_abs = {:?} want {:?}", other.map_err(|e| e.to_string()), t))),
        }
        // readlink relative; clean(dir(link)/readlink) == readlink_abs
        match v.readlink(&l) {
            Ok(p) => {
                let r = p.to_str().unwrap_or("").to_string();
                if r.starts_with('/') {
                    return Err(fail("readlink|not-relative", format!("readlink = {:?}", r)));
                }
                if ref_clean(&format!("{}/{}", ldir, r)) != t {
                    return Err(fail("readlink|does-not-lead-to-target", format!("readlink = {:?}; clean({}/{}) != {}", r, ldir, r, t)));
                }
            },
            Err(e) => return Err(fail("readlink|err", e.to_string())),
        }
        if case.stdfs {
            // independent observer: the text on disk resolves to the same target
            match std::fs::read_link(&l) {
                Ok(txt) => {
                    let s = txt.to_str().unwrap_or("").to_string();
                    let resolved = if s.starts_with('/') { ref_clean(&s) } else { ref_clean(&format!("{}/{}", ldir, s)) };
                    if resolved != t {
                        return Err(fail("on-disk-link-text|wrong-target", format!("link text {:?} resolves to {:?} want {:?}", s, resolved, t)));
                    }
                },
                Err(e) => return Err(fail("on-disk-link-text|missing", e.to_string())),
            }
        }
        let dangling = case.target_kind == "missing";
        // link exclusion
        if !v.is_symlink(&l) {
            return Err(fail(if dangling { "is_symlink|false-for-dangling-link" } else { "is_symlink|false-for-link" }, String::new()));
        }
        if v.is_file(&l) || v.is_dir(&l) {
            return Err(fail("link-exclusion|is_file-or-is_dir-true-for-link", format!("is_file {} is_dir {}", v.is_file(&l), v.is_dir(&l))));
        }
        // the same with the link as the current directory (Memfs; the cwd of Stdfs is the process')
        if !case.stdfs && points_to_dir && v.set_cwd(&l).is_ok() {
            let (f, d, s) = (v.is_file(&l), v.is_dir(&l), v.is_symlink(&l));
            let _ = v.set_cwd("/");
            if f || d || !s {
                return Err(fail("link-exclusion|is_file-or-is_dir-true-for-link", format!("with the link as cwd: is_file {} is_dir {} is_symlink {}", f, d, s)));
            }
        }
        let (sd, sf) = (v.is_symlink_dir(&l), v.is_symlink_file(&l));
        if dangling {
            // a missing target has no kind: only "not a directory link" is required
            if sd {
                return Err(fail("is_symlink_dir-file|wrong-kind", "is_symlink_dir is true for a link whose target does not exist".into()));
            }
        } else {
            if sd != points_to_dir || sf == points_to_dir {
                return Err(fail("is_symlink_dir-file|wrong-kind", format!("is_symlink_dir {} is_symlink_file {} for a target that is {}", sd, sf, case.target_kind)));
            }
        }
        // readlink on non-links fails
        for (what, p) in [("link-directory", ldir.clone()), ("target", t.clone())] {
            if what == "target" && !matches!(case.target_kind.as_str(), "dir" | "file") {
                continue;
            }
            if v.readlink(&p).is_ok() || v.readlink_abs(&p).is_ok() {
                return Err(fail("readlink|ok-on-non-link", format!("readlink/readlink_abs({}) succeeded on the {}", p, what)));
            }
        }
        if v.readlink(ab("/nothing-here")).is_ok() || v.readlink_abs(ab("/nothing-here")).is_ok() {
            return Err(fail("readlink|ok-on-missing", String::new()));
        }
        // entry accessors and follow
        {
            let e = v.entry(&l).map_err(|e| fail("entry|err", e.to_string()))?;
            let i0 = entry_info(&e);
            if i0.path != l || i0.alt != t || !i0.is_symlink || i0.following || i0.is_dir != points_to_dir || (!dangling && i0.is_file == points_to_dir) {
                return Err(fail("entry|accessors", format!("{:?}", i0)));
            }
            let i1 = entry_info(&e.clone().follow(true));
            if i1.path != t || i1.alt != l || !i1.following {
                return Err(fail("entry-follow|no-swap", format!("{:?}", i1)));
            }
            let i2 = entry_info(&e.clone().follow(true).follow(true));
            if i2 != i1 {
                return Err(fail("entry-follow|swapped-twice", format!("{:?}", i2)));
            }
            // a copy of a followed entry is the same followed entry: following it again changes nothing
            let followed = e.clone().follow(true);
            let copy = followed.clone();
            if entry_info(&copy) != i1 {
                return Err(fail("entry-follow|clone-of-followed-entry-differs", format!("{:?} vs {:?}", entry_info(&copy), i1)));
            }
            let i4 = entry_info(&copy.follow(true));
            if i4 != i1 {
                return Err(fail("entry-follow|swapped-twice", format!("clone of the followed entry, followed again: {:?}", i4)));
            }
            // follow(false) after follow(true) changes nothing, and neither does following again afterwards
            let i5 = entry_info(&e.clone().follow(true).follow(false));
            let i6 = entry_info(&e.clone().follow(true).follow(false).follow(true));
            if i5 != i1 || i6 != i1 {
                return Err(fail("entry-follow|swapped-twice", format!("follow(true).follow(false) = {:?}; then follow(true) = {:?}; want {:?}", i5, i6, i1)));
            }
            let i3 = entry_info(&e.clone().follow(false));
            if i3 != i0 {
                return Err(fail("entry-follow|follow-false-changed-entry", format!("{:?}", i3)));
            }
        }
        // symlink again over the existing link with another target: must not silently keep/replace
        let other = ab("/zz-other");
        // ... however the occupied link path is spelled (the occupancy test must look at the resolved path)
        let l_detour = format!("{}/zz/../{}", parent(&l).trim_end_matches('/'), base(&l));
        let l_dotted = format!("{}/./{}/", parent(&l).trim_end_matches('/'), base(&l));
        for lsp in [l.clone(), l_detour, l_dotted] {
            match v.symlink(&lsp, &other) {
                Ok(_) => {
                    if v.readlink_abs(&l).ok().and_then(|p| p.to_str().map(|s| s.to_string())) != Some(other.clone()) {
                        return Err(fail("symlink-over-existing|ok-but-old-target-kept", format!("symlink({:?}, {:?}) returned Ok", lsp, other)));
                    }
                    return Err(fail("symlink-over-existing|replaced-silently", format!("symlink({:?}, {:?}) returned Ok", lsp, other)));
                },
                Err(_) => {
                    if v.readlink_abs(&l).ok().and_then(|p| p.to_str().map(|s| s.to_string())) != Some(t.clone()) {
                        return Err(fail("symlink-over-existing|err-but-target-changed", String::new()));
                    }
                },
            }
        }
        // chmod / chown without follow act on the link, never on the target
        if matches!(case.target_kind.as_str(), "dir" | "file") {
            let _ = v.chmod(&l, 0o777);
            let _ = v.chmod_b(&l).and_then(|b| b.sym("a:a+rwx").exec());
            // both an octal and a symbolic mode on one builder
            let _ = v.chmod_b(&l).and_then(|b| b.all(0o701).sym("a:o+w").exec());
            let _ = v.chmod_b(&l).and_then(|b| b.sym("a:g+w").files(0o602).dirs(0o703).exec());
            if v.mode(&t).ok() != before_mode {
                return Err(fail("chmod-on-link|target-mode-changed", format!("{:?} -> {:?}", before_mode, v.mode(&t).ok())));
            }
            // the non-recursive builder form goes through a different path than chown()
            let rb = v.chown_b(&l).and_then(|b| b.owner(4319, 4320).recurse(false).exec());
            if v.owner(&t).ok() != before_owner {
                return Err(fail("chown-on-link|target-owner-changed", format!("chown_b(link).recurse(false): {:?} -> {:?}", before_owner, v.owner(&t).ok())));
            }
            if rb.is_ok() && case.stdfs {
                use std::os::unix::fs::MetadataExt;
                let md = std::fs::symlink_metadata(&l).map_err(|e| fail("setup", e.to_string()))?;
                if (md.uid(), md.gid()) != (4319, 4320) {
                    return Err(fail("chown-on-link|link-owner-not-changed", format!("chown_b(link).recurse(false): {:?}", (md.uid(), md.gid()))));
                }
            }
            let r = v.chown(&l, 4321, 4322);
            if v.owner(&t).ok() != before_owner {
                return Err(fail("chown-on-link|target-owner-changed", format!("{:?} -> {:?}", before_owner, v.owner(&t).ok())));
            }
            if r.is_ok() && case.stdfs {
                use std::os::unix::fs::MetadataExt;
                let md = std::fs::symlink_metadata(&l).map_err(|e| fail("setup", e.to_string()))?;
                if (md.uid(), md.gid()) != (4321, 4322) {
                    return Err(fail("chown-on-link|link-owner-not-changed", format!("{:?}", (md.uid(), md.gid()))));
                }
            }
            // ... also when the requested owner is the one the TARGET already has (an "already as requested"
            // test that looks through the link would skip the link)
            if let (Some((tu, tg)), true) = (before_owner, case.stdfs) {
                use std::os::unix::fs::MetadataExt;
                if v.chown(&l, tu, tg).is_ok() {
                    let md = std::fs::symlink_metadata(&l).map_err(|e| fail("setup", e.to_string()))?;
                    if (md.uid(), md.gid()) != (tu, tg) {
                        return Err(fail("chown-on-link|link-owner-not-changed|requested-owner-is-the-targets", format!("chown(link, {}, {}) left the link with {:?}", tu, tg, (md.uid(), md.gid()))));
                    }
                }
                let _ = v.chown(&l, 4321, 4322);
                if v.chown_b(&ldir).and_then(|b| b.owner(tu, tg).recurse(true).exec()).is_ok() {
                    let md = std::fs::symlink_metadata(&l).map_err(|e| fail("setup", e.to_string()))?;
                    if (md.uid(), md.gid()) != (tu, tg) {
                        return Err(fail("chown-recursive-over-link|link-owner-not-changed|requested-owner-is-the-targets", format!("chown_b(dir of link).owner({}, {}) left the link with {:?}", tu, tg, (md.uid(), md.gid()))));
                    }
                }
                if v.owner(&t).ok() != before_owner {
                    return Err(fail("chown-on-link|target-owner-changed", format!("{:?} -> {:?}", before_owner, v.owner(&t).ok())));
                }
            }
        }
        // recursive chmod / chown of the directory holding the link, without follow: a target outside of
        // that directory is never touched through the link
        if matches!(case.target_kind.as_str(), "dir" | "file") && !is_under(&case.target, &parent(&case.link)) && case.target != parent(&case.link) {
            let before_dir_mode = v.mode(&ldir).ok();
            let _ = v.chmod_b(&ldir).and_then(|b| b.dirs(0o751).files(0o641).exec());
            if v.mode(&t).ok() != before_mode {
                return Err(fail("chmod-recursive-over-link|target-mode-changed", format!("{:?} -> {:?}", before_mode, v.mode(&t).ok())));
            }
            let _ = v.chmod_b(&ldir).and_then(|b| b.sym("a:o+w").exec());
            let _ = v.chmod_b(&ldir).and_then(|b| b.all(0o701).sym("a:o+w").exec());
            if v.mode(&t).ok() != before_mode {
                return Err(fail("chmod-recursive-over-link|target-mode-changed", format!("{:?} -> {:?}", before_mode, v.mode(&t).ok())));
            }
            let _ = v.chown_b(&ldir).and_then(|b| b.owner(4323, 4324).recurse(true).exec());
            if v.owner(&t).ok() != before_owner {
                return Err(fail("chown-recursive-over-link|target-owner-changed", format!("{:?} -> {:?}", before_owner, v.owner(&t).ok())));
            }
            if let Some(m) = before_dir_mode {
                let _ = v.chmod_b(&ldir).and_then(|b| b.all(m).no_recurse().exec());
            }
        }
        // remove acts on the link itself
        let target_before: Option<Vec<u8>> = if case.target_kind == "file" { std::fs::read(&t).ok().or_else(|| v.read_all(&t).ok().map(|s| s.into_bytes())) } else { None };
        match v.remove(&l) {
            Ok(()) => {},
            Err(e) => return Err(fail("remove-link|err", e.to_string())),
        }
        let still = if case.stdfs { std::fs::symlink_metadata(&l).is_ok() } else { v.exists(&l) };
        if still {
            return Err(fail("remove-link|link-still-exists", String::new()));
        }
        match case.target_kind.as_str() {
            "dir" => {
                if !v.is_dir(&t) {
                    return Err(fail("remove-link|target-dir-gone", String::new()));
                }
            },
            "file" => {
                let now = std::fs::read(&t).ok().or_else(|| v.read_all(&t).ok().map(|s| s.into_bytes()));
                if now != target_before || now.is_none() {
                    return Err(fail("remove-link|target-file-changed", String::new()));
                }
            },
            "link-dir" | "link-file" => {
                if v.readlink_abs(&t).is_err() {
                    return Err(fail("remove-link|target-link-gone", String::new()));
                }
            },
            _ => {},
        }
        Ok(())
    });
    if let Some(d) = cleanup {
        let _ = std::fs::remove_dir_all(d);
    }
    match res {
        Ok(Ok(())) => Ok(()),
        Ok(Err(Fail(f))) => {
            if f.sig.starts_with("setup|") {
                ctx().inconclusive(&format!("C10 setup failed: {}", f.detail));
                return Ok(());
            }
            Err(f)
        },
        Err(m) => Err(Failure::new(format!("panic|{}|{}", panic_site(&m), cls), format!("{:?} panicked: {}", case, m))),
    }
}

pub fn run(c: &Ctx) {
    c.set_rule("exhaustive: every (link position, target position) pair over paths of depth <=4 with the names {a,ab} (quick) / {a,ab,b} (thorough) — one name is a string prefix of another — (target additionally the root and the link's own directory), every feasible target kind {dir, file, missing, link->dir, link->file}, four spellings of the target (absolute, relative to the link's directory, both also unclean with './', '//' and trailing '/.'), on Memfs; a seeded 1/3 (quick) / 1/6 (thorough) of them on a tmpfs Stdfs sandbox with std::fs::read_link as independent observer. After symlink: readlink_abs == abs(target); readlink relative and clean(dir(link)/readlink) == target; is_symlink && !is_file && !is_dir; is_symlink_dir/file == kind of target at creation; readlink on non-links fails; entry accessors; follow(true) swaps once (idempotent), follow(false) never; symlink over the existing link with another target must fail and keep the target, whether the occupied path is spelled clean, with a 'zz/..' detour or with './' and a trailing separator; chmod/chown without follow on the link, and recursive chmod/chown without follow of the directory holding the link, leave an outside target's mode/owner alone; remove removes the link only. Plus links in a sandbox directory whose targets lie under other top-level directories (/etc, /usr/bin, /etc/passwd, a missing top-level path, the root) or are missing names longer than a file name may be: still relative, still leading to the target, still links. Non-trivial = link and target in different directories, or a relative spelling with at least one '..'; distinct by case.");
    let names: &[&str] = c.tier.pick(&["a", "ab"][..], &["a", "ab", "b"][..]);
    let pos = positions(4, names);
    let mut cases: Vec<LinkCase> = vec![];
    for l in &pos {
        let mut targets: Vec<String> = pos.clone();
        targets.push("/".into());
        for t in &targets {
            if t == l {
                continue;
            }
            // a path below the link itself cannot exist, but a link may name it (dangling)
            let below_link = is_under(t, l);
            let t_is_ancestor = is_under(l, t);
            for kind in ["dir", "file", "missing", "link-dir", "link-file"] {
                if t_is_ancestor && kind != "dir" {
                    continue; // an ancestor of the link is necessarily a directory
                }
                if kind != "dir" && t == "/" {
                    continue;
                }
                if below_link && kind != "missing" {
                    continue;
                }
                // the target's own ancestors must be creatable: not below the link path
                for spelling in 0..4u8 {
                    cases.push(LinkCase { stdfs: false, link: l.clone(), target: t.clone(), target_kind: kind.into(), spelling });
                }
            }
        }
    }
    c.note("memfs_cases", cases.len());
    // targets far away from the link: under another top-level directory than the sandbox (existing system
    // directories and files, a missing path), and missing targets whose names are longer than a file name can be
    // (the target of a link is text: it need not be something the kernel could open)
    {
        let sb = crate::sandbox::root().join(format!("c10-far-{}", std::process::id()));
        let sbs = sb.to_str().unwrap().to_string();
        let long_ascii = "n".repeat(300);
        let long_multi = "é".repeat(150);
        let targets: Vec<(String, &str)> = vec![
            ("/etc".into(), "dir"),
            ("/usr/bin".into(), "dir"),
            ("/etc/passwd".into(), "file"),
            ("/rvh-no-such-top/x/y".into(), "missing"),
            ("/".into(), "dir"),
            (format!("{}/{}", sbs, long_ascii), "missing"),
            (format!("{}/sub/{}/below", sbs, long_multi), "missing"),
            (format!("/{}", long_ascii), "missing"),
        ];
        // targets that are neither a directory nor a regular file: a unix socket made here, the null device, any
        // block device and any socket the system has
        let mut targets = targets;
        let _ = std::fs::create_dir_all(&sb);
        let sock = format!("{}/sock", sbs);
        let _listener = std::os::unix::net::UnixListener::bind(&sock);
        if _listener.is_ok() {
            targets.push((sock.clone(), "other"));
        }
        targets.push(("/dev/null".into(), "other"));
        {
            use std::os::unix::fs::FileTypeExt;
            let mut found_block = false;
            for dir in ["/dev", "/run", "/dev/block"] {
                for e in std::fs::read_dir(dir).into_iter().flatten().flatten() {
                    if let Ok(ft) = std::fs::metadata(e.path()).map(|m| m.file_type()) {
                        if (ft.is_block_device() && !found_block) || (ft.is_socket() && targets.len() < 14) {
                            found_block |= ft.is_block_device();
                            targets.push((e.path().to_string_lossy().into_owned(), "other"));
                        }
                    }
                }
            }
        }
        for stdfs in [true, false] {
            for (t, kind) in &targets {
                if !stdfs && *kind != "missing" && t != "/" {
                    continue; // a fresh Memfs has no /etc
                }
                c.eval(1);
                c.nontrivial(fp(&("far", stdfs, t)));
                c.class(if stdfs { "far-target:stdfs" } else { "far-target:memfs" });
                let backend = if stdfs { "stdfs" } else { "memfs" };
                let v = if stdfs { Vfs::stdfs() } else { Vfs::memfs() };
                let dir = format!("{}/sub/deeper", sbs);
                let link = format!("{}/l", dir);
                let res = catch(|| -> Result<(), Fail> {
                    let fail = |what: &str, detail: String| Fail(Failure::new(format!("far-target|{}|target={},{}", what, kind, backend), format!("link {:?} -> {:?}: {}", link, t.chars().take(80).collect::<String>(), detail)));
                    v.mkdir_p(&dir).map_err(|e| fail("setup", e.to_string()))?;
                    let _ = v.remove(&link);
                    v.symlink(&link, t).map_err(|e| fail("symlink-err", e.to_string()))?;
                    if !v.is_symlink(&link) {
                        return Err(fail("not-a-symlink-afterwards", String::new()));
                    }
                    let abs = v.readlink_abs(&link).map_err(|e| fail("readlink_abs-err", e.to_string()))?;
                    if abs.to_str() != Some(t.as_str()) {
                        return Err(fail("readlink_abs-value", format!("{:?}", abs)));
                    }
                    let rel = v.readlink(&link).map_err(|e| fail("readlink-err", e.to_string()))?;
                    if rel.is_absolute() {
                        return Err(fail("readlink-not-relative", format!("{:?}", rel.to_string_lossy().chars().take(80).collect::<String>())));
                    }
                    let nav = crate::refpath::ref_clean(&format!("{}/{}", dir, rel.to_str().unwrap_or("?")));
                    if nav != *t {
                        return Err(fail("readlink-does-not-lead-to-target", format!("dir(link)/readlink cleans to {:?}", nav.chars().take(120).collect::<String>())));
                    }
                    if stdfs {
                        let disk = std::fs::read_link(&link).map_err(|e| fail("setup", e.to_string()))?;
                        if disk != rel {
                            return Err(fail("readlink-differs-from-disk", format!("{:?} vs {:?}", disk, rel)));
                        }
                    }
                    let want_kind = (*kind == "dir", *kind == "file");
                    // a missing target has no kind: only "not a directory link" is required there
                    if (*kind == "missing" && v.is_symlink_dir(&link)) || (*kind != "missing" && (v.is_symlink_dir(&link), v.is_symlink_file(&link)) != want_kind) {
                        return Err(fail("is_symlink_dir/file", format!("({}, {}) want {:?}", v.is_symlink_dir(&link), v.is_symlink_file(&link), want_kind)));
                    }
                    if v.is_dir(&link) || v.is_file(&link) {
                        return Err(fail("link-exclusion", format!("is_dir {} is_file {}", v.is_dir(&link), v.is_file(&link))));
                    }
                    let e = v.entry(&link).map_err(|e| fail("entry-err", e.to_string()))?;
                    if *kind == "other" && (e.is_dir() || e.is_file()) {
                        return Err(fail("entry-kind", format!("entry of a link to neither a directory nor a file: is_dir {} is_file {}", e.is_dir(), e.is_file())));
                    }
                    v.paths(&dir).map_err(|e| fail("listing-the-links-directory-err", e.to_string()))?;
                    v.remove(&link).map_err(|e| fail("remove-err", e.to_string()))?;
                    Ok(())
                });
                let r = match res {
                    Ok(Ok(())) => Ok(()),
                    Ok(Err(f)) => Err(f.0),
                    Err(p) => Err(Failure::new(format!("far-target|panic|{}", backend), p)),
                };
                c.judge("far-target", &json!([stdfs, t]), r);
            }
        }
        let _ = std::fs::remove_dir_all(&sb);
    }
    let den = c.tier.pick(3, 6);
    let mut all = cases.clone();
    for (i, cs) in cases.iter().enumerate() {
        if sampled(c.seed, 1000, i as u64, 1, den) {
            let mut s = cs.clone();
            s.stdfs = true;
            all.push(s);
        }
    }
    par_for(all.len() as u64, 16, |i| {
        let case = &all[i as usize];
        mark("link", &serde_json::to_string(case).unwrap());
        c.eval(1);
        let rel = ref_relative(&case.target, &parent(&case.link));
        if parent(&case.link) != parent(&case.target) || (case.spelling % 3 != 0 && rel.contains("..")) {
            c.nontrivial(fp(&format!("{:?}", case)));
        }
        c.class(if case.stdfs { "stdfs" } else { "memfs" });
        if i % 997 == 3 {
            c.sample(|| json!({"kind":"link","case":case}));
        }
        c.judge("link", case, check_link(case));
    });
    c.set_exhaustive(true);
    crate::sandbox::cleanup();
}

pub fn replay(kind: &str, case: &Value) -> Option<CaseResult> {
    match kind {
        "link" => {
            let r = check_link(&serde_json::from_value(case.clone()).ok()?);
            crate::sandbox::cleanup();
            Some(r)
        },
        _ => None,
    }
}
