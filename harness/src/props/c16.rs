//! C16 — relative(path, base) is the navigation from base to path
use proptest::prelude::*;
use rivia::prelude::*;
use serde_json::{json, Value};

use crate::{engine::*, refpath::*};

fn all_paths(names: &[&str], depth: usize) -> Vec<String> {
    let mut out = vec!["/".to_string()];
    let mut frontier = vec![String::new()];
    for _ in 0..depth {
        let mut next = vec![];
        for f in &frontier {
            for n in names {
                let p = format!("{}/{}", f, n);
                out.push(p.clone());
                next.push(p);
            }
        }
        frontier = next;
    }
    out
}

fn ncomps(p: &str) -> usize {
    p.split('/').filter(|x| !x.is_empty()).count()
}

fn common(p: &str, b: &str) -> usize {
    let a: Vec<&str> = p.split('/').filter(|x| !x.is_empty()).collect();
    let c: Vec<&str> = b.split('/').filter(|x| !x.is_empty()).collect();
    let mut i = 0;
    while i < a.len() && i < c.len() && a[i] == c[i] {
        i += 1;
    }
    i
}

pub fn check_relative(p: &str, b: &str) -> CaseResult {
    let r = match catch(|| sys::relative(p, b)) {
        Ok(Ok(r)) => r,
        Ok(Err(e)) => return Err(Failure::new("relative|err", format!("relative({:?},{:?}) = Err({})", p, b, e))),
        Err(m) => return Err(Failure::new(format!("relative|panic|{}", panic_site(&m)), format!("relative({:?},{:?}) panicked: {}", p, b, m))),
    };
    let rs = r.to_str().unwrap_or("<non-utf8>").to_string();
    let joined = if rs.starts_with('/') { rs.clone() } else { format!("{}/{}", b, rs) };
    let back = ref_clean(&joined);
    if back != p {
        return Err(Failure::new(
            if p == b { "relative|equal-paths|join-mismatch" } else { "relative|join-mismatch" },
            format!("relative({:?},{:?}) = {:?}; clean(base/result) = {:?} != path", p, b, rs, back),
        ));
    }
    if p != b {
        if r.is_absolute() {
            return Err(Failure::new("relative|absolute-result", format!("relative({:?},{:?}) = {:?}", p, b, rs)));
        }
        // shape: zero or more '..' then only normal components
        let cs = comps(&r);
        let dd = cs.iter().take_while(|c| *c == "..").count();
        if cs[dd..].iter().any(|c| c == ".." || c == "." || c == "/") {
            return Err(Failure::new("relative|shape", format!("relative({:?},{:?}) = {:?} is not (../)*normal*", p, b, rs)));
        }
        let want = ncomps(b) - common(p, b);
        if dd != want {
            return Err(Failure::new("relative|dotdot-count", format!("relative({:?},{:?}) = {:?}: {} '..' expected {}", p, b, rs, dd, want)));
        }
        // PathExt form is the same function
        match std::path::Path::new(p).relative(b) {
            Ok(x) if x == r => {},
            other => return Err(Failure::new("relative|pathext-differs", format!("Path::relative gives {:?}", other.map(|x| x.display().to_string()).map_err(|e| e.to_string())))),
        }
    }
    Ok(())
}

fn deep_path() -> impl Strategy<Value = String> {
    prop::collection::vec(prop::sample::select(&["a", "b", "ab", "a.b", "é", "éé", "日本", "d e", "..z", "😀", "~", "n~", "$HOME", "${HOME}", "$"][..]), 0..=12)
        .prop_map(|v| if v.is_empty() { "/".to_string() } else { format!("/{}", v.join("/")) })
}

pub fn run(c: &Ctx) {
    c.set_rule("exhaustive: all ordered pairs of the 121 clean absolute paths with <=4 components over {a,ab,b} (one name is a string prefix of another) and of the 40 with <=3 components over {~,$HOME,n~} (names are opaque to relative()); then seeded random pairs up to depth 12 over 15 names (multi-byte, spaces, dots, '~' and '$') with a shared random prefix in half of them. Oracle: result relative, (../)*normal*, clean(base/result)==path, #'..' == |base|-|common prefix|. Non-trivial = path!=base and the common prefix is shorter than both (needs '..' and normal parts); distinct by pair.");
    let paths = all_paths(&["a", "ab", "b"], 4);
    let n = paths.len() as u64;
    par_for(n * n, 512, |i| {
        let (p, b) = (&paths[(i / n) as usize], &paths[(i % n) as usize]);
        mark("relative", p);
        c.eval(1);
        let cm = common(p, b);
        if p != b && cm < ncomps(p) && cm < ncomps(b) {
            c.nontrivial(fp(&(p, b)));
        }
        if i % 1999 == 5 {
            c.sample(|| json!({"kind":"relative","path":p,"base":b}));
        }
        c.judge("relative", &json!({"path":p,"base":b}), check_relative(p, b));
    });
    // names are opaque: characters that mean something to expand() (home, variables) are ordinary here
    let paths2 = all_paths(&["~", "$HOME", "n~"], 3);
    let n2 = paths2.len() as u64;
    par_for(n2 * n2, 512, |i| {
        let (p, b) = (&paths2[(i / n2) as usize], &paths2[(i % n2) as usize]);
        mark("relative", p);
        c.eval(1);
        let cm = common(p, b);
        if p != b && cm < ncomps(p) && cm < ncomps(b) {
            c.nontrivial(fp(&(p, b)));
        }
        c.class("exhaustive:expansion-characters-in-names");
        c.judge("relative", &json!({"path":p,"base":b}), check_relative(p, b));
    });
    c.note("exhaustive_space", format!("{} + {} ordered pairs", n * n, n2 * n2));
    c.set_exhaustive(true);
    let cases = c.tier.pick(100_000, 2_000_000);
    let strat = || {
        (deep_path(), deep_path(), deep_path(), any::<bool>()).prop_map(|(pre, a, b, share)| {
        if share {
            let j = |x: &str| ref_clean(&format!("{}/{}", pre, x));
            (j(&a), j(&b))
        } else {
            (a, b)
        }
    })
    };
    run_proptest("relative", 16, strat, cases, |(p, b): &(String, String)| {
        mark("relative", p);
        c.eval(1);
        let cm = common(p, b);
        if p != b && cm < ncomps(p) && cm < ncomps(b) {
            c.nontrivial(fp(&(p, b)));
            c.class("random:needs-dotdot-and-normal");
        }
        if cm > 0 {
            c.class("random:shared-prefix");
        }
        c.sample(|| json!({"kind":"relative","path":p,"base":b}));
        check_relative(p, b)
    });
}

pub fn replay(kind: &str, case: &Value) -> Option<CaseResult> {
    match kind {
        "relative" => {
            if let Some(a) = case.as_array() {
                Some(check_relative(a[0].as_str()?, a[1].as_str()?))
            } else {
                Some(check_relative(case["path"].as_str()?, case["base"].as_str()?))
            }
        },
        _ => None,
    }
}
