//! C16 — relative(path, base) is the navigation from base to path
use proptest::prelude::*;
use rivia::prelude::*;
use serde_json::{json, Value};

use crate::{engine::*, refpath::*};

fn all_paths(names: &[&str], depth: usize) -> Vec<String> {
    let mut out = vec!["/".to_string()];
    let mut frontier = vec![String::new()];
    for _ in 0..depth {
        let mut next = vec![];
        for f in &frontier {
            for n in names {
                let p = format!("{}/{}", f, n);
                out.push(p.clone());
                next.push(p);
            }
        }
        frontier = next;
    }
    out
}

fn ncomps(p: &str) -> usize {
    p.split('/').filter(|x| !x.is_empty()).count()
}

fn common(p: &str, b: &str) -> usize {
    let a: Vec<&str> = p.split('/').filter(|x| !x.is_empty()).collect();
    let c: Vec<&str> = b.split('/').filter(|x| !x.is_empty()).collect();
    let mut i = 0;
    while i < a.len() && i < c.len() && a[i] == c[i] {
        i += 1;
    }
    i
}

pub fn check_relative(p: &str, b: &str) -> CaseResult {
    let r = match catch(|| sys::relative(p, b)) {
        Ok(Ok(r)) => r,
        Ok(Err(e)) => return Err(Failure::new("relative|err", format!("relative({:?},{:?}) = Err({})", p, b, e))),
        Err(m) => return Err(Failure::new(format!("relative|panic|{}", panic_site(&m)), format!("relative({:?},{:?}) panicked: {}", p, b, m))),
    };
    let rs = r.to_str().unwrap_or("<non-utf8>").to_string();
    let joined = if rs.starts_with('/') { rs.clone() } else { format!("{}/{}", b, rs) };
    let back = ref_clean(&joined);
    if back != p {
        return Err(Failure::new(
            if p == b { "relative|equal-paths|join-mismatch" } else { "relative|join-mismatch" },
            format!("relative({:?},{:?}) = {:?}; clean(base/result) = {:?} != path", p, b, rs, back),
        ));
    }
    if p != b {
        if r.is_absolute() {
            return Err(Failure::new("relative|absolute-result", format!("relative({:?},{:?}) = {:?}", p, b, rs)));
        }
        // shape: zero or more '..' then only normal components
        let cs = comps(&r);
        let dd = cs.iter().take_while(|c| *c == "..").count();
        if cs[dd..].iter().any(|c| c == ".." || c == "." || c == "/") {
            return Err(Failure::new("relative|shape", format!("relative({:?},{:?}) = {:?} is not (../)*normal*", p, b, rs)));
        }
        let want = ncomps(b) - common(p, b);
        if dd != want {
            return Err(Failure::new("relative|dotdot-count", format!("relative({:?},{:?}) = {:?}: {} '..' expected {}", p, b, rs, dd, want)));
        }
        // PathExt form is the same function
        match std::path::Path::new(p).relative(b) {
            Ok(x) if x == r => {},
            other => return Err(Failure::new("relative|pathext-differs", format!("Path::relative gives {:?}", other.map(|x| x.display().to_string()).map_err(|e| e.to_string())))),
        }
    }
    Ok(())
}

/// component names that are not valid UTF-8 (unix names are byte strings): same laws, compared on bytes
pub fn check_relative_bytes(pc: &[Vec<u8>], bc: &[Vec<u8>]) -> CaseResult {
    use std::os::unix::ffi::{OsStrExt, OsStringExt};
    let mk = |cs: &[Vec<u8>]| -> std::path::PathBuf {
        let mut b = vec![b'/'];
        for (i, c) in cs.iter().enumerate() {
            if i > 0 {
                b.push(b'/');
            }
            b.extend_from_slice(c);
        }
        std::path::PathBuf::from(std::ffi::OsString::from_vec(b))
    };
    let (p, b) = (mk(pc), mk(bc));
    let show = format!("relative({:?},{:?})", p, b);
    let r = match catch(|| sys::relative(&p, &b)) {
        Ok(Ok(r)) => r,
        Ok(Err(e)) => return Err(Failure::new("relative|err|non-utf8-names", format!("{} = Err({})", show, e))),
        Err(m) => return Err(Failure::new(format!("relative|panic|{}|non-utf8-names", panic_site(&m)), format!("{} panicked: {}", show, m))),
    };
    let back = sys::clean(b.join(&r));
    if back.as_os_str().as_bytes() != p.as_os_str().as_bytes() {
        return Err(Failure::new("relative|join-mismatch|non-utf8-names", format!("{} = {:?}; clean(base/result) = {:?}", show, r, back)));
    }
    if pc != bc {
        let common = pc.iter().zip(bc.iter()).take_while(|(x, y)| x == y).count();
        let dd = r.components().take_while(|c| matches!(c, std::path::Component::ParentDir)).count();
        if dd != bc.len() - common || r.is_absolute() {
            return Err(Failure::new("relative|dotdot-count|non-utf8-names", format!("{} = {:?}: {} '..' expected {}", show, r, dd, bc.len() - common)));
        }
    }
    Ok(())
}

/// "used to derive stored link targets": what a backend stores as a link's relative target is
/// relative(abs(target), dir(link)) - for every spelling of the target, also for targets that do not exist, lie
/// below the link's own path or are the link's own directory. spelling: 0 absolute, 1 the minimal relative form,
/// 2 a detour: up out of the link's directory and back in through it
pub fn check_link_derivation(stdfs: bool, link: &str, target: &str, spelling: u8) -> CaseResult {
    use std::sync::atomic::{AtomicU64, Ordering};
    static SEQ: AtomicU64 = AtomicU64::new(0);
    let ldir = parent(link);
    let want = match sys::relative(target, &ldir) {
        Ok(w) => w.to_str().unwrap_or("").to_string(),
        Err(_) => return Ok(()),
    };
    let (v, root, cleanup): (Vfs, String, Option<std::path::PathBuf>) = if stdfs {
        let d = crate::sandbox::root().join(format!("c16l-{}", SEQ.fetch_add(1, Ordering::Relaxed)));
        let _ = std::fs::create_dir_all(&d);
        (Vfs::stdfs(), d.to_str().unwrap().to_string(), Some(d))
    } else {
        (Vfs::memfs(), String::new(), None)
    };
    let on = |p: &str| if p == "/" && !root.is_empty() { root.clone() } else { format!("{}{}", root, p) };
    let minimal = ref_relative(target, &ldir);
    let given = match spelling {
        0 => on(target),
        1 => if minimal.is_empty() { ".".to_string() } else { minimal.clone() },
        _ => {
            if ldir == "/" {
                on(target)
            } else {
                let own = base(&ldir);
                format!("../{}/{}", own, if minimal.is_empty() { ".".to_string() } else { minimal.clone() })
            }
        },
    };
    let r = catch(|| -> Result<Option<String>, String> {
        v.mkdir_p(on(&ldir)).map_err(|e| e.to_string())?;
        v.symlink(on(link), &given).map_err(|e| e.to_string())?;
        if stdfs {
            Ok(std::fs::read_link(on(link)).ok().and_then(|p| p.to_str().map(|s| s.to_string())))
        } else {
            Ok(v.readlink(on(link)).ok().and_then(|p| p.to_str().map(|s| s.to_string())))
        }
    });
    if let Some(d) = cleanup {
        let _ = std::fs::remove_dir_all(d);
    }
    let backend = if stdfs { "stdfs" } else { "memfs" };
    match r {
        Ok(Ok(Some(got))) => {
            // "" and "." both name the link's own directory
            let same = got == want || (matches!(got.as_str(), "" | ".") && matches!(want.as_str(), "" | "."));
            if !same {
                return Err(Failure::new(
                    format!("stored-link-target|not-relative(target,dir(link))|{}|{}", ["absolute", "relative", "relative-detour"][spelling as usize % 3], backend),
                    format!("symlink({:?}, {:?}) stored {:?}; relative({:?}, {:?}) = {:?}", link, given, got, target, ldir, want),
                ));
            }
            Ok(())
        },
        Ok(Ok(None)) => Err(Failure::new(format!("stored-link-target|unreadable|{}", backend), format!("symlink({:?}, {:?})", link, given))),
        Ok(Err(e)) => {
            ctx().inconclusive(&format!("C16 link derivation setup failed on {}: {}", backend, e));
            Ok(())
        },
        Err(p) => Err(Failure::new(format!("stored-link-target|panic|{}|{}", panic_site(&p), backend), format!("symlink({:?}, {:?}) panicked: {}", link, given, p))),
    }
}

fn deep_path() -> impl Strategy<Value = String> {
    prop::collection::vec(prop::sample::select(&["a", "b", "ab", "a.b", "é", "éé", "日本", "d e", "..z", "😀", "~", "n~", "$HOME", "${HOME}", "$", "A", "B", "Ab"][..]), 0..=12)
        .prop_map(|v| if v.is_empty() { "/".to_string() } else { format!("/{}", v.join("/")) })
}

pub fn run(c: &Ctx) {
    c.set_rule("exhaustive: all ordered pairs of the 121 clean absolute paths with <=4 components over {a,ab,b} (one name is a string prefix of another) and of the 40 with <=3 components over {~,$HOME,n~} (names are opaque to relative()), of the 40 over {a,A,b} (case matters), of the 85 over {日,本,é,ü} (multi-byte names that share their lead bytes), of the 85 over {a, 0xFF, 0xE9 'a', b} (names that are not valid UTF-8, compared on bytes) and of the 15 over {a,b} below a real tmpfs directory where a is a symlink to b/b (the function is lexical: what exists on disk is irrelevant); then seeded random pairs up to depth 12 over 18 names (multi-byte, spaces, dots, '~' and '$') with a shared random prefix in half of them. Stored link targets: every (link, target) pair over {a,ab} to depth 3 x {absolute, minimal relative, detour} spelling on Memfs and a third on Stdfs must store relative(abs(target), dir(link)). Oracle: result relative, (../)*normal*, clean(base/result)==path, #'..' == |base|-|common prefix|. Non-trivial = path!=base and the common prefix is shorter than both (needs '..' and normal parts); distinct by pair.");
    let paths = all_paths(&["a", "ab", "b"], 4);
    let n = paths.len() as u64;
    par_for(n * n, 512, |i| {
        let (p, b) = (&paths[(i / n) as usize], &paths[(i % n) as usize]);
        mark("relative", p);
        c.eval(1);
        let cm = common(p, b);
        if p != b && cm < ncomps(p) && cm < ncomps(b) {
            c.nontrivial(fp(&(p, b)));
        }
        if i % 1999 == 5 {
            c.sample(|| json!({"kind":"relative","path":p,"base":b}));
        }
        c.judge("relative", &json!({"path":p,"base":b}), check_relative(p, b));
    });
    // names are opaque: characters that mean something to expand() (home, variables) are ordinary here
    let paths2 = all_paths(&["~", "$HOME", "n~"], 3);
    let n2 = paths2.len() as u64;
    par_for(n2 * n2, 512, |i| {
        let (p, b) = (&paths2[(i / n2) as usize], &paths2[(i % n2) as usize]);
        mark("relative", p);
        c.eval(1);
        let cm = common(p, b);
        if p != b && cm < ncomps(p) && cm < ncomps(b) {
            c.nontrivial(fp(&(p, b)));
        }
        c.class("exhaustive:expansion-characters-in-names");
        c.judge("relative", &json!({"path":p,"base":b}), check_relative(p, b));
    });
    // names differing only in case are different names
    let paths3 = all_paths(&["a", "A", "b"], 3);
    let n3 = paths3.len() as u64;
    par_for(n3 * n3, 512, |i| {
        let (p, b) = (&paths3[(i / n3) as usize], &paths3[(i % n3) as usize]);
        mark("relative", p);
        c.eval(1);
        let cm = common(p, b);
        if p != b && cm < ncomps(p) && cm < ncomps(b) {
            c.nontrivial(fp(&(p, b)));
        }
        c.class("exhaustive:case-variant-names");
        c.judge("relative", &json!({"path":p,"base":b}), check_relative(p, b));
    });
    // multi-byte names whose encodings share their first bytes (a comparison that works on the bytes of the whole
    // strings diverges inside a character)
    let paths4 = all_paths(&["日", "本", "é", "ü"], 3);
    let n4 = paths4.len() as u64;
    par_for(n4 * n4, 512, |i| {
        let (p, b) = (&paths4[(i / n4) as usize], &paths4[(i % n4) as usize]);
        mark("relative", p);
        c.eval(1);
        let cm = common(p, b);
        if p != b && cm < ncomps(p) && cm < ncomps(b) {
            c.nontrivial(fp(&(p, b)));
        }
        c.class("exhaustive:multi-byte-names-sharing-lead-bytes");
        c.judge("relative", &json!({"path":p,"base":b}), check_relative(p, b));
    });
    // names that are not valid UTF-8
    let bnames: Vec<Vec<u8>> = vec![b"a".to_vec(), vec![0xff], vec![0xe9, b'a'], b"b".to_vec()];
    let mut bpaths: Vec<Vec<Vec<u8>>> = vec![vec![]];
    let mut frontier: Vec<Vec<Vec<u8>>> = vec![vec![]];
    for _ in 0..3 {
        let mut next = vec![];
        for f in &frontier {
            for n in &bnames {
                let mut p = f.clone();
                p.push(n.clone());
                bpaths.push(p.clone());
                next.push(p);
            }
        }
        frontier = next;
    }
    let nb = bpaths.len() as u64;
    par_for(nb * nb, 512, |i| {
        let (p, b) = (&bpaths[(i / nb) as usize], &bpaths[(i % nb) as usize]);
        c.eval(1);
        c.class("exhaustive:non-utf8-names");
        let cm = p.iter().zip(b.iter()).take_while(|(x, y)| x == y).count();
        if p != b && cm > 0 && cm < p.len() && cm < b.len() && p.iter().take(cm).any(|x| x.iter().any(|y| *y >= 0x80)) {
            c.nontrivial(fp(&(p, b)));
        }
        c.judge("relative-bytes", &json!({"path": p, "base": b}), check_relative_bytes(p, b));
    });
    // stored link targets are derived with relative(): every (link, target) pair over {a,ab} to depth 3 (target
    // also the root, below the link's own path, or the link's directory), three spellings, Memfs and a third on Stdfs
    {
        let pos = all_paths(&["a", "ab"], 3);
        let mut cases: Vec<(bool, String, String, u8)> = vec![];
        for l in pos.iter().filter(|p| p.as_str() != "/") {
            for t in &pos {
                if t == l {
                    continue;
                }
                for sp in 0..3u8 {
                    cases.push((false, l.clone(), t.clone(), sp));
                    if sampled(c.seed, 1601, cases.len() as u64, 1, 3) {
                        cases.push((true, l.clone(), t.clone(), sp));
                    }
                }
            }
        }
        par_for(cases.len() as u64, 16, |i| {
            let (stdfs, l, t, sp) = &cases[i as usize];
            mark("link-derivation", &serde_json::to_string(&json!([stdfs, l, t, sp])).unwrap());
            c.eval(1);
            c.class(if *stdfs { "link-derivation:stdfs" } else { "link-derivation:memfs" });
            if is_under(t, l) || *t == parent(l) || *sp == 2 {
                c.nontrivial(fp(&("link-derivation", stdfs, l, t, sp)));
            }
            c.judge("link-derivation", &json!([stdfs, l, t, sp]), check_link_derivation(*stdfs, l, t, *sp));
        });
        crate::sandbox::cleanup();
    }
    // purely lexical: the answer does not depend on what exists on disk. Paths below a real directory in
    // which `a` is a symlink to the directory b/b and b/b/a exists
    let sb = crate::sandbox::dir("c16");
    let sbs = sb.to_str().unwrap().to_string();
    let _ = std::fs::create_dir_all(sb.join("b/b/a"));
    let _ = std::os::unix::fs::symlink("b/b", sb.join("a"));
    let paths4: Vec<String> = all_paths(&["a", "b"], 3).into_iter().map(|p| if p == "/" { sbs.clone() } else { format!("{}{}", sbs, p) }).collect();
    let n4 = paths4.len() as u64;
    par_for(n4 * n4, 64, |i| {
        let (p, b) = (&paths4[(i / n4) as usize], &paths4[(i % n4) as usize]);
        mark("relative", p);
        c.eval(1);
        let cm = common(p, b);
        if p != b && cm < ncomps(p) && cm < ncomps(b) {
            c.nontrivial(fp(&(p, b)));
        }
        c.class("exhaustive:paths-that-exist-on-disk-behind-a-link");
        let r = check_relative(p, b).map_err(|mut f| {
            f.sig = format!("{}|paths-exist-on-disk", f.sig);
            f.detail = format!("{} (with {}/a a symlink to b/b on disk)", f.detail, sbs);
            f.with_case("relative-on-disk", json!({"path": p.strip_prefix(&sbs).unwrap_or(p), "base": b.strip_prefix(&sbs).unwrap_or(b)}))
        });
        c.judge("relative-on-disk", &json!(null), r);
    });
    crate::sandbox::cleanup();
    c.note("exhaustive_space", format!("{} + {} + {} + {} ordered pairs", n * n, n2 * n2, n3 * n3, n4 * n4));
    c.set_exhaustive(true);
    let cases = c.tier.pick(100_000, 2_000_000);
    let strat = || {
        (deep_path(), deep_path(), deep_path(), any::<bool>()).prop_map(|(pre, a, b, share)| {
        if share {
            let j = |x: &str| ref_clean(&format!("{}/{}", pre, x));
            (j(&a), j(&b))
        } else {
            (a, b)
        }
    })
    };
    run_proptest("relative", 16, strat, cases, |(p, b): &(String, String)| {
        mark("relative", p);
        c.eval(1);
        let cm = common(p, b);
        if p != b && cm < ncomps(p) && cm < ncomps(b) {
            c.nontrivial(fp(&(p, b)));
            c.class("random:needs-dotdot-and-normal");
        }
        if cm > 0 {
            c.class("random:shared-prefix");
        }
        c.sample(|| json!({"kind":"relative","path":p,"base":b}));
        check_relative(p, b)
    });
}

pub fn replay(kind: &str, case: &Value) -> Option<CaseResult> {
    match kind {
        "link-derivation" => {
            let a = case.as_array()?;
            let r = check_link_derivation(a[0].as_bool()?, a[1].as_str()?, a[2].as_str()?, a[3].as_u64()? as u8);
            crate::sandbox::cleanup();
            Some(r)
        },
        "relative-bytes" => {
            let p: Vec<Vec<u8>> = serde_json::from_value(case["path"].clone()).ok()?;
            let b: Vec<Vec<u8>> = serde_json::from_value(case["base"].clone()).ok()?;
            Some(check_relative_bytes(&p, &b))
        },
        "relative-on-disk" => {
            let sb = crate::sandbox::dir("c16");
            let sbs = sb.to_str().unwrap().to_string();
            let _ = std::fs::create_dir_all(sb.join("b/b/a"));
            let _ = std::os::unix::fs::symlink("b/b", sb.join("a"));
            let on = |p: &str| if p == "/" { sbs.clone() } else { format!("{}{}", sbs, p) };
            let r = check_relative(&on(case["path"].as_str()?), &on(case["base"].as_str()?));
            crate::sandbox::cleanup();
            Some(r)
        },
        "relative" => {
            if let Some(a) = case.as_array() {
                Some(check_relative(a[0].as_str()?, a[1].as_str()?))
            } else {
                Some(check_relative(case["path"].as_str()?, case["base"].as_str()?))
            }
        },
        _ => None,
    }
}
