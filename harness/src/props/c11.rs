//! C11 — chmod/chown change exactly the selected entries to exactly the requested value
use std::os::unix::fs::PermissionsExt;
use std::sync::atomic::{AtomicU64, Ordering};

use proptest::prelude::*;
use rivia::prelude::*;
use serde::{Deserialize, Serialize};
use serde_json::{json, Value};

use crate::{engine::*, fsapply::*, fsdrive::*, fsgen::*, fsmodel::*, fstypes::*, props::c01};

#[derive(Debug, Clone, Serialize, Deserialize)]
pub struct SymCase {
    pub stdfs: bool,
    /// "file" | "dir" | "link-file" | "link-dir"
    pub kind: String,
    pub start: u32,
    pub expr: String,
}

static SEQ: AtomicU64 = AtomicU64::new(0);

fn clauses() -> Vec<String> {
    let mut v = vec![];
    for t in ["d", "f", "a"] {
        for g in 1..16u32 {
            let gs: String = ["u", "g", "o", "a"].iter().enumerate().filter(|(i, _)| g & (1 << i) != 0).map(|(_, s)| *s).collect();
            for op in ["-", "+", "="] {
                for p in 1..8u32 {
                    let ps: String = ["r", "w", "x"].iter().enumerate().filter(|(i, _)| p & (1 << i) != 0).map(|(_, s)| *s).collect();
                    v.push(format!("{}:{}{}{}", t, gs, op, ps));
                }
            }
        }
    }
    v
}

fn set_start(m: &Memfs, p: &str, start: u32) {
    if start != 0 {
        let _ = m.chmod_b(p).and_then(|b| b.all(start).no_recurse().exec());
    } else {
        let _ = m.chmod_b(p).and_then(|b| b.sym("a:a-rwx").no_recurse().exec());
    }
}

/// One entry of the given kind with the given start permission bits; apply `expr` non-recursively
pub fn check_sym(case: &SymCase) -> CaseResult {
    let backend = if case.stdfs { "stdfs" } else { "memfs" };
    let (kind, target_kind) = match case.kind.as_str() {
        "file" => (Kind::File, Kind::File),
        "dir" => (Kind::Dir, Kind::Dir),
        "link-file" => (Kind::Link, Kind::File),
        _ => (Kind::Link, Kind::Dir),
    };
    let reference = chmod_sym(case.start, kind, &case.expr);
    let first_clause_kind = case.expr.chars().next().unwrap_or('?');
    let cls = format!("{}|first-target={}|{}", case.kind, if matches!(first_clause_kind, 'd' | 'f' | 'a') { first_clause_kind } else { '?' }, backend);
    // returns (result is_err, mode of the entry afterwards, mode of the link target afterwards)
    let run = || -> Result<(bool, u32, u32), String> {
        if case.stdfs {
            let d = crate::sandbox::root().join(format!("c11-{}", SEQ.fetch_add(1, Ordering::Relaxed)));
            std::fs::create_dir_all(&d).map_err(|e| e.to_string())?;
            let t = d.join("t");
            if target_kind == Kind::Dir {
                std::fs::create_dir(&t).map_err(|e| e.to_string())?;
            } else {
                std::fs::write(&t, b"x").map_err(|e| e.to_string())?;
            }
            std::fs::set_permissions(&t, std::fs::Permissions::from_mode(case.start)).map_err(|e| e.to_string())?;
            let x = if kind == Kind::Link {
                let l = d.join("x");
                std::os::unix::fs::symlink(&t, &l).map_err(|e| e.to_string())?;
                l
            } else {
                t.clone()
            };
            let r = Stdfs::chmod_b(&x).and_then(|b| b.sym(&case.expr).no_recurse().exec());
            let mode = std::fs::symlink_metadata(&x).map_err(|e| e.to_string())?.permissions().mode();
            let tmode = std::fs::symlink_metadata(&t).map_err(|e| e.to_string())?.permissions().mode();
            let _ = std::fs::set_permissions(&t, std::fs::Permissions::from_mode(0o700));
            let _ = std::fs::remove_dir_all(&d);
            Ok((r.is_err(), mode, tmode))
        } else {
            let m = Memfs::new();
            if target_kind == Kind::Dir {
                let _ = m.mkdir_p("/t");
            } else {
                let _ = m.mkfile("/t");
            }
            set_start(&m, "/t", case.start);
            let x = if kind == Kind::Link {
                let _ = m.symlink("/x", "/t");
                "/x"
            } else {
                "/t"
            };
            let r = m.chmod_b(x).and_then(|b| b.sym(&case.expr).no_recurse().exec());
            let mode = m.mode(x).map_err(|e| e.to_string())?;
            let tmode = m.mode("/t").map_err(|e| e.to_string())?;
            // is_exec / is_readonly agree with mode()
            if m.is_exec("/t") != (tmode & 0o111 != 0) || m.is_readonly("/t") != (tmode & 0o222 == 0) {
                return Err(format!("is_exec/is_readonly disagree with mode {:o}", tmode));
            }
            Ok((r.is_err(), mode, tmode))
        }
    };
    let (is_err, mode, tmode) = match catch(run) {
        Ok(Ok(x)) => x,
        Ok(Err(e)) => {
            if e.starts_with("is_exec") {
                return Err(Failure::new(format!("is_exec-is_readonly|disagree-with-mode|{}", backend), e));
            }
            ctx().inconclusive(&format!("C11 setup failed on {}: {}", backend, e));
            return Ok(());
        },
        Err(p) => return Err(Failure::new(format!("chmod-sym|panic|{}|{}", panic_site(&p), backend), format!("{:?} panicked: {}", case, p))),
    };
    let type_bits = |k: Kind| match k {
        Kind::Dir => 0o40000,
        Kind::File => 0o100000,
        Kind::Link => 0o120000,
    };
    // a symlink itself is never altered and (no follow) neither is its target
    if kind == Kind::Link {
        if tmode & 0o7777 != case.start || (mode & 0o170000) != 0o120000 {
            return Err(Failure::new(format!("chmod-sym|link-or-target-altered|{}", cls), format!("{:?}: link mode {:o}, target mode {:o}", case, mode, tmode)));
        }
        return match reference {
            // a malformed first clause is reported whatever kind of entry it meets (fix 9a7d7f6; before it a link
            // made both backends accept the expression unread)
            Err(0) if !is_err => Err(Failure::new(format!("chmod-sym|malformed-first-clause-accepted|{}", cls), format!("{:?} returned Ok", case))),
            _ => Ok(()),
        };
    }
    if mode & 0o170000 != type_bits(kind) {
        return Err(Failure::new(format!("chmod-sym|file-type-bits-changed|{}", cls), format!("{:?}: mode {:o}", case, mode)));
    }
    match reference {
        Ok(want) => {
            if is_err {
                return Err(Failure::new(format!("chmod-sym|rejected-well-formed|{}", cls), format!("{:?} returned an error", case)));
            }
            if mode & 0o7777 != want {
                let clauses = case.expr.matches(',').count() + 1;
                return Err(Failure::new(
                    format!("chmod-sym|wrong-bits|clauses={}|{}", clauses.min(3), cls),
                    format!("{:?}: bits {:o} want {:o}", case, mode & 0o7777, want),
                ));
            }
            Ok(())
        },
        Err(0) => {
            // first clause malformed: error and nothing changed
            if !is_err {
                return Err(Failure::new(format!("chmod-sym|malformed-first-clause-accepted|{}", cls), format!("{:?} returned Ok", case)));
            }
            if mode & 0o7777 != case.start {
                return Err(Failure::new(format!("chmod-sym|malformed-first-clause-changed-mode|{}", cls), format!("{:?}: bits {:o}", case, mode & 0o7777)));
            }
            Ok(())
        },
        Err(_) => {
            // later clause malformed: must fail and leave this entry unchanged
            if !is_err {
                return Err(Failure::new(format!("chmod-sym|malformed-later-clause-accepted|{}", cls), format!("{:?} returned Ok", case)));
            }
            if mode & 0o7777 != case.start {
                return Err(Failure::new(format!("chmod-sym|malformed-later-clause-changed-mode|{}", cls), format!("{:?}: bits {:o}", case, mode & 0o7777)));
            }
            Ok(())
        },
    }
}

/// octal value on one entry (the value 0 is the recorded 'unset sentinel' finding)
pub fn check_octal(kind: &str, start: u32, value: u32) -> CaseResult {
    let m = Memfs::new();
    if kind == "dir" {
        let _ = m.mkdir_p("/t");
    } else {
        let _ = m.mkfile("/t");
    }
    set_start(&m, "/t", start);
    let r = catch(|| m.chmod("/t", value));
    match r {
        Err(p) => Err(Failure::new("chmod-octal|panic", format!("chmod(/t,{:o}) panicked: {}", value, p))),
        Ok(Err(e)) => Err(Failure::new("chmod-octal|err", format!("chmod(/t,{:o}) = Err({})", value, e))),
        Ok(Ok(())) => {
            let mode = m.mode("/t").unwrap_or(0);
            if mode & 0o7777 != value {
                return Err(Failure::new(
                    format!("chmod-octal|value-not-set|value={}|{}", if value == 0 { "zero" } else { "nonzero" }, kind),
                    format!("chmod(/t, {:o}) on a {} with bits {:o} leaves bits {:o}", value, kind, start, mode & 0o7777),
                ));
            }
            Ok(())
        },
    }
}

/// the same on the real filesystem (tmpfs), set up and observed with std::fs
pub fn check_octal_std(kind: &str, start: u32, value: u32) -> CaseResult {
    let d = crate::sandbox::root().join(format!("c11o-{}", SEQ.fetch_add(1, Ordering::Relaxed)));
    let _ = std::fs::create_dir_all(&d);
    let t = d.join("t");
    let prep = if kind == "dir" { std::fs::create_dir(&t) } else { std::fs::write(&t, b"x") }.and_then(|_| std::fs::set_permissions(&t, std::fs::Permissions::from_mode(start)));
    if let Err(e) = prep {
        let _ = std::fs::remove_dir_all(&d);
        ctx().inconclusive(&format!("C11 cannot prepare {:?}: {}", t, e));
        return Ok(());
    }
    let r = catch(|| Stdfs::chmod(&t, value));
    let mode = std::fs::symlink_metadata(&t).map(|m| m.permissions().mode()).unwrap_or(0);
    let _ = std::fs::set_permissions(&t, std::fs::Permissions::from_mode(0o700));
    let _ = std::fs::remove_dir_all(&d);
    match r {
        Err(p) => Err(Failure::new("chmod-octal|panic|stdfs", format!("chmod({:o}) panicked: {}", value, p))),
        Ok(Err(e)) => Err(Failure::new("chmod-octal|err|stdfs", format!("chmod(t,{:o}) = Err({})", value, e))),
        Ok(Ok(())) => {
            if mode & 0o7777 != value {
                return Err(Failure::new(
                    format!("chmod-octal|value-not-set|value={}|{}|stdfs", if value == 0 { "zero" } else if value & 0o7000 != start & 0o7000 && value & 0o777 == start & 0o777 { "only-special-bits-differ" } else { "nonzero" }, kind),
                    format!("Stdfs::chmod(t, {:o}) on a {} with bits {:o} leaves bits {:o}", value, kind, start, mode & 0o7777),
                ));
            }
            Ok(())
        },
    }
}

fn create_spec() -> impl Strategy<Value = OpSpec> {
    // only creating / mode / owner setting ops to build a tree quickly
    (prop::sample::select(vec![0u8, 4, 4, 5, 8, 3, 7, 58, 59, 60, 37, 41]), any::<u8>(), any::<u16>(), any::<u8>(), any::<u16>(), any::<u32>())
        .prop_map(|(k, c, i, c2, i2, n)| OpSpec { k, a: Sel { class: c, idx: i, spell: 0 }, b: Sel { class: c2, idx: i2, spell: 0 }, n, d: vec![b'x'] })
}

fn final_spec() -> impl Strategy<Value = OpSpec> {
    (prop::sample::select(vec![37u8, 39, 39, 40, 40, 41, 42, 42]), any::<u16>(), any::<u32>(), prop::sample::select(vec![0u8, 1, 2, 8, 9]))
        .prop_map(|(k, i, n, class)| OpSpec { k, a: Sel { class, idx: i, spell: 0 }, b: Sel { class: 0, idx: 0, spell: 0 }, n, d: vec![] })
}

pub fn check_tree(c: &Ctx, specs: &[OpSpec]) -> CaseResult {
    let cfg = GenCfg { names: NAMES_PFX, avoid_through_link: true, plain_spelling: true, wild: false, handles: false };
    let r = c01::check_history(c, specs, &cfg, &c01::OPTS, "ops");
    r
}

/// after any history: is_exec / is_readonly agree with mode() for every non-link entry
fn exec_readonly_agree(ops: &[Op]) -> CaseResult {
    let m = Memfs::new();
    for op in ops {
        let _ = apply(&m, op);
    }
    let t = tree_from_dump(&m.verif_dump());
    for (p, n) in &t.nodes {
        if n.kind() != Kind::Link && (m.is_exec(p) != (n.mode() & 0o111 != 0) || m.is_readonly(p) != (n.mode() & 0o222 == 0)) {
            return Err(Failure::new("is_exec-is_readonly|disagree-with-mode|memfs", format!("{:?} mode {:o}: is_exec {} is_readonly {}", p, n.mode(), m.is_exec(p), m.is_readonly(p))));
        }
    }
    Ok(())
}

pub fn run(c: &Ctx) {
    c.set_rule("(a) exhaustive on one entry: every start permission value 0..=0o777 (512) x every well-formed single clause of the grammar [dfa]:[ugoa]+[-+=][rwx]+ (945) x {file, dir} on Memfs, link->file / link->dir with 64 start values; a seeded sample (quick 1/40, thorough all 945^2 on 16 start values) of double clauses incl. readonly() and secure(); malformed expressions: every single-character deletion / substitution of a sample of well-formed ones + random strings; the same single clauses on a tmpfs Stdfs sandbox for 16 start values; octal values 0..=0o7777 (special bits included) on file and dir from 4 start modes, on Memfs and on Stdfs. Oracle: reference interpreter of the documented grammar applied clause by clause to entries of the matching kind; type bits preserved; links and (without follow) their targets untouched; malformed first clause => Err and unchanged; is_exec/is_readonly == mode bits. (b) random trees (dirs, files, links incl. dangling, various modes/owners) + one chmod/chmod_b/chown/chown_b with every option combination (all/dirs/files/sym x recurse x follow; uid/gid/owner x recurse x follow): full tree equality with the reference model (exactly the targeted entries changed). (c) two hand-made trees (prefix-named sibling directories linked to each other, links to files, dirs, ancestors and nothing; non-default modes and owners) x every path x every chmod_b / chown_b option combination (incl. octal modes and a symbolic expression on one builder, in both orders), same oracle; the same trees (minus the dangling link) x calls on a tmpfs Stdfs sandbox against the Memfs twin, std::fs as observer (modes and owners of every entry, link targets outside the call's reach above all). Non-trivial = expression whose first clause targets the other kind, or a tree with a link, or value 0; distinct by case.");
    c.assume("symbolic expressions applied through followed links and later-clause malformation only require the failing entry to be unchanged (DESIGN 6.3)");
    let cl = clauses();
    c.note("single_clauses", cl.len());
    // (a1) single clauses, Memfs, file + dir, all 512 start modes
    let n = 512u64 * cl.len() as u64 * 2;
    par_for(n, 2048, |i| {
        let kind = if i % 2 == 0 { "file" } else { "dir" };
        let j = i / 2;
        let start = (j % 512) as u32;
        let expr = &cl[(j / 512) as usize];
        let case = SymCase { stdfs: false, kind: kind.to_string(), start, expr: expr.clone() };
        c.eval(1);
        let other = (kind == "file" && expr.starts_with('d')) || (kind == "dir" && expr.starts_with('f'));
        if other && i % 8 == 0 {
            c.nontrivial(fp(&(kind, start, expr)));
        }
        if i % 200_003 == 1 {
            c.sample(|| json!({"kind":"sym","case":case}));
        }
        c.judge("sym", &case, check_sym(&case));
    });
    // start values with set-uid / set-gid / sticky bits: a clause speaks about rwx only, the special bits stay
    {
        let specials = [0o1777u32, 0o4755, 0o2750, 0o7777, 0o1000, 0o6644];
        par_for((specials.len() * cl.len() * 2) as u64, 256, |i| {
            let kind = if i % 2 == 0 { "file" } else { "dir" };
            let j = (i / 2) as usize;
            let case = SymCase { stdfs: false, kind: kind.to_string(), start: specials[j % specials.len()], expr: cl[j / specials.len()].clone() };
            c.eval(1);
            c.nontrivial(fp(&(kind, case.start, &case.expr)));
            c.class("sym:start-with-special-bits");
            c.judge("sym", &case, check_sym(&case));
        });
    }
    // links
    par_for(64 * cl.len() as u64 * 2, 1024, |i| {
        let kind = if i % 2 == 0 { "link-file" } else { "link-dir" };
        let j = i / 2;
        let start = ((j % 64) * 8 + 5) as u32 % 512;
        let case = SymCase { stdfs: false, kind: kind.to_string(), start, expr: cl[(j / 64) as usize].clone() };
        c.eval(1);
        c.nontrivial(fp(&(kind, start, &case.expr)));
        c.judge("sym", &case, check_sym(&case));
    });
    // (a2) double clauses
    let starts = [0o000u32, 0o644, 0o755, 0o700, 0o111, 0o222, 0o444, 0o777, 0o070, 0o007, 0o123, 0o456, 0o640, 0o501, 0o316, 0o275];
    let total = (cl.len() * cl.len()) as u64;
    let den = c.tier.pick(40, 1);
    par_for(total, 512, |i| {
        if !sampled(c.seed, 1102, i, 1, den) {
            return;
        }
        let (a, b) = (&cl[(i / cl.len() as u64) as usize], &cl[(i % cl.len() as u64) as usize]);
        let expr = format!("{},{}", a, b);
        for (k, kind) in ["file", "dir"].iter().enumerate() {
            let start = starts[((i as usize) + k * 7) % starts.len()];
            let case = SymCase { stdfs: false, kind: kind.to_string(), start, expr: expr.clone() };
            c.eval(1);
            if (a.starts_with('d') && *kind == "file") || (a.starts_with('f') && *kind == "dir") {
                c.nontrivial(fp(&(kind, start, &expr)));
                c.class("double-clause:first-targets-other-kind");
            }
            c.judge("sym", &case, check_sym(&case));
        }
    });
    for expr in ["f:a+r,f:a-wx", "a:go-rwx"] {
        for kind in ["file", "dir", "link-file", "link-dir"] {
            for start in 0..512u32 {
                c.eval(1);
                let case = SymCase { stdfs: false, kind: kind.to_string(), start, expr: expr.to_string() };
                c.judge("sym", &case, check_sym(&case));
            }
        }
    }
    // (a3) malformed: corruptions of well-formed expressions
    let mut bad: Vec<String> = vec![];
    for (i, e) in cl.iter().enumerate() {
        if i % 23 != 0 {
            continue;
        }
        let chars: Vec<char> = e.chars().collect();
        for pos in 0..chars.len() {
            let mut d = chars.clone();
            d.remove(pos);
            bad.push(d.iter().collect());
            for sub in ['z', ':', ',', 'd', 'q', '+', 'é'] {
                let mut s = chars.clone();
                s[pos] = sub;
                bad.push(s.iter().collect());
            }
        }
        // every corruption also as the first clause of a longer expression whose tail is well-formed and
        // aimed at either kind
        let n0 = bad.len();
        let firsts: Vec<String> = bad[bad.len().saturating_sub(chars.len() * 8).min(n0)..].to_vec();
        for f in firsts {
            bad.push(format!("{},f:u+x", f));
            bad.push(format!("{},d:g+w", f));
            bad.push(format!("{},a:o=r", f));
        }
        bad.push(format!("{},", e));
        bad.push(format!(",{}", e));
        bad.push(format!("{},x", e));
        bad.push(format!("{},f:u+q", e));
        bad.push(format!("f:u+q,{}", e));
        bad.push(format!("d:z+r,{}", e));
    }
    bad.extend(["a", "a:", "a:a", "a:a+", "u+x", "a:+x", "f:ug", "d:z+r", "f:u+q", "f:u+x,d", "f:u+x,d:", "f:u+x,d:g", "f:u+x,d:g="].iter().map(|s| s.to_string()));
    // lenient extensions of the documented grammar are not asserted either way: an omitted target
    // (":u+x"), several target letters ("df:u+x"), an empty expression and a trailing comma
    let before = bad.len();
    bad.retain(|e| {
        !e.is_empty()
            && !e.ends_with(',')
            && e.split(',').all(|cl| {
                let head: Vec<char> = cl.chars().take_while(|c| *c != ':').collect();
                !(cl.contains(':') && (head.is_empty() || (head.len() > 1 && head.iter().all(|c| matches!(c, 'd' | 'f' | 'a')))))
            })
    });
    c.exclude((before - bad.len()) as u64);
    par_for(bad.len() as u64, 16, |i| {
        for kind in ["file", "dir"] {
            for start in [0o644u32, 0o750] {
                let case = SymCase { stdfs: false, kind: kind.to_string(), start, expr: bad[i as usize].clone() };
                c.eval(1);
                if chmod_sym(start, Kind::File, &case.expr).is_err() {
                    c.nontrivial(fp(&(kind, start, &case.expr)));
                    c.class("malformed-expression");
                }
                c.judge("sym", &case, check_sym(&case));
            }
        }
    });
    c.note("malformed_expressions", bad.len());
    // (a4) Stdfs
    let std_starts = &starts[..c.tier.pick(4, 16)];
    par_for((cl.len() * std_starts.len()) as u64, 64, |i| {
        let start = std_starts[i as usize % std_starts.len()];
        if start & 0o700 != 0o700 && start != 0 && false {
            return;
        }
        for kind in ["file", "dir", "link-file"] {
            let case = SymCase { stdfs: true, kind: kind.to_string(), start, expr: cl[i as usize / std_starts.len()].clone() };
            c.eval(1);
            c.class("stdfs:single-clause");
            c.judge("sym", &case, check_sym(&case));
        }
    });
    // (a5) octal
    // Stdfs: every value 0..=0o7777 from four start modes (special bits set and unset)
    par_for(4096 * 2, 64, |i| {
        let kind = if i % 2 == 0 { "file" } else { "dir" };
        let value = (i / 2) as u32;
        for start in [0o644u32, 0o755, 0o4755, 0o1777] {
            if value == 0 {
                continue; // the documented "unset" sentinel: listed finding on Memfs, not re-asserted per backend
            }
            c.eval(1);
            c.class("octal:stdfs");
            if value & 0o777 == start & 0o777 {
                c.nontrivial(fp(&("octal-std", kind, start, value)));
            }
            c.judge("octal-std", &json!([kind, start, value]), check_octal_std(kind, start, value));
        }
    });
    crate::sandbox::cleanup();
    // a mode argument may carry file-type bits (the crate's own examples pass 0o40755 to mkdir_m): the permission
    // bits are taken from it, the type bits stay those of the entry
    for kind in ["file", "dir"] {
        for value in [0o40644u32, 0o100755, 0o120777, 0o10600, 0o170644, 0o60000 | 0o711, 0o140000 | 0o4755] {
            c.eval(1);
            c.nontrivial(fp(&("octal-type-bits", kind, value)));
            c.class("octal:value-with-type-bits");
            let r = (|| -> CaseResult {
                let m = Memfs::new();
                if kind == "dir" {
                    let _ = m.mkdir_p("/t");
                } else {
                    let _ = m.mkfile("/t");
                }
                let r = catch(|| m.chmod("/t", value)).map_err(|p| Failure::new("chmod-octal|panic", format!("chmod(/t,{:o}) panicked: {}", value, p)))?;
                let mode = m.mode("/t").unwrap_or(0);
                let want_type = if kind == "dir" { 0o40000 } else { 0o100000 };
                if mode & 0o170000 != want_type {
                    return Err(Failure::new(format!("chmod-octal|type-bits-changed|{}", kind), format!("chmod(/t, {:o}) = {:?} on a {}: mode is now {:o}", value, r.map_err(|e| e.to_string()), kind, mode)));
                }
                if r.is_ok() && mode & 0o7777 != value & 0o7777 {
                    return Err(Failure::new(format!("chmod-octal|value-not-set|value=with-type-bits|{}", kind), format!("chmod(/t, {:o}) on a {} leaves bits {:o}", value, kind, mode & 0o7777)));
                }
                Ok(())
            })();
            c.judge("octal-type-bits", &json!([kind, value]), r);
        }
    }
    par_for(4096 * 2, 64, |i| {
        let kind = if i % 2 == 0 { "file" } else { "dir" };
        let value = (i / 2) as u32;
        for start in [0o644u32, 0o777, 0o000, 0o4755] {
            c.eval(1);
            if value == 0 {
                c.nontrivial(fp(&("octal", kind, start, value)));
            }
            c.judge("octal", &json!([kind, start, value]), check_octal(kind, start, value));
        }
    });
    c.set_exhaustive(true);
    // (c) hand-made trees (prefix-named siblings linked to each other, links to files / dirs / ancestors,
    // non-default modes and owners) x every builder option combination on every path, against the model
    {
        let d = |p: &str, m: u32| Op::MkdirM(p.to_string(), m);
        let f = |p: &str| Op::WriteAll(p.to_string(), b"x".to_vec());
        let l = |a: &str, b: &str| Op::Symlink(a.to_string(), b.to_string());
        let trees: Vec<Vec<Op>> = vec![
            vec![d("/a", 0o750), f("/a/f"), d("/a/sub", 0o700), d("/ab", 0o755), f("/ab/g"), l("/ab/peer", "/a"), l("/ab/lf", "/a/f"), d("/b", 0o711), d("/b/a", 0o755), l("/b/a/up", "/b"), Op::Chown("/a/f".into(), 7, 8)],
            vec![d("/data1", 0o755), f("/data1/x"), d("/data10", 0o755), l("/data10/peer", "/data1"), d("/data10/in", 0o700), l("/data10/in/back", "/data10"), l("/dang", "/nope")],
            // a chain of links to a file (what a following call reaches is the end of the chain, never a link on the
            // way; whether a recursive following call DESCENDS through a chain that ends in a directory is the
            // traversal's business, unspecified there, and stays out)
            vec![d("/c", 0o755), f("/c/f"), l("/c/l2", "/c/f"), l("/c/l1", "/c/l2"), d("/o", 0o711), l("/o/into", "/c/l1"), f("/o/h")],
        ];
        let mut cases: Vec<Vec<Op>> = vec![];
        for t in &trees {
            let paths: Vec<String> = {
                let m = crate::props::c08::build_model(t);
                let mut v: Vec<String> = m.t.nodes.keys().cloned().collect();
                v.push("/nope".into());
                v
            };
            for p in &paths {
                for rec in [false, true] {
                    for follow in [false, true] {
                        for sel in [
                            ChmodSel::All(0o640),
                            ChmodSel::All(0o777),
                            ChmodSel::Dirs(0o701),
                            ChmodSel::Files(0o604),
                            ChmodSel::Sym("d:o+w,f:g-r".into()),
                            ChmodSel::Sym("a:a-x".into()),
                            // several options on one builder, the expression set first or last
                            ChmodSel::Mix { dirs: 0o700, files: 0, sym: "f:a-w".into(), sym_first: false },
                            ChmodSel::Mix { dirs: 0o700, files: 0, sym: "f:a-w".into(), sym_first: true },
                            ChmodSel::Mix { dirs: 0, files: 0o600, sym: "d:g+w".into(), sym_first: false },
                            ChmodSel::Mix { dirs: 0o711, files: 0o640, sym: "a:a+x".into(), sym_first: false },
                        ] {
                            let mut v = t.clone();
                            v.push(Op::ChmodB(p.clone(), ChmodOpt { sel, recursive: rec, follow }));
                            cases.push(v);
                        }
                        for (u, g) in [(Some(5), None), (None, Some(6)), (Some(5), Some(6))] {
                            let mut v = t.clone();
                            v.push(Op::ChownB(p.clone(), ChownOpt { uid: u, gid: g, recursive: rec, follow }));
                            cases.push(v);
                        }
                    }
                }
                let mut v = t.clone();
                v.push(Op::Chmod(p.clone(), 0o600));
                cases.push(v);
                let mut v = t.clone();
                v.push(Op::Chown(p.clone(), 9, 10));
                cases.push(v);
            }
        }
        par_for(cases.len() as u64, 16, |i| {
            let ops = &cases[i as usize];
            mark("ops", &serde_json::to_string(ops).unwrap());
            c.eval(1);
            c.nontrivial(fp(&format!("{:?}", ops)));
            c.class("directed-tree-x-options");
            if i % 211 == 0 {
                c.sample(|| json!({"kind":"ops","last": ops.last()}));
            }
            let r = run_ops(ops, &c01::OPTS).and_then(|_| exec_readonly_agree(ops)).map_err(|f| f.with_case("ops", json!(ops)));
            c.judge("ops", &json!(null), r);
        });
        c.note("directed_tree_option_cases", cases.len());
        // the same trees (without the dangling link: outside the domain both backends are specified on) and calls on
        // the real-filesystem backend: std::fs observes the tree, the Memfs twin (held to the model above) is the
        // reference for which entries a call may touch - a link's target directory outside the call's reach above all
        let std_cases: Vec<&Vec<Op>> = cases
            .iter()
            .filter(|v| !matches!(v.last(), Some(Op::ChmodB(p, _)) | Some(Op::ChownB(p, _)) | Some(Op::Chmod(p, _)) | Some(Op::Chown(p, ..)) if p == "/dang" || p == "/nope" || p == "/"))
            .collect();
        par_for(std_cases.len() as u64, 8, |i| {
            let ops = std_cases[i as usize];
            let rr = |o: &Op| -> Op { serde_json::from_str(&crate::props::c02::reroot(&serde_json::to_string(o).unwrap())).unwrap() };
            let setup: Vec<Op> = ops[..ops.len() - 1].iter().filter(|o| !matches!(o, Op::Symlink(l, _) if l == "/dang")).map(rr).collect();
            let case = crate::props::c02::DiffCase { setup, calls: vec![rr(ops.last().unwrap())] };
            mark("diff", &serde_json::to_string(&case).unwrap());
            c.eval(1);
            c.nontrivial(fp(&format!("std{:?}", ops)));
            c.class("directed-tree-x-options:stdfs-vs-memfs");
            let r = crate::props::c02::check_diff(&case).map_err(|f| f.with_case("diff", serde_json::to_value(&case).unwrap()));
            c.judge("diff", &json!(null), r);
        });
        c.note("directed_tree_option_cases_on_stdfs", std_cases.len());
        // chains at the length where resolution stops: 39 and 40 links are followed by the kernel (and must be by
        // Memfs), whatever the call
        for n in [1usize, 2, 39, 40] {
            let mut setup = vec![Op::MkdirM("@/c".into(), 0o755), Op::WriteAll("@/c/f".into(), b"x".to_vec())];
            for k in (1..=n).rev() {
                let target = if k == n { "@/c/f".to_string() } else { format!("@/c/l{}", k + 1) };
                setup.push(Op::Symlink(format!("@/c/l{}", k), target));
            }
            for call in [
                Op::ChmodB("@/c/l1".into(), ChmodOpt { sel: ChmodSel::All(0o600), recursive: false, follow: true }),
                Op::ChmodB("@/c".into(), ChmodOpt { sel: ChmodSel::Files(0o640), recursive: true, follow: true }),
                Op::ChownB("@/c/l1".into(), ChownOpt { uid: Some(5), gid: Some(6), recursive: false, follow: true }),
            ] {
                let case = crate::props::c02::DiffCase { setup: setup.clone(), calls: vec![call] };
                c.eval(1);
                c.nontrivial(fp(&format!("chain{}{:?}", n, case.calls)));
                c.class("link-chain-at-the-resolution-limit:stdfs-vs-memfs");
                let r = crate::props::c02::check_diff(&case).map_err(|f| f.with_case("diff", serde_json::to_value(&case).unwrap()));
                c.judge("diff", &json!(null), r);
            }
        }
    }
    // (b) trees x options against the reference model
    let n = c.tier.pick(8_000, 200_000);
    run_proptest(
        "ops",
        1103,
        || (prop::collection::vec(create_spec(), 3..14), final_spec(), final_spec()).prop_map(|(mut v, f, g)| {
            v.push(f);
            v.push(g);
            v
        }),
        n,
        |specs: &Vec<OpSpec>| {
            let r = check_tree(c, specs);
            if r.is_ok() {
                // cheap extra oracle on the same history
                let cfg = GenCfg { names: NAMES_PFX, avoid_through_link: true, plain_spelling: true, wild: false, handles: false };
                let mut ex = 0;
                let (st, _) = run_specs(specs, &cfg, &StepOpts { model_compare: false, api_view: false }, &mut ex);
                return exec_readonly_agree(&st.ops).map_err(|f| f.with_case("ops", json!(st.ops)));
            }
            r
        },
    );
    crate::sandbox::cleanup();
}

pub fn replay(kind: &str, case: &Value) -> Option<CaseResult> {
    let r = match kind {
        "sym" => Some(check_sym(&serde_json::from_value(case.clone()).ok()?)),
        "octal-type-bits" => Some(Ok(())), // covered by the run itself (fixed table)
        "octal-std" => {
            let a = case.as_array()?;
            Some(check_octal_std(a[0].as_str()?, a[1].as_u64()? as u32, a[2].as_u64()? as u32))
        },
        "octal" => {
            let a = case.as_array()?;
            Some(check_octal(a[0].as_str()?, a[1].as_u64()? as u32, a[2].as_u64()? as u32))
        },
        "ops" => {
            let ops: Vec<Op> = serde_json::from_value(case.clone()).ok()?;
            Some(run_ops(&ops, &c01::OPTS).and_then(|_| exec_readonly_agree(&ops)))
        },
        "diff" => Some(crate::props::c02::check_diff(&serde_json::from_value(case.clone()).ok()?)),
        _ => None,
    };
    crate::sandbox::cleanup();
    r
}
