//! C18 — XDG directory lookup honours the environment with the right precedence
use std::collections::BTreeMap;
use std::path::{Path, PathBuf};

use serde::{Deserialize, Serialize};
use serde_json::{json, Value};

use crate::{child::probe, engine::*};

type Env = BTreeMap<String, String>;

#[derive(Debug, Clone, Serialize, Deserialize)]
pub struct XdgCase {
    pub env: Env,
}

#[derive(Debug, Clone, Serialize, Deserialize)]
pub struct CfgCase {
    pub env: Env,
    /// candidate directories (as spelled in the environment / defaults) that contain the file
    pub present: Vec<String>,
    pub stdfs: bool,
    /// the name looked up: a flat file name or a name of several components
    #[serde(default = "default_cfg_name")]
    pub name: String,
    /// Memfs only: the filesystem's cwd (relative candidates resolve against it) and files that sit elsewhere
    #[serde(default)]
    pub cwd: Option<String>,
    #[serde(default)]
    pub decoys: Vec<String>,
}

fn default_cfg_name() -> String {
    CFG_NAME.to_string()
}

const CFG_NAMES: &[&str] = &[CFG_NAME, "rvh-c18-app/sub/conf.toml"];

/// (re)creates candidate directory `d` for a Stdfs case: absent, a directory holding the file, or - `linked` - a
/// symbolic link to such a directory (a system directory that is a link, as /etc/xdg is on some distributions)
fn place_cfg(d: &str, name: &str, present: bool, linked: bool) {
    let real = format!("{}.real", d.trim_end_matches('/'));
    let _ = std::fs::remove_file(d.trim_end_matches('/'));
    let _ = std::fs::remove_dir_all(d);
    let _ = std::fs::remove_dir_all(&real);
    if present && linked {
        let _ = std::fs::create_dir_all(&real);
        write_cfg_file(&real, name);
        let _ = std::os::unix::fs::symlink(&real, d.trim_end_matches('/'));
    } else if present {
        let _ = std::fs::create_dir_all(d);
        write_cfg_file(d, name);
    }
}

fn write_cfg_file(dir: &str, name: &str) {
    let p = Path::new(dir).join(name);
    if let Some(par) = p.parent() {
        let _ = std::fs::create_dir_all(par);
    }
    let _ = std::fs::write(p, b"x");
}

#[derive(Debug, Clone, Serialize, Deserialize)]
pub struct RidsCase {
    pub env: Env,
    /// ask from a child that gave up root first (the answer depends on the arguments and the two variables, not on
    /// who is asking)
    #[serde(default)]
    pub unprivileged: bool,
}

const HOMES: &[Option<&str>] = &[None, Some(""), Some("/home/u"), Some("/"), Some("/home/u/")];
const XHOME: &[Option<&str>] = &[None, Some(""), Some("/x/val")];
const LISTS: &[Option<&str>] = &[None, Some(""), Some("/l1"), Some("/l1:/l2"), Some(":/l1::/l2:")];
/// lists for the getter cross-product: additionally the root directory as an entry and entries with trailing separators
const LISTS_G: &[Option<&str>] = &[None, Some(""), Some("/l1"), Some("/l1:/l2"), Some(":/l1::/l2:"), Some("/"), Some("/l1/:/:/l2//"), Some("/l1:/l1::/l1:/l2"), Some("::"), Some("/l1: /l2 :/l3"), Some(" ")];
const RUNTIME: &[Option<&str>] = &[None, Some("/run/u")];

fn split_list(v: &str) -> Vec<String> {
    v.split(':').filter(|x| !x.is_empty()).map(|x| x.to_string()).collect()
}

fn ok_path(v: &Value) -> Option<Option<String>> {
    v.get("ok").map(|x| x.as_str().map(|s| s.to_string()))
}

fn ok_list(v: &Value) -> Option<Vec<String>> {
    v.get("ok").and_then(|x| x.as_array()).map(|a| a.iter().map(|s| s.as_str().unwrap_or("<non-utf8>").to_string()).collect())
}

fn state(v: Option<&String>) -> &'static str {
    match v.map(|s| s.as_str()) {
        None => "unset",
        Some("") => "empty",
        _ => "set",
    }
}

/// `*_HOME` style getter: admitted results
fn want_home_getter(env: &Env, var: &str, suffix: &[&str]) -> (Vec<PathBuf>, bool) {
    // returns (admitted Ok values, Err admitted)
    let default = |out: &mut Vec<PathBuf>, err: &mut bool| match env.get("HOME").map(|s| s.as_str()) {
        None => *err = true,
        Some("") => {
            // pathological: "$HOME/x" with empty HOME; relative and rooted spelling both admitted
            let rel: PathBuf = suffix.iter().collect();
            out.push(rel.clone());
            out.push(Path::new("/").join(rel));
        },
        Some(h) => {
            let mut p = PathBuf::from(h);
            for s in suffix {
                p.push(s);
            }
            out.push(p);
        },
    };
    let mut out = vec![];
    let mut err = false;
    match env.get(var).map(|s| s.as_str()) {
        None => default(&mut out, &mut err),
        Some("") => {
            // statement: "the XDG_*_HOME value when set"; XDG spec: empty means unset. Both admitted.
            out.push(PathBuf::from(""));
            default(&mut out, &mut err);
        },
        Some(v) => out.push(PathBuf::from(v)),
    }
    (out, err)
}

fn check_getter(name: &str, resp: &Value, want: &(Vec<PathBuf>, bool), env: &Env, var: &str) -> CaseResult {
    if let Some(m) = resp.get("panic") {
        return Err(Failure::new(format!("{}|panic", name), format!("{} panicked: {} env {:?}", name, m, env)));
    }
    let cls = format!("{}={},HOME={}", var, state(env.get(var)), state(env.get("HOME")));
    match ok_path(resp) {
        Some(Some(got)) => {
            if want.0.iter().any(|w| w.as_path() == Path::new(&got)) {
                Ok(())
            } else {
                Err(Failure::new(format!("{}|value|{}", name, cls), format!("{} = {:?} want one of {:?} env {:?}", name, got, want.0, env)))
            }
        },
        Some(None) => Err(Failure::new(format!("{}|non-utf8", name), format!("{}", resp))),
        None => {
            if want.1 {
                Ok(())
            } else {
                Err(Failure::new(format!("{}|unexpected-err|{}", name, cls), format!("{} = {} want one of {:?} env {:?}", name, resp, want.0, env)))
            }
        },
    }
}

fn check_list(name: &str, resp: &Value, var: &str, default: Option<&[&str]>, env: &Env) -> CaseResult {
    if let Some(m) = resp.get("panic") {
        return Err(Failure::new(format!("{}|panic", name), format!("{} panicked: {} env {:?}", name, m, env)));
    }
    let cls = format!("{}={}", var, match env.get(var) {
        None => "unset",
        Some(v) if v.is_empty() => "empty",
        Some(v) if split_list(v).len() != v.split(':').count() => "has-empty-segments",
        Some(v) if v.contains(':') => "list",
        _ => "single",
    });
    let want: Option<Vec<String>> = match env.get(var) {
        Some(v) if !split_list(v).is_empty() => Some(split_list(v)),
        Some(_) => Some(default.map(|d| d.iter().map(|s| s.to_string()).collect()).unwrap_or_default()),
        None => default.map(|d| d.iter().map(|s| s.to_string()).collect()),
    };
    match (want, ok_list(resp)) {
        // entries are compared as paths (component-wise): a trailing separator is not significant
        (Some(w), Some(g)) if w.len() == g.len() && w.iter().zip(g.iter()).all(|(a, b)| Path::new(a) == Path::new(b)) => Ok(()),
        (None, _) => Ok(()), // PATH unset: no default is documented; totality only
        (Some(w), g) => Err(Failure::new(format!("{}|value|{}", name, cls), format!("{} = {:?} want {:?} env {:?}", name, g.ok_or_else(|| resp.to_string()), w, env))),
    }
}

pub fn check_xdg(case: &XdgCase) -> CaseResult {
    let env = &case.env;
    let resp = match probe(env, &[json!({"op":"xdg"})]) {
        Ok(r) => r[0].clone(),
        Err(e) => {
            ctx().inconclusive(&format!("envprobe child failed: {}", e));
            return Ok(());
        },
    };
    // home_dir
    match (env.get("HOME"), ok_path(&resp["home_dir"])) {
        (Some(h), Some(Some(g))) if *h == g => {},
        (None, None) if resp["home_dir"].get("err").is_some() => {},
        _ => return Err(Failure::new(format!("home_dir|value|HOME={}", state(env.get("HOME"))), format!("home_dir = {} env {:?}", resp["home_dir"], env))),
    }
    check_getter("config_dir", &resp["config_dir"], &want_home_getter(env, "XDG_CONFIG_HOME", &[".config"]), env, "XDG_CONFIG_HOME")?;
    check_getter("cache_dir", &resp["cache_dir"], &want_home_getter(env, "XDG_CACHE_HOME", &[".cache"]), env, "XDG_CACHE_HOME")?;
    check_getter("data_dir", &resp["data_dir"], &want_home_getter(env, "XDG_DATA_HOME", &[".local", "share"]), env, "XDG_DATA_HOME")?;
    check_getter("state_dir", &resp["state_dir"], &want_home_getter(env, "XDG_STATE_HOME", &[".local", "state"]), env, "XDG_STATE_HOME")?;
    // runtime_dir falls back to /tmp
    let rt = match env.get("XDG_RUNTIME_DIR").map(|s| s.as_str()) {
        None => (vec![PathBuf::from("/tmp")], false),
        Some("") => (vec![PathBuf::from(""), PathBuf::from("/tmp")], false),
        Some(v) => (vec![PathBuf::from(v)], false),
    };
    check_getter("runtime_dir", &resp["runtime_dir"], &rt, env, "XDG_RUNTIME_DIR")?;
    check_list("sys_config_dirs", &resp["sys_config_dirs"], "XDG_CONFIG_DIRS", Some(&["/etc/xdg"]), env)?;
    check_list("sys_data_dirs", &resp["sys_data_dirs"], "XDG_DATA_DIRS", Some(&["/usr/local/share", "/usr/share"]), env)?;
    check_list("path_dirs", &resp["path_dirs"], "PATH", None, env)?;
    Ok(())
}

/// candidate directories in lookup order: XDG_CONFIG_HOME (or its default), then XDG_CONFIG_DIRS
fn candidates(env: &Env) -> Vec<String> {
    let mut c = vec![];
    match env.get("XDG_CONFIG_HOME") {
        Some(v) => c.push(v.clone()),
        None => {
            if let Some(h) = env.get("HOME") {
                c.push(format!("{}/.config", h.trim_end_matches('/')));
            }
        },
    }
    match env.get("XDG_CONFIG_DIRS") {
        Some(v) if !split_list(v).is_empty() => c.extend(split_list(v)),
        _ => c.push("/etc/xdg".to_string()),
    }
    c
}

const CFG_NAME: &str = "rvh-c18-probe.toml";

pub fn check_cfg(case: &CfgCase) -> CaseResult {
    let env = &case.env;
    let cands = candidates(env);
    let cls = format!(
        "XDG_CONFIG_HOME={},HOME={},XDG_CONFIG_DIRS={}",
        state(env.get("XDG_CONFIG_HOME")),
        state(env.get("HOME")),
        state(env.get("XDG_CONFIG_DIRS"))
    );
    let (resp, contains): (Value, Vec<bool>) = if case.stdfs {
        // files were prepared on disk by the caller; observe them independently
        let contains = cands.iter().map(|d| std::fs::symlink_metadata(Path::new(d).join(&case.name)).is_ok()).collect();
        match probe(env, &[json!({"op":"config_dir_std","name":case.name})]) {
            Ok(r) => (r[0].clone(), contains),
            Err(e) => {
                ctx().inconclusive(&format!("envprobe child failed: {}", e));
                return Ok(());
            },
        }
    } else {
        let mut files: Vec<String> = case.present.iter().map(|d| format!("{}/{}", d.trim_end_matches('/'), case.name)).collect();
        files.extend(case.decoys.iter().cloned());
        let contains = cands.iter().map(|d| case.present.contains(d)).collect();
        match probe(env, &[json!({"op":"config_dir_mem","name":case.name,"files":files,"cwd":case.cwd})]) {
            Ok(r) => (r[0].clone(), contains),
            Err(e) => {
                ctx().inconclusive(&format!("envprobe child failed: {}", e));
                return Ok(());
            },
        }
    };
    if let Some(m) = resp.get("panic") {
        return Err(Failure::new("vfs.config_dir|panic", format!("config_dir panicked: {} env {:?}", m, env)));
    }
    if resp.get("vfs_same") == Some(&Value::Bool(false)) {
        return Err(Failure::new("vfs.config_dir|vfs-wrapper-differs", format!("Vfs::Memfs.config_dir differs from Memfs.config_dir env {:?}", env)));
    }
    let want: Option<String> = cands.iter().zip(contains.iter()).find(|(_, c)| **c).map(|(d, _)| d.clone());
    let got: Option<String> = resp.get("ok").and_then(|x| x.as_str()).map(|s| s.to_string());
    let same = match (&want, &got) {
        (None, None) => true,
        (Some(w), Some(g)) => Path::new(w) == Path::new(g),
        _ => false,
    };
    if !same {
        let first_hit = contains.iter().position(|c| *c).map(|i| i.to_string()).unwrap_or("none".into());
        return Err(Failure::new(
            format!("vfs.config_dir|value|{}|{}|first-hit={}{}", if case.stdfs { "stdfs" } else { "memfs" }, cls, first_hit, if case.name.contains('/') { "|multi-component-name" } else { "" }),
            format!("config_dir({:?}) = {:?} want {:?}; candidates {:?} contain {:?}; env {:?}", case.name, got, want, cands, contains, env),
        ));
    }
    Ok(())
}

const SUDO_VALUES: &[Option<&str>] = &[None, Some(""), Some("1234"), Some("0"), Some("-1"), Some("12x"), Some("4294967296"), Some("4294967295"), Some(" 7"), Some("7 "), Some("2147483648"), Some("4294967294")];

pub fn check_rids(case: &RidsCase) -> CaseResult {
    let env = &case.env;
    let ids: Vec<(u32, u32)> = vec![(0, 0), (0, 1000), (1, 1), (1000, 1000), (1000, 0), (u32::MAX, u32::MAX)];
    let mut reqs: Vec<Value> = ids.iter().map(|(u, g)| json!({"op":"getrids","uid":u,"gid":g})).collect();
    if case.unprivileged {
        reqs.insert(0, json!({"op":"drop_privileges"}));
    }
    let resp = match probe(env, &reqs) {
        Ok(mut r) => {
            if case.unprivileged {
                let dropped = r.remove(0);
                if dropped.get("ok").and_then(|x| x.as_u64()) != Some(65534) {
                    ctx().inconclusive("the child could not give up root (not started as root?)");
                    return Ok(());
                }
            }
            r
        },
        Err(e) => {
            ctx().inconclusive(&format!("envprobe child failed: {}", e));
            return Ok(());
        },
    };
    let numeric = |k: &str| env.get(k).and_then(|v| if !v.is_empty() && v.bytes().all(|b| b.is_ascii_digit()) { v.parse::<u32>().ok() } else { None });
    for ((u, g), r) in ids.iter().zip(resp.iter()) {
        let want = match (*u, numeric("SUDO_UID"), numeric("SUDO_GID")) {
            (0, Some(su), Some(sg)) => (su, sg),
            _ => (*u, *g),
        };
        let got = r.get("ok").and_then(|x| x.as_array()).map(|a| (a[0].as_u64().unwrap_or(u64::MAX) as u32, a[1].as_u64().unwrap_or(u64::MAX) as u32));
        if got != Some(want) {
            let cls = format!("uid={},SUDO_UID={},SUDO_GID={}", if *u == 0 { "root" } else { "user" }, if numeric("SUDO_UID").is_some() { "numeric" } else { state(env.get("SUDO_UID")) }, if numeric("SUDO_GID").is_some() { "numeric" } else { state(env.get("SUDO_GID")) });
            return Err(Failure::new(format!("getrids|value|{}", cls), format!("getrids({},{}) = {} want {:?} env {:?}", u, g, r, want, env)));
        }
    }
    Ok(())
}

fn set(env: &mut Env, k: &str, v: &Option<&str>) {
    if let Some(x) = v {
        env.insert(k.to_string(), x.to_string());
    }
}

fn xdg_env(idx: u64) -> Env {
    // mixed radix decode: HOME(5) x 4 *_HOME(3 each) x 3 lists(9 each) x RUNTIME(2) = 590490
    let mut i = idx;
    let mut take = |n: u64| {
        let r = i % n;
        i /= n;
        r as usize
    };
    let mut e = Env::new();
    set(&mut e, "HOME", &HOMES[take(5)]);
    set(&mut e, "XDG_CONFIG_HOME", &XHOME[take(3)]);
    set(&mut e, "XDG_DATA_HOME", &XHOME[take(3)]);
    set(&mut e, "XDG_CACHE_HOME", &XHOME[take(3)]);
    set(&mut e, "XDG_STATE_HOME", &XHOME[take(3)]);
    set(&mut e, "XDG_CONFIG_DIRS", &LISTS_G[take(11)]);
    set(&mut e, "XDG_DATA_DIRS", &LISTS_G[take(11)]);
    set(&mut e, "PATH", &LISTS_G[take(11)]);
    set(&mut e, "XDG_RUNTIME_DIR", &RUNTIME[take(2)]);
    // bystander variables the statement does not mention must not matter (half of the configurations)
    if splitmix(idx) % 2 == 0 {
        e.insert("TMPDIR".into(), "/rvh/other-tmp".into());
        e.insert("TMP".into(), "/rvh/other-tmp2".into());
        e.insert("USER".into(), "someone".into());
        e.insert("XDG_CONFIG_HOMES".into(), "/rvh/decoy".into());
    }
    e
}
const XDG_SPACE: u64 = 5 * 81 * 1331 * 2;

pub fn run(c: &Ctx) {
    c.set_rule("one child process per configuration (env_clear + exactly the generated variables). (a) getters: cross-product HOME{unset,'',value,'/',value with a trailing separator} x XDG_{CONFIG,DATA,CACHE,STATE}_HOME{unset,'',value} x XDG_CONFIG_DIRS/XDG_DATA_DIRS/PATH{unset,'','/l1','/l1:/l2',':/l1::/l2:','/','/l1/:/:/l2//','/l1:/l1::/l1:/l2' (repeated entries are kept),'::' (only separators: the defaults),'/l1: /l2 :/l3',' ' (blanks belong to the entry: listed verbatim)} x XDG_RUNTIME_DIR{unset,value} = 1078110 (half of them with bystander variables TMPDIR, TMP, USER and a decoy name set - they must not matter) configurations (thorough: all; quick: seeded 4000 + corner cases). (b) vfs.config_dir(name): HOME x XDG_CONFIG_HOME {unset,value} x XDG_CONFIG_DIRS{unset,'','/l1','/l1:/l2',':/l1::/l2:'} x every subset of candidate directories containing the file x {flat name, name of three components}, on Memfs (built in the child) and on Stdfs (sandbox on tmpfs). (c) getrids: SUDO_UID x SUDO_GID in 12 values each (incl. ids above 2^31) x 6 (uid,gid) pairs, the numeric SUDO_UID rows also asked from a child that gave up root first. Oracle: reference functions written from the statement / XDG spec. Non-trivial = configuration with at least one variable set-but-empty or a list with empty segments, or a config_dir case whose first candidate lacks the file; distinct by configuration.");
    c.assume("set-but-empty *_HOME / XDG_RUNTIME_DIR: value verbatim or spec default both admitted; HOME='' defaults: relative or rooted spelling admitted; PATH unset: totality only");
    // (a) getters
    let n_quick = 4000u64;
    let total = c.tier.pick(n_quick, XDG_SPACE);
    par_for(total, 8, |j| {
        let idx = if c.tier == Tier::Thorough { j } else if j < 4 { [0, XDG_SPACE - 1, 1, 5 * 81 * 364][j as usize] } else { splitmix(c.seed ^ splitmix(1800 + j)) % XDG_SPACE };
        let case = XdgCase { env: xdg_env(idx) };
        mark("xdg", &serde_json::to_string(&case).unwrap());
        c.eval(1);
        if case.env.values().any(|v| v.is_empty() || v.starts_with(':')) {
            c.nontrivial(fp(&case.env));
        }
        if j % 97 == 0 {
            c.sample(|| json!({"kind":"xdg","env":case.env}));
        }
        c.judge("xdg", &case, check_xdg(&case));
    });
    if c.tier == Tier::Thorough {
        c.set_exhaustive(true);
    }
    c.note("xdg_getter_space", XDG_SPACE);
    // (b) vfs.config_dir on Memfs: full cross-product (small)
    let mut cfg_cases: Vec<CfgCase> = vec![];
    for h in [None, Some("/home/u")] {
        // also values that coincide with an entry of XDG_CONFIG_DIRS: precedence must not depend on distinctness
        for x in [None, Some("/x/cfg"), Some("rel/cfg"), Some("/l2"), Some("/l1"), Some("/etc/xdg")] {
            for l in LISTS {
                let mut e = Env::new();
                set(&mut e, "HOME", &h);
                set(&mut e, "XDG_CONFIG_HOME", &x);
                set(&mut e, "XDG_CONFIG_DIRS", l);
                let mut cands = candidates(&e);
                cands.sort();
                cands.dedup();
                for mask in 0..(1u32 << cands.len()) {
                    let present: Vec<String> = cands.iter().enumerate().filter(|(i, _)| mask & (1 << i) != 0).map(|(_, d)| d.clone()).collect();
                    for n in CFG_NAMES {
                        cfg_cases.push(CfgCase { env: e.clone(), present: present.clone(), stdfs: false, name: n.to_string(), cwd: None, decoys: vec![] });
                        // a relative candidate is relative to the filesystem's cwd: the same lookup from a cwd below
                        // the root, with a namesake of the candidate below the root holding the file when the
                        // candidate itself does not
                        if x == Some("rel/cfg") {
                            let decoys = if present.iter().any(|d| d == "rel/cfg") { vec![] } else { vec![format!("/rel/cfg/{}", n)] };
                            cfg_cases.push(CfgCase { env: e.clone(), present: present.clone(), stdfs: false, name: n.to_string(), cwd: Some("/work".into()), decoys });
                        }
                    }
                }
            }
        }
    }
    par_for(cfg_cases.len() as u64, 2, |j| {
        let case = &cfg_cases[j as usize];
        mark("cfg", &serde_json::to_string(case).unwrap());
        c.eval(1);
        let cands = candidates(&case.env);
        if !case.present.is_empty() && !case.present.contains(&cands[0]) {
            c.nontrivial(fp(&(&case.env, &case.present)));
            c.class("config_dir:first-candidate-lacks-file");
        }
        if case.present.is_empty() {
            c.class("config_dir:no-candidate-has-file");
        }
        if j % 37 == 0 {
            c.sample(|| json!({"kind":"cfg","case":case}));
        }
        c.judge("cfg", case, check_cfg(case));
    });
    // (b') on Stdfs: variables point into a sandbox on tmpfs
    let sb = crate::sandbox::dir("c18");
    let mut std_cases: Vec<CfgCase> = vec![];
    let mut k = 0;
    for h in [false, true] {
        for x in [0u8, 1, 2] {
            for l in 0..4usize {
                let base = sb.join(format!("case{}", k));
                k += 1;
                let b = base.to_str().unwrap().to_string();
                let mut e = Env::new();
                if h {
                    e.insert("HOME".into(), format!("{}/home", b));
                }
                if x == 1 {
                    e.insert("XDG_CONFIG_HOME".into(), format!("{}/cfg", b));
                } else if x == 2 {
                    e.insert("XDG_CONFIG_HOME".into(), format!("{}/l2", b));
                }
                match l {
                    1 => {
                        e.insert("XDG_CONFIG_DIRS".into(), format!("{}/l1", b));
                    },
                    2 => {
                        e.insert("XDG_CONFIG_DIRS".into(), format!("{}/l1:{}/l2", b, b));
                    },
                    3 => {
                        e.insert("XDG_CONFIG_DIRS".into(), format!(":{}/l1::{}/l2:", b, b));
                    },
                    _ => {},
                }
                let mut cands: Vec<String> = candidates(&e).into_iter().filter(|d| d.starts_with(&b)).collect();
                cands.sort();
                cands.dedup();
                for mask in 0..(1u32 << cands.len()) {
                    let present: Vec<String> = cands.iter().enumerate().filter(|(i, _)| mask & (1 << i) != 0).map(|(_, d)| d.clone()).collect();
                    for n in CFG_NAMES {
                        std_cases.push(CfgCase { env: e.clone(), present: present.clone(), stdfs: true, name: n.to_string(), cwd: None, decoys: vec![] });
                        // the present candidate directories are symbolic links to directories
                        if mask != 0 && (l == 1 || l == 3) {
                            std_cases.push(CfgCase { env: e.clone(), present: present.clone(), stdfs: true, name: n.to_string(), cwd: None, decoys: vec!["@linked".to_string()] });
                        }
                    }
                }
            }
        }
    }
    // cases of one environment share a sandbox dir: run them serially per environment
    let mut by_env: BTreeMap<String, Vec<CfgCase>> = BTreeMap::new();
    for cs in std_cases {
        by_env.entry(serde_json::to_string(&cs.env).unwrap()).or_default().push(cs);
    }
    let groups: Vec<Vec<CfgCase>> = by_env.into_values().collect();
    par_for(groups.len() as u64, 1, |j| {
        for case in &groups[j as usize] {
            let cands = candidates(&case.env);
            for d in &cands {
                if d.starts_with(sb.to_str().unwrap()) {
                    place_cfg(d, &case.name, case.present.contains(d), case.decoys.iter().any(|x| x == "@linked"));
                }
            }
            mark("cfg", &serde_json::to_string(case).unwrap());
            c.eval(1);
            c.class("config_dir:stdfs");
            if !case.present.is_empty() && !case.present.contains(&cands[0]) {
                c.nontrivial(fp(&(&case.env, &case.present, "std")));
            }
            c.judge("cfg", case, check_cfg(case));
        }
    });
    crate::sandbox::cleanup();
    // (c) getrids
    let mut rid_cases = vec![];
    for u in SUDO_VALUES {
        for g in SUDO_VALUES {
            let mut e = Env::new();
            set(&mut e, "SUDO_UID", u);
            set(&mut e, "SUDO_GID", g);
            rid_cases.push(RidsCase { env: e.clone(), unprivileged: false });
            // the numeric pairs also from a process that is not root
            if e.get("SUDO_UID").map(|v| !v.is_empty() && v.bytes().all(|b| b.is_ascii_digit())).unwrap_or(false) {
                rid_cases.push(RidsCase { env: e, unprivileged: true });
            }
        }
    }
    par_for(rid_cases.len() as u64, 2, |j| {
        let case = &rid_cases[j as usize];
        mark("rids", &serde_json::to_string(case).unwrap());
        c.eval(6);
        c.nontrivial(fp(&case.env));
        if j % 23 == 0 {
            c.sample(|| json!({"kind":"rids","env":case.env}));
        }
        c.judge("rids", case, check_rids(case));
    });
}

pub fn replay(kind: &str, case: &Value) -> Option<CaseResult> {
    match kind {
        "xdg" => Some(check_xdg(&serde_json::from_value(case.clone()).ok()?)),
        "cfg" => {
            let cs: CfgCase = serde_json::from_value(case.clone()).ok()?;
            if cs.stdfs {
                for d in candidates(&cs.env) {
                    if d.starts_with("/dev/shm/rvh-") || d.starts_with("/tmp/rvh-") {
                        place_cfg(&d, &cs.name, cs.present.contains(&d), cs.decoys.iter().any(|x| x == "@linked"));
                    }
                }
            }
            let r = check_cfg(&cs);
            if cs.stdfs {
                for d in candidates(&cs.env) {
                    if d.starts_with("/dev/shm/rvh-") || d.starts_with("/tmp/rvh-") {
                        place_cfg(&d, &cs.name, false, false);
                    }
                }
            }
            Some(r)
        },
        "rids" => Some(check_rids(&serde_json::from_value(case.clone()).ok()?)),
        _ => None,
    }
}
