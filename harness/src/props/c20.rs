//! C20 — the assert_vfs_* macros are sound and complete test oracles
use std::path::Path;
use std::sync::atomic::{AtomicU64, Ordering};

use proptest::prelude::*;
use rivia::prelude::*;
use serde::{Deserialize, Serialize};
use serde_json::{json, Value};

use crate::{engine::*, fsapply::*, fsgen::*, fsmodel::Model, fstypes::*, refpath::*};

const MACROS: &[&str] = &[
    "exists", "no_exists", "is_dir", "no_dir", "is_file", "no_file", "is_symlink", "no_symlink", "read_all", "readlink", "readlink_abs", "mkdir_p", "mkdir_m", "mkdir_m_sticky",
    "mkfile", "write_all", "write_all_bytes", "copyfile", "symlink", "remove", "remove_all",
];

const RAW: &[u8] = &[0xff, 0x80, b'a', 0xc3];

#[derive(Debug, Clone, Serialize, Deserialize)]
pub struct MacroCase {
    pub stdfs: bool,
    /// ops that build the state on a fresh Memfs (Stdfs: materialised from the resulting tree)
    pub setup: Vec<Op>,
    pub mac: String,
    pub a: String,
    pub b: String,
}

/// The path argument as an expression with a side effect: the first evaluation gives the path, any later one a
/// decoy of the opposite existence. A macro body that evaluates its argument again for the actual check (instead
/// of using the path it resolved, and names in its message) then judges another path.
struct Once<'a> {
    first: &'a str,
    later: &'a str,
    n: std::cell::Cell<u32>,
}
impl<'a> Once<'a> {
    fn get(&self) -> &'a str {
        let k = self.n.get();
        self.n.set(k + 1);
        if k == 0 {
            self.first
        } else {
            self.later
        }
    }
}

fn run_macro<V: VirtualFileSystem>(v: &V, mac: &str, a: &str, b: &str, decoy: &str) {
    let a = Once { first: a, later: decoy, n: std::cell::Cell::new(0) };
    match mac {
        "exists" => {
            assert_vfs_exists!(v, a.get());
        },
        "no_exists" => {
            assert_vfs_no_exists!(v, a.get());
        },
        "is_dir" => {
            assert_vfs_is_dir!(v, a.get());
        },
        "no_dir" => {
            assert_vfs_no_dir!(v, a.get());
        },
        "is_file" => {
            assert_vfs_is_file!(v, a.get());
        },
        "no_file" => {
            assert_vfs_no_file!(v, a.get());
        },
        "is_symlink" => {
            assert_vfs_is_symlink!(v, a.get());
        },
        "no_symlink" => {
            assert_vfs_no_symlink!(v, a.get());
        },
        "read_all" => {
            assert_vfs_read_all!(v, a.get(), b.to_string());
        },
        "readlink" => {
            assert_vfs_readlink!(v, a.get(), Path::new(b));
        },
        "readlink_abs" => {
            assert_vfs_readlink_abs!(v, a.get(), b);
        },
        "mkdir_p" => {
            assert_vfs_mkdir_p!(v, a.get());
        },
        "mkdir_m" => {
            assert_vfs_mkdir_m!(v, a.get(), 0o40750);
        },
        "mkdir_m_sticky" => {
            assert_vfs_mkdir_m!(v, a.get(), 0o41750);
        },
        "mkfile" => {
            assert_vfs_mkfile!(v, a.get());
        },
        "write_all" => {
            assert_vfs_write_all!(v, a.get(), b);
        },
        "write_all_bytes" => {
            assert_vfs_write_all!(v, a.get(), RAW);
        },
        "copyfile" => {
            assert_vfs_copyfile!(v, a.get(), b);
        },
        "symlink" => {
            assert_vfs_symlink!(v, a.get(), b);
        },
        "remove" => {
            assert_vfs_remove!(v, a.get());
        },
        "remove_all" => {
            assert_vfs_remove_all!(v, a.get());
        },
        _ => {},
    }
}

static SEQ: AtomicU64 = AtomicU64::new(0);

/// macros whose every failure message shows the path they were given (established on the unchanged tree; the
/// others show a value or the second path in some branches)
const STRICT_PATH_IN_MESSAGE: &[&str] = &["exists", "no_exists", "is_dir", "no_dir", "is_file", "no_file", "is_symlink", "no_symlink", "readlink", "readlink_abs", "read_all", "mkdir_p", "mkdir_m", "mkfile", "remove", "remove_all", "write_all", "symlink"];

#[derive(PartialEq, Debug)]
enum Verdict {
    MustPass,
    MustPanic,
    Either,
}

/// does the relative path `rel`, walked from directory `dir`, step above the root at some point
fn climbs_above_root(dir: &str, rel: &str) -> bool {
    if rel.starts_with('/') {
        return false;
    }
    let mut depth = dir.split('/').filter(|c| !c.is_empty()).count() as i64;
    for c in rel.split('/') {
        match c {
            "" | "." => {},
            ".." => {
                depth -= 1;
                if depth < 0 {
                    return true;
                }
            },
            _ => depth += 1,
        }
    }
    false
}

pub fn check_macro(case: &MacroCase) -> CaseResult {
    let backend = if case.stdfs { "stdfs" } else { "memfs" };
    // state
    let mem = Memfs::new();
    for op in &case.setup {
        let _ = apply(&mem, op);
    }
    let pre = tree_from_dump(&mem.verif_dump());
    let model = Model::adopt(pre.clone());
    let (pre_dir, cleanup) = if case.stdfs {
        let d = crate::sandbox::root().join(format!("c20-{}", SEQ.fetch_add(1, Ordering::Relaxed)));
        let _ = std::fs::create_dir_all(&d);
        let p = d.to_str().unwrap().to_string();
        for (k, n) in &pre.nodes {
            let q = format!("{}{}", p, if k == "/" { "" } else { k });
            match n {
                Node::Dir { .. } => {
                    let _ = std::fs::create_dir_all(&q);
                },
                Node::File { data, .. } => {
                    if let Some(par) = Path::new(&q).parent() {
                        let _ = std::fs::create_dir_all(par);
                    }
                    let _ = std::fs::write(&q, data);
                },
                _ => {},
            }
        }
        for (k, n) in &pre.nodes {
            if let Node::Link { target, rel, .. } = n {
                // same link text as Memfs reports (relative navigation), falling back to the absolute target
                let text = if rel.is_empty() || rel.starts_with('/') { format!("{}{}", p, if target == "/" { "" } else { target }) } else { rel.clone() };
                let _ = std::os::unix::fs::symlink(text, format!("{}{}", p, k));
            }
        }
        (p, Some(d))
    } else {
        (String::new(), None)
    };
    let on = |p: &str| -> String {
        if p.is_empty() || !p.starts_with('/') {
            p.to_string()
        } else {
            format!("{}{}", pre_dir, if p == "/" && case.stdfs { "" } else { p })
        }
    };
    let (a, b) = (case.a.as_str(), case.b.as_str());
    let a_abs = if a.is_empty() { None } else { abs_plain("/", a).ok() };
    let ka = a_abs.as_ref().and_then(|x| pre.kind(x));
    let kcls = |k: Option<Kind>| k.map(|k| format!("{:?}", k)).unwrap_or("missing".into());
    let stdv = Vfs::stdfs();
    // second argument as handed to the macro
    let b_arg = match case.mac.as_str() {
        "readlink_abs" | "copyfile" | "symlink" => on(b),
        _ => b.to_string(),
    };
    let a_arg = on(a);
    // (a second evaluation of the path expression yields a path of the opposite existence)
    let decoy = if ka.is_some() { on("/zz-rvh-second-evaluation") } else { on("/") };
    let res = if case.stdfs { catch(|| run_macro(&stdv, &case.mac, &a_arg, &b_arg, &decoy)) } else { catch(|| run_macro(&mem, &case.mac, &a_arg, &b_arg, &decoy)) };
    // observe afterwards
    let post: Tree = if case.stdfs { tree_from_disk(&pre_dir) } else { tree_from_dump(&mem.verif_dump()) };
    if let Some(d) = cleanup {
        let _ = std::fs::remove_dir_all(d);
    }
    let panicked = res.is_err();
    let msg = res.err().unwrap_or_default();
    let cls = format!("{}|a={}|{}", case.mac, if a.is_empty() { "empty".to_string() } else { kcls(ka) }, backend);
    // unresolvable argument: every macro must fail with its own name
    if a.is_empty() {
        if !panicked {
            return Err(Failure::new(format!("passes-on-unresolvable-path|{}", cls), format!("{:?} did not panic for an empty path", case.mac)));
        }
        if !msg.contains(&format!("assert_vfs_{}!", case.mac.trim_end_matches("_bytes").trim_end_matches("_sticky"))) {
            return Err(Failure::new(format!("message-does-not-name-macro|{}", cls), format!("message {:?}", msg)));
        }
        return Ok(());
    }
    let a_abs = match a_abs {
        Some(x) => x,
        None => return Ok(()),
    };
    let file_text = |t: &Tree, p: &str| -> Option<String> {
        match t.nodes.get(p) {
            Some(Node::File { data, .. }) => String::from_utf8(data.clone()).ok(),
            _ => None,
        }
    };
    let b_abs = abs_plain("/", b).ok();
    let checking = matches!(case.mac.as_str(), "exists" | "no_exists" | "is_dir" | "no_dir" | "is_file" | "no_file" | "is_symlink" | "no_symlink" | "read_all" | "readlink" | "readlink_abs");
    let verdict: Verdict = match case.mac.as_str() {
        "exists" => if ka.is_some() { Verdict::MustPass } else { Verdict::MustPanic },
        "no_exists" => if ka.is_none() { Verdict::MustPass } else { Verdict::MustPanic },
        "is_dir" => if ka == Some(Kind::Dir) { Verdict::MustPass } else { Verdict::MustPanic },
        "is_file" => if ka == Some(Kind::File) { Verdict::MustPass } else { Verdict::MustPanic },
        "is_symlink" => if ka == Some(Kind::Link) { Verdict::MustPass } else { Verdict::MustPanic },
        "no_symlink" => if ka != Some(Kind::Link) { Verdict::MustPass } else { Verdict::MustPanic },
        // docs ("isn't a directory") and code (fails on any existing entry) disagree for other kinds
        "no_dir" => match ka {
            None => Verdict::MustPass,
            Some(Kind::Dir) => Verdict::MustPanic,
            _ => Verdict::Either,
        },
        "no_file" => match ka {
            None => Verdict::MustPass,
            Some(Kind::File) => Verdict::MustPanic,
            _ => Verdict::Either,
        },
        "read_all" => if file_text(&pre, &a_abs).as_deref() == Some(b) { Verdict::MustPass } else { Verdict::MustPanic },
        "readlink" => match pre.nodes.get(&a_abs) {
            Some(Node::Link { rel, .. }) if rel == b => Verdict::MustPass,
            _ => Verdict::MustPanic,
        },
        "readlink_abs" => match (pre.nodes.get(&a_abs), &b_abs) {
            (Some(Node::Link { target, .. }), Some(bb)) if target == bb => Verdict::MustPass,
            (_, None) => Verdict::MustPanic,
            _ => Verdict::MustPanic,
        },
        _ => Verdict::Either,
    };
    if checking {
        if post != pre_as_observed(&pre, case.stdfs) && !case.stdfs {
            return Err(Failure::new(format!("checking-macro-changed-state|{}", cls), "state changed".to_string()));
        }
        match (&verdict, panicked) {
            (Verdict::MustPass, true) => return Err(Failure::new(format!("fails-on-satisfying-state|{}", cls), format!("{:?}({:?},{:?}) panicked: {}", case.mac, a, b, msg))),
            (Verdict::MustPanic, false) => return Err(Failure::new(format!("passes-on-violating-state|{}", cls), format!("{:?}({:?},{:?}) did not panic; entry is {}", case.mac, a, b, kcls(ka)))),
            _ => {},
        }
    } else {
        // acting macros: postcondition on the observed tree afterwards
        let kpost = post.kind(&a_abs);
        let holds: Option<bool> = match case.mac.as_str() {
            "mkdir_p" => Some(kpost == Some(Kind::Dir)),
            "mkdir_m" => Some(kpost == Some(Kind::Dir) && post.nodes.get(&a_abs).map(|n| n.mode() & 0o7777) == Some(0o750)),
            "mkdir_m_sticky" => Some(kpost == Some(Kind::Dir) && post.nodes.get(&a_abs).map(|n| n.mode() & 0o7777) == Some(0o1750)),
            "mkfile" => Some(kpost == Some(Kind::File)),
            "write_all" => Some(kpost == Some(Kind::File) && file_text(&post, &a_abs).as_deref() == Some(b)),
            "write_all_bytes" => Some(matches!(post.nodes.get(&a_abs), Some(Node::File { data, .. }) if data == RAW)),
            // "performs the operation": a new link points where vfs.symlink(link, target) points (a relative
            // target is relative to the link's directory); an existing link is left as it was
            "symlink" => {
                let want = if b.starts_with('/') { abs_plain("/", b).ok() } else { Some(ref_clean(&format!("{}/{}", parent(&a_abs), b))) };
                match (ka, post.nodes.get(&a_abs), want) {
                    (None, Some(Node::Link { target, rel, .. }), Some(w)) if !b.is_empty() && !climbs_above_root(&parent(&a_abs), b) => {
                        // the stored relative form leads from the link's directory to the same place
                        let rel_ok = rel.is_empty() || rel.starts_with('/') || climbs_above_root(&parent(&a_abs), rel) || ref_clean(&format!("{}/{}", parent(&a_abs), rel)) == w;
                        Some(*target == w && rel_ok)
                    },
                    (Some(Kind::Link), Some(n), _) => Some(pre.nodes.get(&a_abs) == Some(n) || case.stdfs),
                    _ => Some(kpost == Some(Kind::Link)),
                }
            },
            "remove" | "remove_all" => Some(kpost.is_none()),
            "copyfile" => match &b_abs {
                Some(bb) if pre.kind(bb) != Some(Kind::Dir) && ka == Some(Kind::File) => Some(post.kind(bb) == Some(Kind::File) && file_text(&post, bb) == file_text(&pre, &a_abs) && file_text(&pre, &a_abs).is_some()),
                Some(bb) if pre.kind(bb) != Some(Kind::Dir) => Some(false), // source is not a regular file: must fail
                _ => None, // copying into a directory: the macro's meaning is not documented
            },
            _ => None,
        };
        // "performs the operation": on an unobstructed path (missing, parent is a real directory) creating
        // macros have nothing to complain about
        let unobstructed = ka.is_none() && a_abs != "/" && pre.kind(&parent(&a_abs)) == Some(Kind::Dir);
        if unobstructed && panicked && matches!(case.mac.as_str(), "mkdir_p" | "mkdir_m" | "mkdir_m_sticky" | "mkfile" | "write_all" | "write_all_bytes") {
            return Err(Failure::new(format!("fails-on-unobstructed-path|{}", cls), format!("{:?}({:?},{:?}) panicked ({}) although {:?} is missing and its parent is a directory", case.mac, a, b, msg, a_abs)));
        }
        // removing macros have nothing to complain about when the operation is feasible: remove_all on anything
        // that exists, remove on a file, a link or an empty directory
        let removable = match (case.mac.as_str(), ka) {
            ("remove_all", Some(_)) => a_abs != "/",
            ("remove", Some(Kind::File)) | ("remove", Some(Kind::Link)) => true,
            ("remove", Some(Kind::Dir)) => a_abs != "/" && pre.subtree(&a_abs).len() == 1,
            _ => false,
        };
        if removable && panicked {
            return Err(Failure::new(format!("fails-although-operation-is-feasible|{}", cls), format!("{:?}({:?}) panicked ({}) although {:?} can be removed", case.mac, a, msg, a_abs)));
        }
        if let Some(h) = holds {
            if !panicked && !h {
                return Err(Failure::new(format!("passes-but-postcondition-false|{}", cls), format!("{:?}({:?},{:?}) passed; afterwards {:?} is {}", case.mac, a, b, a_abs, kcls(kpost))));
            }
            if panicked && h {
                // a macro that demands more than its postcondition: only flagged when the state satisfied it already or the operation succeeded
                return Err(Failure::new(format!("fails-although-postcondition-holds|{}", cls), format!("{:?}({:?},{:?}) panicked ({}) but afterwards the postcondition holds", case.mac, a, b, msg)));
            }
        }
    }
    if panicked {
        let name_ok = msg.contains(&format!("assert_vfs_{}!", case.mac.trim_end_matches("_bytes").trim_end_matches("_sticky")));
        if !name_ok {
            return Err(Failure::new(format!("message-does-not-name-macro|{}", cls), format!("message {:?}", msg)));
        }
        // the resolved path (or for two-argument macros one of the resolved paths / values) is shown
        let shown = [on(&a_abs), b_abs.as_ref().map(|x| on(x)).unwrap_or_default(), b.to_string()];
        let any = shown.iter().any(|s| !s.is_empty() && (msg.contains(&format!("{:?}", s)) || msg.contains(s.as_str())));
        // "a message naming the macro and the path": the path that was checked / acted on
        let names_checked_path = msg.contains(&on(&a_abs));
        if STRICT_PATH_IN_MESSAGE.contains(&case.mac.as_str()) && !names_checked_path {
            return Err(Failure::new(format!("message-does-not-name-checked-path|{}", cls), format!("message {:?} does not show {:?}", msg, on(&a_abs))));
        }
        if !any {
            return Err(Failure::new(format!("message-does-not-name-path|{}", cls), format!("message {:?} shows none of {:?}", msg, shown)));
        }
    }
    let _ = model;
    Ok(())
}

fn pre_as_observed(pre: &Tree, _stdfs: bool) -> Tree {
    pre.clone()
}

/// Independent observer of a sandbox directory (std::fs only)
pub fn tree_from_disk(root: &str) -> Tree {
    use std::os::unix::fs::{MetadataExt, PermissionsExt};
    let mut nodes = std::collections::BTreeMap::new();
    fn walk(root: &str, rel: &str, nodes: &mut std::collections::BTreeMap<String, Node>) {
        let full = format!("{}{}", root, if rel == "/" { "" } else { rel });
        let md = match std::fs::symlink_metadata(&full) {
            Ok(m) => m,
            Err(_) => return,
        };
        let (mode, uid, gid) = (md.permissions().mode(), md.uid(), md.gid());
        if md.file_type().is_symlink() {
            let txt = std::fs::read_link(&full).map(|p| p.to_string_lossy().to_string()).unwrap_or_default();
            let abs = if txt.starts_with('/') { ref_clean(&txt) } else { ref_clean(&format!("{}/{}", parent(&full), txt)) };
            let target = abs.strip_prefix(root).map(|r| if r.is_empty() { "/".to_string() } else { r.to_string() }).unwrap_or(abs);
            let to_dir = std::fs::metadata(&full).map(|m| m.is_dir()).unwrap_or(false);
            nodes.insert(rel.to_string(), Node::Link { target, rel: txt, to_dir, mode, uid, gid });
        } else if md.is_dir() {
            nodes.insert(rel.to_string(), Node::Dir { mode, uid, gid });
            if let Ok(rd) = std::fs::read_dir(&full) {
                for e in rd.flatten() {
                    let name = e.file_name().to_string_lossy().to_string();
                    walk(root, &join(rel, &name), nodes);
                }
            }
        } else {
            nodes.insert(rel.to_string(), Node::File { data: std::fs::read(&full).unwrap_or_default(), mode, uid, gid });
        }
    }
    walk(root, "/", &mut nodes);
    Tree { nodes, cwd: "/".into() }
}

fn setup_spec() -> impl Strategy<Value = OpSpec> {
    (prop::sample::select(vec![0u8, 0, 4, 4, 5, 8, 8, 58, 59, 60, 61, 50]), any::<u8>(), any::<u16>(), any::<u8>(), any::<u16>(), any::<u32>(), prop::collection::vec(prop::sample::select(&b"ab\n"[..]), 0..4))
        .prop_map(|(k, c, i, c2, i2, n, d)| OpSpec { k, a: Sel { class: c, idx: i, spell: 0 }, b: Sel { class: c2, idx: i2, spell: 0 }, n, d })
}

pub fn run(c: &Ctx) {
    c.set_rule("states: proptest-generated Memfs states over a 3-name namespace (dirs, files with small contents, links to dirs/files/links/missing targets) built from 2..10 creating calls; for EVERY state: every macro (11 checking, 8 acting; write_all also with a non-UTF-8 payload, mkdir_m also with a sticky-bit mode) x every path of the namespace that exists, a missing child, a missing-parent path, three unclean absolute spellings ('zz/..' detours to a creatable path, to a missing child and to an existing entry) and the empty string (pairs: copyfile/symlink with a second path; read_all/write_all with matching and different data; readlink/readlink_abs with the right text, a wrong one and a proper-suffix of the right one), each invocation on a freshly rebuilt state under catch_unwind, the path given as an expression whose second evaluation would name a path of the opposite existence; Memfs always, a seeded part on a tmpfs Stdfs sandbox materialised with std::fs. Oracle: checking macros panic <=> the reference predicate over the pre-state is false and leave the state alone; acting macros: never 'no panic and postcondition false', never 'panic although postcondition holds', never a panic of a creating macro on an unobstructed path (symlink: a new link points where vfs.symlink(link, target) points, also for targets relative to the link's directory; an existing link is untouched); every panic message names the macro and shows the resolved path. testing::capture_panic returns panic messages of 0..70 000 bytes (ASCII and multi-byte) unaltered. Non-trivial = invocation on an existing entry of another kind than the macro asks for, a link, or a near-miss second argument; distinct by (state, macro, arguments).");
    c.assume("no_dir!/no_file! on an existing entry of another kind: pass or panic both admitted (docs and code disagree); copyfile! into an existing directory: not asserted");
    let n = c.tier.pick(1500, 20000);
    let cfg = GenCfg { names: NAMES3, avoid_through_link: true, plain_spelling: true, wild: false, handles: false };
    set_shrink_budget(60);
    let state_body = |setup: Vec<Op>, tree: Tree, directed: bool| -> CaseResult {
        let mut paths: Vec<String> = tree.nodes.keys().cloned().collect();
        paths.push("/zz".into());
        paths.push("/zz/deep".into());
        if let Some(d) = tree.nodes.keys().find(|k| tree.kind(k) == Some(Kind::Dir) && k.as_str() != "/") {
            paths.push(format!("{}/new", d));
        }
        // a missing child of the deepest directory (links there have ancestors several levels up)
        if let Some(d) = tree.nodes.keys().filter(|k| tree.kind(k) == Some(Kind::Dir)).max_by_key(|k| k.matches('/').count()) {
            let p = format!("{}/new", d.trim_end_matches('/'));
            if !paths.contains(&p) {
                paths.push(p);
            }
        }
        // unclean absolute spellings (a macro that compares what the call returns with the path as given, instead of
        // with the resolved one, fails on a state that satisfies it): a creatable missing path, a missing child of a
        // directory, an existing entry
        paths.push("/zz/../zy".into());
        if let Some(d) = tree.nodes.keys().find(|k| tree.kind(k) == Some(Kind::Dir) && k.as_str() != "/") {
            paths.push(format!("{}/x/../new2", d));
        }
        if let Some(k) = tree.nodes.keys().find(|k| k.as_str() != "/") {
            paths.push(format!("{}/zz/../{}", crate::refpath::parent(k).trim_end_matches('/'), base(k)));
        }
        paths.push(String::new());
        let state_id = fp(&format!("{:?}", setup));
        // Stdfs comparison domain: every link resolves (also through other links) to an existing non-link entry
        let resolves = |start: &String| -> bool {
            let mut t = start.clone();
            for _ in 0..8 {
                match tree.nodes.get(&t) {
                    Some(Node::Link { target, .. }) => t = target.clone(),
                    Some(_) => return t != "/",
                    None => return false,
                }
            }
            false
        };
        let all_resolve = tree.nodes.iter().all(|(k, n)| n.kind() != Kind::Link || resolves(k));
        let stdfs_state = (state_id % 5 == 0 && all_resolve) || directed;
        // hand-made states: what the calls left behind is what the reference model says (names, kinds, bytes)
        if directed {
            let mem = Memfs::new();
            for op in &setup {
                let _ = crate::fsapply::apply(&mem, op);
            }
            let real = tree_from_dump(&mem.verif_dump());
            let view = |t: &Tree| -> Vec<(String, String)> {
                t.nodes.iter().map(|(k, n)| (k.clone(), match n {
                    Node::Dir { .. } => "dir".to_string(),
                    Node::File { data, .. } => format!("file {:?}", String::from_utf8_lossy(data)),
                    Node::Link { target, .. } => format!("link {}", target),
                })).collect()
            };
            if view(&real) != view(&tree) {
                return Err(Failure::new("state-after-setup-differs-from-reference|memfs", format!("setup {:?} leaves {:?}, reference {:?}", setup, view(&real), view(&tree))));
            }
        }
        mark("state", &serde_json::to_string(&setup).unwrap());
        let mut first: Option<Failure> = None;
        let mut fps = vec![];
        'o: for mac in MACROS {
            for a in &paths {
                // second arguments
                let mut bs: Vec<String> = vec![String::new()];
                let a_abs = abs_plain("/", a).ok();
                match *mac {
                    "read_all" | "write_all" => {
                        let content = a_abs.as_ref().and_then(|x| match tree.nodes.get(x) {
                            Some(Node::File { data, .. }) => String::from_utf8(data.clone()).ok(),
                            _ => None,
                        });
                        bs = vec![content.clone().unwrap_or("fresh".into()), format!("{}x", content.clone().unwrap_or_default()), String::new()];
                        // near misses that agree line by line: trailing newline present or not, CRLF vs LF
                        if let Some(ct) = &content {
                            bs.push(format!("{}\n", ct));
                            if let Some(t) = ct.strip_suffix('\n') {
                                bs.push(t.to_string());
                            }
                            if ct.contains("\r\n") {
                                bs.push(ct.replace("\r\n", "\n"));
                            }
                            bs.dedup();
                        }
                    },
                    "readlink" => {
                        bs = vec!["nope".into()];
                        if let Some(Node::Link { rel, .. }) = a_abs.as_ref().and_then(|x| tree.nodes.get(x)) {
                            bs.push(rel.clone());
                            if rel.len() > 1 {
                                bs.push(rel[1..].to_string());
                            }
                            bs.push(base(rel));
                        }
                    },
                    "readlink_abs" => {
                        bs = vec!["/nope".into()];
                        if let Some(Node::Link { target, .. }) = a_abs.as_ref().and_then(|x| tree.nodes.get(x)) {
                            bs.push(target.clone());
                            bs.push(format!("/zz{}", target)); // abs(data) merely ENDS with the real target
                            bs.push(format!("{}/x", target));
                        }
                    },
                    "copyfile" | "symlink" => {
                        bs = paths.iter().filter(|p| !p.is_empty()).take(6).cloned().collect();
                        bs.push("/zz".into());
                        if *mac == "symlink" {
                            // relative targets: relative to the link's directory, not to the cwd
                            bs.extend(["a".to_string(), "../b".to_string(), "./c/a".to_string(), "/".to_string(), "../..".to_string()]);
                        }
                    },
                    _ => {},
                }
                for b in bs {
                    for stdfs in [false, true] {
                        if stdfs && !stdfs_state {
                            continue;
                        }
                        // a state with a dangling link on the real filesystem: only the macros that act on or ask
                        // about the link itself, on that link (kinds of dangling links differ between the backends)
                        if stdfs && !all_resolve {
                            let on_dangling = a_abs.as_ref().map(|x| tree.kind(x) == Some(Kind::Link) && !resolves(x)).unwrap_or(false);
                            if !(on_dangling && matches!(*mac, "remove" | "remove_all" | "is_symlink" | "no_symlink" | "readlink" | "readlink_abs")) {
                                continue;
                            }
                        }
                        let case = MacroCase { stdfs, setup: setup.clone(), mac: mac.to_string(), a: a.clone(), b: b.clone() };
                        c.eval(1);
                        tick();
                        let ka = a_abs.as_ref().and_then(|x| tree.kind(x));
                        if ka == Some(Kind::Link) || (ka.is_some() && !a.is_empty()) {
                            fps.push(state_id ^ fp(&(mac, a, &b, stdfs)));
                        }
                        if let Err(f) = check_macro(&case) {
                            let f = f.with_case("macro", serde_json::to_value(&case).unwrap());
                            if c.is_known(&f.sig) {
                                c.judge("macro", &case, Err(f));
                            } else if first.is_none() {
                                first = Some(f);
                                break 'o;
                            }
                        }
                    }
                }
            }
        }
        c.nontrivial_many(&mut fps);
        if stdfs_state {
            c.class("state:also-on-stdfs");
        }
        if tree.nodes.values().any(|n| n.kind() == Kind::Link) {
            c.class("state:has-link");
        }
        c.sample(|| json!({"kind":"state","setup":setup,"macros":MACROS.len(),"paths":paths}));
        match first {
            Some(f) => Err(f),
            None => Ok(()),
        }
    };
    // directed states: create - remove - recreate under the same name (another kind, or the same kind with other
    // content), a link replaced by a file, a dangling link
    {
        let w = |p: &str, d: &str| Op::WriteAll(p.to_string(), d.as_bytes().to_vec());
        let rm = |p: &str| Op::Remove(p.to_string());
        let directed: Vec<Vec<Op>> = vec![
            vec![w("/a", "old-bytes"), rm("/a"), Op::Mkfile("/a".into())],
            vec![w("/a", "old-bytes"), rm("/a"), Op::MkdirP("/a".into())],
            vec![Op::MkdirP("/a/b".into()), Op::RemoveAll("/a".into()), w("/a", "now-a-file")],
            vec![w("/ab", "x"), Op::Symlink("/a".into(), "/ab".into()), rm("/a"), w("/a", "plain")],
            vec![w("/b", "data\n"), rm("/b"), Op::AppendAll("/b".into(), b"tail".to_vec())],
            vec![Op::MkdirP("/a".into()), Op::Symlink("/a/dang".into(), "/a/nope".into()), w("/a/f", "line1\nline2\n")],
            vec![w("/a", "line1\nline2"), w("/b", "x\r\ny\r\n"), w("/ab", "\n")],
            // a file whose bytes are not text: read_all fails, so no expectation - the empty one least of all - holds
            vec![Op::WriteAll("/a".into(), vec![0xff, 0xfe, 0xfd]), w("/b", ""), Op::WriteAll("/ab".into(), b"ok\n\xff".to_vec())],
            // existing directories whose mode differs from what mkdir_m! asks for only above the rwx triplets
            vec![Op::MkdirM("/a".into(), 0o1750), Op::MkdirM("/b".into(), 0o750), Op::MkdirM("/ab/a".into(), 0o2750)],
        ];
        for ops in directed {
            let tree = crate::props::c08::build_model(&ops).t.clone();
            c.class("state:directed");
            mark("state", &serde_json::to_string(&ops).unwrap());
            let r = state_body(ops.clone(), tree, true);
            c.judge("state", &ops, r);
        }
    }
    run_proptest("state", 2001, || prop::collection::vec(setup_spec(), 2..10), n, |specs: &Vec<OpSpec>| {
        // resolve the setup against a scratch instance
        let mem = Memfs::new();
        let mut model = Model::fresh();
        let mut setup = vec![];
        let mut ex = 0u64;
        for s in specs {
            let op = resolve(&model, &cfg, s, &mut ex);
            let _ = crate::fsdrive::step(&mem, &mut model, &op, &crate::fsdrive::StepOpts { model_compare: false, api_view: false });
            setup.push(op);
        }
        let tree = model.t.clone();
        state_body(setup, tree, false)
    });
    // read_all! on long contents that differ from the expectation (ASCII and multi-byte, character boundaries at and
    // around plausible display caps): the failure is the macro's, naming itself and the path
    {
        let sb = crate::sandbox::root().join(format!("c20-long-{}", std::process::id()));
        let _ = std::fs::create_dir_all(&sb);
        let mut contents: Vec<String> = vec![];
        for cap in [80usize, 100, 255, 256, 512, 1000, 1024, 2048, 4096, 8192] {
            for lead in [cap - 1, cap, cap + 1] {
                contents.push(format!("{}{}", "a".repeat(lead), "é".repeat(20)));
                contents.push(format!("{}{}", "a".repeat(lead.saturating_sub(2)), "日本語".repeat(10)));
                contents.push("x".repeat(lead + 7));
            }
        }
        for (k, content) in contents.iter().enumerate() {
            for stdfs in [false, true] {
                let (v, path) = if stdfs { (Vfs::stdfs(), format!("{}/long", sb.display())) } else { (Vfs::memfs(), "/long".to_string()) };
                if v.write_all(&path, content.as_bytes()).is_err() {
                    continue;
                }
                c.eval(2);
                c.nontrivial(fp(&("long-mismatch", k, stdfs)));
                c.class("read_all:long-content");
                let backend = if stdfs { "stdfs" } else { "memfs" };
                let same = crate::engine::catch(|| { rivia::assert_vfs_read_all!(&v, &path, content.clone()); });
                let differ = crate::engine::catch(|| { rivia::assert_vfs_read_all!(&v, &path, format!("{}!", content)); });
                let res = match (same, differ) {
                    (Err(m), _) => Err(Failure::new(format!("macro-fails-on-satisfying-state|read_all|long-content,{}", backend), format!("content of {} bytes equal to the expectation, panicked: {:?}", content.len(), m.chars().take(200).collect::<String>()))),
                    (_, Ok(())) => Err(Failure::new(format!("macro-passes-vacuously|read_all|long-content,{}", backend), format!("content of {} bytes differs from the expectation, no panic", content.len()))),
                    (_, Err(m)) if !m.contains("assert_vfs_read_all") => Err(Failure::new(format!("message-does-not-name-macro|read_all|long-content,{}", backend), format!("content of {} bytes: message {:?}", content.len(), m.chars().take(200).collect::<String>()))),
                    (_, Err(m)) if !m.contains(&path) => Err(Failure::new(format!("message-does-not-name-path|read_all|long-content,{}", backend), format!("content of {} bytes: message {:?}", content.len(), m.chars().take(200).collect::<String>()))),
                    _ => Ok(()),
                };
                c.judge("long", &json!([k, stdfs]), res);
            }
        }
        // entries that are neither directory, link nor regular file (a unix socket made here, the null device): they
        // exist, and every "is a ..." macro fails on them
        let sock = format!("{}/sock", sb.display());
        let listener = std::os::unix::net::UnixListener::bind(&sock);
        let v = Vfs::stdfs();
        for p in [sock.as_str(), "/dev/null"] {
            if p == sock && listener.is_err() {
                continue;
            }
            let runs: Vec<(&str, bool, Result<(), String>)> = vec![
                ("assert_vfs_exists", false, crate::engine::catch(|| { rivia::assert_vfs_exists!(&v, p); })),
                ("assert_vfs_no_exists", true, crate::engine::catch(|| { rivia::assert_vfs_no_exists!(&v, p); })),
                ("assert_vfs_is_file", true, crate::engine::catch(|| { rivia::assert_vfs_is_file!(&v, p); })),
                ("assert_vfs_is_dir", true, crate::engine::catch(|| { rivia::assert_vfs_is_dir!(&v, p); })),
                ("assert_vfs_is_symlink", true, crate::engine::catch(|| { rivia::assert_vfs_is_symlink!(&v, p); })),
                ("assert_vfs_no_symlink", false, crate::engine::catch(|| { rivia::assert_vfs_no_symlink!(&v, p); })),
            ];
            for (mac, want_panic, got) in runs {
                c.eval(1);
                c.nontrivial(fp(&("special-file", p == sock, mac)));
                c.class("entry-of-another-kind:socket-or-device");
                let res = match (want_panic, got) {
                    (true, Ok(())) => Err(Failure::new(format!("macro-passes-vacuously|{}|socket-or-device,stdfs", mac), format!("{}!({:?}) did not panic", mac, p))),
                    (false, Err(m)) => Err(Failure::new(format!("macro-fails-on-satisfying-state|{}|socket-or-device,stdfs", mac), format!("{}!({:?}) panicked: {}", mac, p, m))),
                    (true, Err(m)) if !m.contains(mac) || !m.contains(p) => Err(Failure::new(format!("message-does-not-name-macro-or-path|{}|socket-or-device,stdfs", mac), format!("{}!({:?}) said {:?}", mac, p, m))),
                    _ => Ok(()),
                };
                c.judge("special", &json!([p, mac]), res);
            }
        }
        drop(listener);
        let _ = std::fs::remove_dir_all(&sb);
    }
    crate::sandbox::cleanup();
    // a panic that started on another thread and is re-raised inside the closure is still a panic with that message
    {
        c.eval(1);
        c.class("capture_panic:message-fidelity");
        let r = std::panic::catch_unwind(|| {
            rivia::testing::capture_panic(|| {
                let worker = std::thread::spawn(|| panic!("assert_vfs_probe!: raised on a worker thread"));
                if let Err(payload) = worker.join() {
                    std::panic::resume_unwind(payload);
                }
            })
        });
        install_panic_hook();
        let res = match r {
            Ok(Err(e)) if e.to_string().contains("raised on a worker thread") => Ok(()),
            Ok(Err(e)) => Err(Failure::new("capture_panic|message-altered|re-raised", format!("got {:?}", e.to_string()))),
            Ok(Ok(())) => Err(Failure::new("capture_panic|panic-not-reported|re-raised", "a payload re-raised with resume_unwind was reported as Ok".to_string())),
            Err(_) => Err(Failure::new("capture_panic|panicked-itself|re-raised", "capture_panic let the panic through".to_string())),
        };
        c.judge("capture-panic-reraised", &json!(null), res);
    }
    // serial (the helper swaps the global panic hook): message lengths around plausible caps
    for len in [0usize, 19, 100, 255, 256, 257, 511, 512, 513, 1023, 1024, 1025, 4096, 70_000] {
        for mb in [false, true] {
            c.eval(1);
            c.class("capture_panic:message-fidelity");
            c.judge("capture-panic", &json!([len, mb]), check_capture_panic(len, mb));
        }
    }
}

/// testing::capture_panic hands back the whole panic message (it is how callers read what a macro said)
pub fn check_capture_panic(len: usize, multibyte: bool) -> CaseResult {
    let unit = if multibyte { "é日" } else { "ab" };
    let mut msg = String::from("assert_vfs_probe!: ");
    while msg.len() < len {
        msg.push_str(unit);
    }
    let m2 = msg.clone();
    let r = std::panic::catch_unwind(move || rivia::testing::capture_panic(move || panic!("{}", m2)));
    // capture_panic swaps the process panic hook: restore ours
    install_panic_hook();
    match r {
        Ok(Err(e)) if e.to_string().contains(&msg) => Ok(()),
        Ok(Err(e)) => Err(Failure::new("capture_panic|message-altered", format!("a panic message of {} bytes came back as {:?} ({} bytes)", msg.len(), e.to_string().chars().take(80).collect::<String>(), e.to_string().len()))),
        Ok(Ok(())) => Err(Failure::new("capture_panic|panic-not-reported", format!("a panic with a message of {} bytes was reported as Ok", msg.len()))),
        Err(_) => Err(Failure::new("capture_panic|panicked-itself", format!("capture_panic panicked on a message of {} bytes (multibyte={})", msg.len(), multibyte))),
    }
}

pub fn replay(kind: &str, case: &Value) -> Option<CaseResult> {
    if kind == "capture-panic-reraised" {
        return Some(Ok(())); // re-run the check itself
    }
    if kind == "capture-panic" {
        let a = case.as_array()?;
        return Some(check_capture_panic(a[0].as_u64()? as usize, a[1].as_bool()?));
    }
    match kind {
        "macro" => {
            let r = check_macro(&serde_json::from_value(case.clone()).ok()?);
            crate::sandbox::cleanup();
            Some(r)
        },
        _ => None,
    }
}
