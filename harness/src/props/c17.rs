//! C17 — expand() substitutes ~ and environment variables exactly, in every environment
use std::collections::BTreeMap;
use std::path::Path;

use serde::{Deserialize, Serialize};
use serde_json::{json, Value};

use crate::{child::probe, engine::*, refpath::*};

const VALUES: &[Option<&str>] = &[None, Some(""), Some("plain"), Some("a/b"), Some("/abs/x"), Some("has space"), Some("work~"), Some("~/data")];

#[derive(Debug, Clone, Serialize, Deserialize)]
pub struct EnvCase {
    pub env: BTreeMap<String, String>,
    pub templates: Vec<String>,
}

fn all_envs() -> Vec<BTreeMap<String, String>> {
    let mut v = vec![];
    for h in VALUES {
        for a in VALUES {
            for b in VALUES {
                let mut e = BTreeMap::new();
                if let Some(x) = h {
                    e.insert("HOME".to_string(), x.to_string());
                }
                if let Some(x) = a {
                    e.insert("V1".to_string(), x.to_string());
                }
                if let Some(x) = b {
                    e.insert("V2".to_string(), x.to_string());
                }
                v.push(e);
            }
        }
    }
    // HOME values of their own: the root and a value with a trailing separator
    for h in ["/", "//", "/abs/x/"] {
        for a in [None, Some("plain"), Some("/abs/x")] {
            let mut e = BTreeMap::new();
            e.insert("HOME".to_string(), h.to_string());
            if let Some(x) = a {
                e.insert("V1".to_string(), x.to_string());
            }
            v.push(e);
        }
    }
    v
}

const LITERALS: &[&str] = &["a", "b.c", "x y", "é", "-"];
const VARS: &[&str] = &["HOME", "V1", "V2", "UNSET"];

/// All components made of <= `n` atoms inside the documented grammar
fn components(n: usize) -> Vec<String> {
    // atom kinds: literal, $V (must be last or followed by a '$' atom), ${V}
    let mut atoms: Vec<(String, u8)> = vec![];
    for l in LITERALS {
        atoms.push((l.to_string(), 0));
    }
    for v in VARS {
        atoms.push((format!("${}", v), 1));
        atoms.push((format!("${{{}}}", v), 2));
    }
    let mut out: Vec<(String, u8)> = atoms.clone();
    let mut frontier = atoms.clone();
    for _ in 1..n {
        let mut next = vec![];
        for (s, last) in &frontier {
            for (a, k) in &atoms {
                if *last == 1 && *k == 0 {
                    continue; // "$Vx" has no documented meaning
                }
                next.push((format!("{}{}", s, a), *k));
            }
        }
        out.extend(next.iter().cloned());
        frontier = next;
    }
    out.into_iter().map(|x| x.0).collect()
}

const ERROR_SHAPES: &[&str] = &[
    "~~", "~/~", "a/~", "a~", "~x", "~x/y", "x/~/y", "$", "${}", "$$", "a$", "abc$", "$/a", "a/$", "a/$/b", "a$/b", "${}/a", "$${V1}",
    "$UNSET", "${UNSET}", "a/$UNSET/b", "a${UNSET}b", "~/$UNSET", "~", "~/", "~/a", "~/a/b", "~/$V1", "~/${V2}/x", "~/..", "~/.",
    "a", "a/b", "/a/b", "a//b", "./a", "../a", "a/./b", "a/", "/", ".", "", " ", "a b/c", "é/日", "file://a", "/foo/${HOME}", "/foo/$V1",
    // the home symbol in every position of absolute and variable-led paths too
    "~//foo", "~//", "~///a/b", "~/./x", "~/a//b",
    "/~", "/~/x", "/a/~", "/a~", "/a~b", "/a/~/~", "/~~", "//~", "/a/b/~/c", "./~", "../~", "$V1/~", "${V1}~", "/$V1/~", "/a/~x", "~/a~", "~/a/~",
    "$V1", "${V1}", "$V1/$V2", "${V1}${V2}", "$V1$V2", "x${V1}y", "x$V1", "/$V1", "/${V1}/", "$HOME", "${HOME}/a", "$HOME/$HOME",
];

fn templates_for(seed: u64, env_idx: u64, count: usize, comps: &[String]) -> Vec<String> {
    let mut t: Vec<String> = ERROR_SHAPES.iter().map(|s| s.to_string()).collect();
    let prefixes = ["", "", "/", "~/", "./", "lit/"];
    let mut i = 0u64;
    while t.len() < count + ERROR_SHAPES.len() {
        let r = splitmix(seed ^ splitmix(env_idx.wrapping_mul(1_000_003) + i));
        i += 1;
        let n = 1 + (r % 3) as usize;
        let mut parts = vec![];
        let mut x = r >> 8;
        for _ in 0..n {
            x = splitmix(x);
            // favour components with substitutions
            let c = &comps[(x % comps.len() as u64) as usize];
            parts.push(c.clone());
        }
        let p = prefixes[((r >> 4) % prefixes.len() as u64) as usize];
        let trail = if (r >> 60) & 3 == 0 { "/" } else { "" };
        let mut s = format!("{}{}{}", p, parts.join("/"), trail);
        // one in six gets a home symbol at a seeded character position (any position but a lone leading one must fail)
        if (r >> 40) % 6 == 0 {
            let at = ((r >> 44) as usize) % (s.chars().count() + 1);
            let byte = s.char_indices().nth(at).map(|(b, _)| b).unwrap_or(s.len());
            s.insert(byte, '~');
        }
        t.push(s);
    }
    t
}

fn env_class(env: &BTreeMap<String, String>) -> String {
    let f = |k: &str| match env.get(k).map(|s| s.as_str()) {
        None => "unset",
        Some("") => "empty",
        Some(v) if v.starts_with('/') => "abs",
        Some(v) if v.contains('/') => "seps",
        Some(v) if v.contains(' ') => "space",
        _ => "plain",
    };
    format!("HOME={},V1={},V2={}", f("HOME"), f("V1"), f("V2"))
}

fn check_one(env: &BTreeMap<String, String>, t: &str, resp: &Value, resp_ext: &Value) -> CaseResult {
    if resp != resp_ext {
        return Err(Failure::new("expand|pathext-differs", format!("sys::expand({:?}) = {} but Path::expand = {}", t, resp, resp_ext)));
    }
    if let Some(m) = resp.get("panic") {
        return Err(Failure::new(format!("expand|panic|{}", panic_site(m.as_str().unwrap_or(""))), format!("expand({:?}) panicked: {} env {:?}", t, m, env)));
    }
    if t.is_empty() {
        return Ok(());
    }
    if !expand_in_grammar(t) {
        return Ok(()); // outside the documented grammar: totality only
    }
    let want = ref_expand(env, t);
    match (&want, resp.get("ok"), resp.get("err")) {
        (Ok(list), Some(got), _) => {
            let got = match got.as_str() {
                Some(g) => g,
                None => return Err(Failure::new("expand|non-utf8", format!("expand({:?})", t))),
            };
            if !t.contains('~') && !t.contains('$') {
                if got != t {
                    return Err(Failure::new("expand|plain-text-changed", format!("expand({:?}) = {:?}, text without '~'/'$' must be returned unchanged", t, got)));
                }
                return Ok(());
            }
            if !list.iter().any(|w| w.as_path() == Path::new(got)) {
                let kind = if t.contains('~') && t.contains('$') { "home+var" } else if t.contains('~') { "home" } else { "var" };
                return Err(Failure::new(
                    format!("expand|value|{}", kind),
                    format!("expand({:?}) = {:?} want one of {:?} in env {:?}", t, got, list, env),
                ));
            }
            Ok(())
        },
        (Err(e), Some(got), _) => {
            let shape = match e {
                ExpandErr::MultipleHome => "multiple-home".to_string(),
                ExpandErr::HomeNotLeading => "home-not-leading".to_string(),
                ExpandErr::EmptyVarName => format!("empty-var-name|{}", if t.ends_with('$') || t.contains("$/") { "dollar-ends-component" } else { "inner" }),
                ExpandErr::VarNotSet(_) => "var-not-set".to_string(),
            };
            Err(Failure::new(format!("expand|accepted-invalid|{}", shape), format!("expand({:?}) = Ok({}) but must fail ({:?}) in env {:?}", t, got, e, env)))
        },
        (Ok(list), _, Some(err)) => Err(Failure::new("expand|rejected-valid", format!("expand({:?}) = Err({}) want {:?} in env {:?}", t, err, list, env))),
        (Err(_), _, Some(_)) => Ok(()),
        _ => Err(Failure::new("expand|bad-response", format!("{}", resp))),
    }
}

pub fn check_env(case: &EnvCase) -> CaseResult {
    let c = ctx();
    let mut reqs = vec![];
    for t in &case.templates {
        reqs.push(json!({"op":"expand","s":t}));
        reqs.push(json!({"op":"expand_ext","s":t}));
    }
    let resp = match probe(&case.env, &reqs) {
        Ok(r) => r,
        Err(e) => {
            c.inconclusive(&format!("envprobe child failed: {}", e));
            return Ok(());
        },
    };
    let mut first: Option<Failure> = None;
    for (i, t) in case.templates.iter().enumerate() {
        c.eval(1);
        let subs = t.matches('$').count() + t.matches('~').count();
        let want_err = expand_in_grammar(t) && ref_expand(&case.env, t).is_err();
        if subs >= 2 || want_err {
            c.nontrivial(fp(&(&case.env, t)));
        }
        if want_err {
            c.class("template:error-shape");
        } else if subs > 0 {
            c.class("template:with-substitution");
        } else {
            c.class("template:plain");
        }
        if !expand_in_grammar(t) {
            c.exclude(1);
        }
        if let Err(f) = check_one(&case.env, t, &resp[2 * i], &resp[2 * i + 1]) {
            // judge every template on its own so known findings do not hide other failures
            let single = EnvCase { env: case.env.clone(), templates: vec![t.clone()] };
            if !c.judge("expand-env", &single, Err(f.clone())) && first.is_none() {
                first = Some(f);
            }
        }
    }
    match first {
        Some(f) => Err(f),
        None => Ok(()),
    }
}

#[derive(Debug, Clone, Serialize, Deserialize)]
pub struct EnvSeqCase {
    /// environments visited one after the other inside ONE process
    pub envs: Vec<BTreeMap<String, String>>,
    pub templates: Vec<String>,
}

/// The environment changes while the process lives: every expansion uses the environment of that moment
pub fn check_env_seq(case: &EnvSeqCase) -> CaseResult {
    let mut reqs = vec![];
    let mut at: Vec<(usize, usize, usize)> = vec![]; // (stage, template, request index)
    let mut cur = case.envs[0].clone();
    for (si, e) in case.envs.iter().enumerate() {
        if si > 0 {
            for k in ["HOME", "V1", "V2"] {
                match (cur.get(k), e.get(k)) {
                    (_, Some(v)) => reqs.push(json!({"op":"setenv","k":k,"v":v})),
                    (Some(_), None) => reqs.push(json!({"op":"unsetenv","k":k})),
                    (None, None) => {},
                }
            }
            cur = e.clone();
        }
        for (ti, t) in case.templates.iter().enumerate() {
            at.push((si, ti, reqs.len()));
            reqs.push(json!({"op":"expand","s":t}));
            reqs.push(json!({"op":"expand_ext","s":t}));
        }
    }
    let resp = match probe(&case.envs[0], &reqs) {
        Ok(r) => r,
        Err(e) => {
            ctx().inconclusive(&format!("envprobe child failed: {}", e));
            return Ok(());
        },
    };
    for (si, ti, ri) in at {
        if let Err(mut f) = check_one(&case.envs[si], &case.templates[ti], &resp[ri], &resp[ri + 1]) {
            if si > 0 {
                f.sig = format!("{}|after-environment-change", f.sig);
                f.detail = format!("{} (stage {} of the environment sequence {:?})", f.detail, si + 1, case.envs);
            }
            return Err(f);
        }
    }
    Ok(())
}

pub fn run(c: &Ctx) {
    c.set_rule("environments: HOME, V1, V2 each in {unset, empty, plain, 'a/b', '/abs/x', 'has space'} (216 + 9 with HOME '/', '//' or a trailing separator; quick: a seeded stratified 100), one child process per environment started with env_clear(); templates: a fixed table of error shapes and pinned examples plus seeded samples from the grammar (prefix '', '/', '~/', './' + 1-3 components of <=3 atoms in {literal, $V, ${V}} in every position). Oracle: reference expansion written from the statement (component-level equality; textual and PathBuf::push reading both admitted for a substituted absolute value). Plus: Memfs::abs and Stdfs::abs refuse every template expand() refuses (19 shapes whose '~' or '$' reaches or leaves the front only through lexical cleaning) and expand '~' before cleaning. Non-trivial = template with >=2 expansions or an error shape; distinct by (environment, template). Plus a variable whose value is not valid UTF-8 (five templates: an error or exactly those bytes). Plus histories over environments: 400 (quick) / 4000 (thorough) seeded sequences of 4 environments visited inside ONE child process (setenv/unsetenv between stages), 8 templates per stage, same oracle against the environment of that moment (non-trivial = HOME differs between two consecutive stages).");
    c.assume("templates outside the documented grammar ('$V' followed by a literal, unterminated '${', stray braces) are only required not to panic");
    let envs = all_envs();
    let comps = components(3);
    c.note("grammar_components", comps.len());
    let n_envs = c.tier.pick(100, envs.len());
    let per_env = c.tier.pick(1000, 3000);
    // stratified: always the all-unset and all-set environments, the rest seeded
    let mut chosen: Vec<usize> = vec![0, envs.len() - 1, envs.len() - 9, envs.len() - 5, 2 * 36 + 2 * 6 + 2, 4 * 36 + 3 * 6 + 5, 36 + 6 + 1];
    let mut i = 0u64;
    while chosen.len() < n_envs {
        let k = (splitmix(c.seed ^ splitmix(1700 + i)) % envs.len() as u64) as usize;
        i += 1;
        if !chosen.contains(&k) {
            chosen.push(k);
        }
    }
    if n_envs == envs.len() {
        chosen = (0..envs.len()).collect();
        c.set_exhaustive(false);
    }
    par_for(chosen.len() as u64, 1, |j| {
        let k = chosen[j as usize];
        let env = &envs[k];
        let case = EnvCase { env: env.clone(), templates: templates_for(c.seed, k as u64, per_env, &comps) };
        mark("expand-env", &serde_json::to_string(&json!({"env": env})).unwrap());
        c.class(&format!("env:HOME-{}", env_class(env).split(",").next().unwrap().trim_start_matches("HOME=")));
        if j < 3 {
            c.sample(|| json!({"kind":"expand-env","env":env,"templates": case.templates.iter().rev().take(6).collect::<Vec<_>>() }));
        }
        let _ = check_env(&case);
    });
    c.note("environments", chosen.len());
    // a variable whose value is not valid UTF-8: the expansion fails or substitutes exactly those bytes
    {
        let raw: Vec<u8> = vec![b'c', b'a', b'f', 0xe9];
        let hex: String = raw.iter().map(|b| format!("{:02x}", b)).collect();
        let mut e: BTreeMap<String, String> = BTreeMap::new();
        e.insert("HOME".into(), "/h".into());
        e.insert("V1".into(), format!("\u{1}bytes:{}", hex));
        let ts = ["$V1", "${V1}", "a/$V1", "${V1}/x", "~/$V1"];
        let reqs: Vec<Value> = ts.iter().map(|t| json!({"op":"expand","s":t})).collect();
        match probe(&e, &reqs) {
            Ok(resp) => {
                for (t, r) in ts.iter().zip(resp.iter()) {
                    c.eval(1);
                    c.nontrivial(fp(&("non-utf8-value", t)));
                    c.class("variable-value-not-utf8");
                    let want: String = {
                        let pre = t.replace("${V1}", "\u{0}").replace("$V1", "\u{0}").replace('~', "/h");
                        pre.bytes().flat_map(|b| if b == 0 { raw.clone() } else { vec![b] }).map(|b| format!("{:02x}", b)).collect()
                    };
                    let res = if r.get("err").is_some() || r.get("ok_bytes").and_then(|x| x.as_str()) == Some(want.as_str()) {
                        Ok(())
                    } else {
                        Err(Failure::new("expand|non-utf8-value-altered", format!("expand({:?}) with V1 = bytes {:?}: {} (want an error or exactly bytes {})", t, raw, r, want)))
                    };
                    c.judge("expand-non-utf8", &json!([t]), res);
                }
            },
            Err(x) => c.inconclusive(&format!("envprobe child failed: {}", x)),
        }
    }
    // both backends' abs() take their expansion from expand(): a template whose '~' only reaches (or leaves) the front
    // through lexical cleaning is judged as spelled - what expand() refuses, abs() refuses
    {
        let mut e: BTreeMap<String, String> = BTreeMap::new();
        e.insert("HOME".into(), "/h/user".into());
        e.insert("V1".into(), "val".into());
        let ts = ["./~", "./~/foo", "foo/../~/bar", "a/../~", "~/~", "foo/~", "/~", "~x", "$", "a/$/b", "${}", "$UNSET/x", "./$UNSET", "~/..", "~/../other", "~", "~/x", "$V1/x", "./$V1"];
        let mut reqs: Vec<Value> = vec![];
        for t in ts {
            reqs.push(json!({"op":"expand","s":t}));
            reqs.push(json!({"op":"abs_mem","cwd":"/cwd/here","s":t}));
            reqs.push(json!({"op":"abs_std","cwd":"/","s":t}));
        }
        match probe(&e, &reqs) {
            Ok(resp) => {
                for (i, t) in ts.iter().enumerate() {
                    let (ex, am, asd) = (&resp[3 * i], &resp[3 * i + 1], &resp[3 * i + 2]);
                    c.eval(1);
                    c.nontrivial(fp(&("abs-follows-expand", t)));
                    c.class("abs-follows-expand");
                    let mut res = Ok(());
                    for (name, r) in [("Memfs::abs", am), ("Stdfs::abs", asd)] {
                        if ex.get("err").is_some() && r.get("ok").is_some() {
                            res = Err(Failure::new(format!("abs|accepts-what-expand-refuses|{}", name), format!("expand({:?}) = {} but {}({:?}) = {}", t, ex, name, t, r)));
                        }
                        // "~/.." is HOME's parent, not the cwd's neighbourhood
                        if *t == "~/.." && r.get("ok").and_then(|x| x.as_str()) != Some("/h") {
                            res = Err(Failure::new(format!("abs|home-expanded-after-cleaning|{}", name), format!("{}(\"~/..\") = {} want /h", name, r)));
                        }
                        if *t == "~/../other" && r.get("ok").and_then(|x| x.as_str()) != Some("/h/other") {
                            res = Err(Failure::new(format!("abs|home-expanded-after-cleaning|{}", name), format!("{}(\"~/../other\") = {} want /h/other", name, r)));
                        }
                    }
                    c.judge("abs-follows-expand", &json!([t]), res);
                }
            },
            Err(x) => c.inconclusive(&format!("envprobe child failed: {}", x)),
        }
    }
    // histories over environments: 4 environments visited inside one process
    let n_seq = c.tier.pick(400u64, 4000);
    let seq_templates: Vec<String> = ["~", "~/x", "$HOME/y", "${HOME}", "${V1}", "$V1/$V2", "a/$V2", "~/$V1"].iter().map(|s| s.to_string()).collect();
    par_for(n_seq, 1, |j| {
        let mut es = vec![];
        for k in 0..4u64 {
            es.push(envs[(splitmix(c.seed ^ splitmix(1750 + j * 4 + k)) % envs.len() as u64) as usize].clone());
        }
        let case = EnvSeqCase { envs: es, templates: seq_templates.clone() };
        mark("expand-env-seq", &serde_json::to_string(&case.envs).unwrap());
        c.eval((case.envs.len() * case.templates.len()) as u64);
        c.class("environment-changes-within-process");
        if case.envs.windows(2).any(|w| w[0].get("HOME") != w[1].get("HOME")) {
            c.nontrivial(fp(&case.envs));
        }
        if j % 37 == 0 {
            c.sample(|| json!({"kind":"expand-env-seq","envs":case.envs}));
        }
        c.judge("expand-env-seq", &case, check_env_seq(&case));
    });
    c.note("environment_sequences", n_seq);
}

pub fn replay(kind: &str, case: &Value) -> Option<CaseResult> {
    match kind {
        "expand-non-utf8" => Some(Ok(())), // needs its dedicated environment: re-run the check itself
        "expand-env-seq" => Some(check_env_seq(&serde_json::from_value(case.clone()).ok()?)),
        "expand-env" => {
            let case: EnvCase = serde_json::from_value(case.clone()).ok()?;
            // check_env judges internally; report the first non-known failure
            let mut reqs = vec![];
            for t in &case.templates {
                reqs.push(json!({"op":"expand","s":t}));
                reqs.push(json!({"op":"expand_ext","s":t}));
            }
            let resp = probe(&case.env, &reqs).ok()?;
            for (i, t) in case.templates.iter().enumerate() {
                if let Err(f) = check_one(&case.env, t, &resp[2 * i], &resp[2 * i + 1]) {
                    return Some(Err(f));
                }
            }
            Some(Ok(()))
        },
        _ => None,
    }
}
