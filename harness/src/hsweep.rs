//! Bounded-exhaustive sweep over *histories* (not states): every sequence of `len` calls over a compact
//! alphabet, appended to a few seed prefixes, each executed from a fresh instance. The reachability
//! exploration of C01 re-creates a state by its shortest path and therefore cannot see what a particular
//! history left in hidden bookkeeping (a memoised parent, a cached resolution, a flag set by one call and
//! trusted by the next); random histories hit a given triple of calls rarely. This closes that gap for
//! short histories.
use serde_json::json;

use crate::{engine::*, fstypes::*};

pub const NS4: [&str; 4] = ["/a", "/b", "/a/a", "/a/b"];

pub fn alphabet() -> Vec<Op> {
    let s = |x: &str| x.to_string();
    let mut v = vec![];
    for p in NS4 {
        v.extend(vec![Op::Mkfile(s(p)), Op::MkdirP(s(p)), Op::WriteAll(s(p), b"1".to_vec()), Op::Remove(s(p)), Op::RemoveAll(s(p)), Op::SetCwd(s(p))]);
    }
    for a in NS4 {
        for b in NS4 {
            if a != b {
                v.extend(vec![Op::MoveP(s(a), s(b)), Op::Copy(s(a), s(b)), Op::Symlink(s(a), s(b))]);
            }
        }
    }
    // calls whose path depends on the cwd, a handle that is opened and dropped untouched, an append
    v.extend(vec![
        Op::Mkfile(s("a")),
        Op::MkdirP(s("b")),
        Op::RemoveAll(s(".")),
        Op::SetCwd(s("..")),
        Op::SetCwd(s("/")),
        Op::WriteH(s("/a/a"), vec![], vec![]),
        Op::AppendAll(s("/a/b"), b"2".to_vec()),
    ]);
    v
}

pub fn seeds() -> Vec<Vec<Op>> {
    let s = |x: &str| x.to_string();
    vec![
        vec![],
        vec![Op::MkdirP(s("/a"))],
        vec![Op::MkdirP(s("/a")), Op::WriteAll(s("/a/a"), b"old".to_vec()), Op::Symlink(s("/b"), s("/a"))],
    ]
}

/// Every sequence of exactly `len` alphabet calls after every seed prefix (`1/den` of them, seeded). `f` gets
/// the whole history (prefix included) and judges it from a fresh instance.
pub fn history_sweep<F: Fn(&[Op]) -> CaseResult + Sync>(c: &Ctx, len: u32, salt: u64, den: u64, label: &str, f: F) {
    let alpha = alphabet();
    let seeds = seeds();
    let k = alpha.len() as u64;
    let per_seed = k.pow(len);
    let total = per_seed * seeds.len() as u64;
    let ran = std::sync::atomic::AtomicU64::new(0);
    par_for(total, 512, |i| {
        if den > 1 && !sampled(c.seed, salt, i, 1, den) {
            return;
        }
        let seed = &seeds[(i / per_seed) as usize];
        let mut x = i % per_seed;
        let mut ops = seed.clone();
        let mut structural = false;
        for _ in 0..len {
            let op = alpha[(x % k) as usize].clone();
            x /= k;
            structural |= op.paths().len() == 2 || matches!(op, Op::Remove(_) | Op::RemoveAll(_) | Op::SetCwd(_));
            ops.push(op);
        }
        if i % 64 == 0 {
            mark("ops", &serde_json::to_string(&ops).unwrap());
        } else {
            tick();
        }
        c.eval(1);
        ran.fetch_add(1, std::sync::atomic::Ordering::Relaxed);
        if structural {
            c.nontrivial(fp(&(label, i)));
        }
        if i % 50_021 == 0 {
            c.sample(|| json!({"kind": "ops", "history-sweep": label, "ops": ops}));
        }
        let r = f(&ops).map_err(|e| e.with_case("ops", json!(ops)));
        c.judge("ops", &json!(null), r);
    });
    c.class_n(&format!("history-sweep:{}:len{}", label, len), ran.load(std::sync::atomic::Ordering::Relaxed));
    c.note(&format!("history_sweep_{}_len{}", label, len), json!({"alphabet": k, "seed_prefixes": seeds.len(), "sequences": ran.load(std::sync::atomic::Ordering::Relaxed), "of": total}));
}

/// Calls whose path argument is not valid UTF-8 (a Latin-1 file name built from bytes; legal on Linux, and the
/// argument type is `AsRef<Path>`), after every seed prefix. Returns, per call, its description, whether it
/// reported failure, whether the complete state (hook H2, order-normalised) is what it was before the call, and
/// what `integrity` finds afterwards. Each call runs on a fresh instance.
pub fn odd_path_calls() -> Vec<(String, Result<bool, String>, bool, Vec<(String, String)>)> {
    use std::os::unix::ffi::OsStringExt;
    use rivia::prelude::*;
    let odd = |b: &[u8]| std::path::PathBuf::from(std::ffi::OsString::from_vec(b.to_vec()));
    let norm = |mut d: rivia::verif::Dump| {
        d.entries.sort_by(|a, b| a.key.cmp(&b.key));
        for e in d.entries.iter_mut() {
            if let Some(c) = e.children.as_mut() {
                c.sort();
            }
        }
        d.files.sort_by(|a, b| a.key.cmp(&b.key));
        d
    };
    let mut out = vec![];
    let odd_paths: Vec<Vec<u8>> = vec![b"/caf\xe9".to_vec(), b"/a/caf\xe9".to_vec(), b"caf\xe9".to_vec(), b"/\xff/x".to_vec(), b"/a/\xe9t\xe9/deep".to_vec(), b"/a/./caf\xe9/".to_vec()];
    for (si, seed) in seeds().iter().enumerate() {
        for ob in &odd_paths {
            for call in 0..14usize {
                let m = Memfs::new();
                for op in seed {
                    let _ = crate::fsapply::apply(&m, op);
                }
                if si > 0 && call % 2 == 1 {
                    let _ = m.set_cwd("/a");
                }
                let before = norm(m.verif_dump());
                let p = odd(ob);
                let r = catch(|| -> Result<(), String> {
                    match call {
                        0 | 1 => m.mkfile(&p).map(|_| ()),
                        2 => m.mkdir_p(&p).map(|_| ()),
                        3 => m.mkdir_m(&p, 0o750).map(|_| ()),
                        4 | 5 => m.write_all(&p, b"data"),
                        6 => m.append_all(&p, b"data"),
                        7 => m.symlink(&p, "/a").map(|_| ()),
                        8 => m.symlink("/n", &p).map(|_| ()),
                        9 => m.copy("/a/a", &p),
                        10 => m.move_p("/a/a", &p),
                        11 => m.set_cwd(&p).map(|_| ()),
                        12 => m.mkfile_m(&p, 0o600).map(|_| ()),
                        _ => m.remove_all(&p),
                    }
                    .map_err(|e| e.to_string())
                });
                let after = norm(m.verif_dump());
                let names = ["mkfile", "mkfile", "mkdir_p", "mkdir_m", "write_all", "write_all", "append_all", "symlink(link)", "symlink(target)", "copy(dst)", "move_p(dst)", "set_cwd", "mkfile_m", "remove_all"];
                let desc = format!("{}({:?}) after seed prefix {}{}", names[call], p, si, if si > 0 && call % 2 == 1 { " from cwd /a" } else { "" });
                let res = match r {
                    Ok(Ok(())) => Ok(false),
                    Ok(Err(_)) => Ok(true),
                    Err(pn) => Err(pn),
                };
                out.push((desc, res, before == after, crate::fsapply::integrity(&after)));
            }
        }
    }
    out
}
