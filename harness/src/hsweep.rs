//! Bounded-exhaustive sweep over *histories* (not states): every sequence of `len` calls over a compact
//! alphabet, appended to a few seed prefixes, each executed from a fresh instance. The reachability
//! exploration of C01 re-creates a state by its shortest path and therefore cannot see what a particular
//! history left in hidden bookkeeping (a memoised parent, a cached resolution, a flag set by one call and
//! trusted by the next); random histories hit a given triple of calls rarely. This closes that gap for
//! short histories.
use serde_json::json;

use crate::{engine::*, fstypes::*};

pub const NS4: [&str; 4] = ["/a", "/b", "/a/a", "/a/b"];

pub fn alphabet() -> Vec<Op> {
    let s = |x: &str| x.to_string();
    let mut v = vec![];
    for p in NS4 {
        v.extend(vec![Op::Mkfile(s(p)), Op::MkdirP(s(p)), Op::WriteAll(s(p), b"1".to_vec()), Op::Remove(s(p)), Op::RemoveAll(s(p)), Op::SetCwd(s(p))]);
    }
    for a in NS4 {
        for b in NS4 {
            if a != b {
                v.extend(vec![Op::MoveP(s(a), s(b)), Op::Copy(s(a), s(b)), Op::Symlink(s(a), s(b))]);
            }
        }
    }
    // calls whose path depends on the cwd, a handle that is opened and dropped untouched, an append
    v.extend(vec![
        Op::Mkfile(s("a")),
        Op::MkdirP(s("b")),
        Op::RemoveAll(s(".")),
        Op::SetCwd(s("..")),
        Op::SetCwd(s("/")),
        Op::WriteH(s("/a/a"), vec![], vec![]),
        Op::AppendAll(s("/a/b"), b"2".to_vec()),
    ]);
    v
}

pub fn seeds() -> Vec<Vec<Op>> {
    let s = |x: &str| x.to_string();
    vec![
        vec![],
        vec![Op::MkdirP(s("/a"))],
        vec![Op::MkdirP(s("/a")), Op::WriteAll(s("/a/a"), b"old".to_vec()), Op::Symlink(s("/b"), s("/a"))],
    ]
}

/// Every sequence of exactly `len` alphabet calls after every seed prefix (`1/den` of them, seeded). `f` gets
/// the whole history (prefix included) and judges it from a fresh instance.
pub fn history_sweep<F: Fn(&[Op]) -> CaseResult + Sync>(c: &Ctx, len: u32, salt: u64, den: u64, label: &str, f: F) {
    let alpha = alphabet();
    let seeds = seeds();
    let k = alpha.len() as u64;
    let per_seed = k.pow(len);
    let total = per_seed * seeds.len() as u64;
    let ran = std::sync::atomic::AtomicU64::new(0);
    par_for(total, 512, |i| {
        if den > 1 && !sampled(c.seed, salt, i, 1, den) {
            return;
        }
        let seed = &seeds[(i / per_seed) as usize];
        let mut x = i % per_seed;
        let mut ops = seed.clone();
        let mut structural = false;
        for _ in 0..len {
            let op = alpha[(x % k) as usize].clone();
            x /= k;
            structural |= op.paths().len() == 2 || matches!(op, Op::Remove(_) | Op::RemoveAll(_) | Op::SetCwd(_));
            ops.push(op);
        }
        if i % 64 == 0 {
            mark("ops", &serde_json::to_string(&ops).unwrap());
        } else {
            tick();
        }
        c.eval(1);
        ran.fetch_add(1, std::sync::atomic::Ordering::Relaxed);
        if structural {
            c.nontrivial(fp(&(label, i)));
        }
        if i % 50_021 == 0 {
            c.sample(|| json!({"kind": "ops", "history-sweep": label, "ops": ops}));
        }
        let r = f(&ops).map_err(|e| e.with_case("ops", json!(ops)));
        c.judge("ops", &json!(null), r);
    });
    c.class_n(&format!("history-sweep:{}:len{}", label, len), ran.load(std::sync::atomic::Ordering::Relaxed));
    c.note(&format!("history_sweep_{}_len{}", label, len), json!({"alphabet": k, "seed_prefixes": seeds.len(), "sequences": ran.load(std::sync::atomic::Ordering::Relaxed), "of": total}));
}
