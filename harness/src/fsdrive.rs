//! Lock-step execution of histories on Memfs and on the reference model
use rivia::prelude::*;
use serde_json::{json, Value};

use crate::{
    engine::Failure,
    fsapply::*,
    fsgen::*,
    fsmodel::*,
    fstypes::*,
    refpath::*,
};

pub fn node_class(m: &Model, abs: &str) -> String {
    if abs == "/" {
        return "root".into();
    }
    match m.t.nodes.get(abs) {
        Some(Node::Dir { .. }) => if m.t.children(abs).is_empty() { "dir-empty".into() } else { "dir-nonempty".into() },
        Some(Node::File { .. }) => "file".into(),
        Some(Node::Link { target, .. }) => match m.kind(target) {
            Some(Kind::Dir) => "link-to-dir".into(),
            Some(Kind::File) => "link-to-file".into(),
            Some(Kind::Link) => "link-to-link".into(),
            None => "link-dangling".into(),
        },
        None => {
            let par = match m.kind(&parent(abs)) {
                Some(Kind::Dir) => "dir",
                Some(Kind::File) => "file",
                Some(Kind::Link) => "link",
                None => "missing",
            };
            format!("missing(parent={})", par)
        },
    }
}

/// Abstract class of the arguments in the pre-state (used in signatures; never raw values)
pub fn arg_class(m: &Model, op: &Op) -> String {
    let mut parts = vec![];
    let mut abss = vec![];
    for p in op.paths() {
        match abs_plain(&m.t.cwd, p) {
            Ok(a) => {
                let mut c = node_class(m, &a);
                if m.through_link(p) {
                    c.push_str("+through-link");
                }
                parts.push(c);
                abss.push(Some(a));
            },
            Err(AbsErr::Empty) => {
                parts.push("empty-string".into());
                abss.push(None)
            },
            Err(_) => {
                parts.push("above-root".into());
                abss.push(None)
            },
        }
    }
    if let Op::Symlink(l, t) = op {
        // second argument of symlink is relative to the link's directory
        if let (Some(Some(la)), false) = (abss.first(), t.starts_with('/')) {
            if let Ok(ta) = abs_plain("/", &format!("{}/{}", parent(la), t)) {
                parts[1] = node_class(m, &ta);
                abss[1] = Some(ta);
            }
        }
        let _ = l;
    }
    if abss.len() == 2 {
        if let (Some(a), Some(b)) = (&abss[0], &abss[1]) {
            let rel = if a == b {
                "same"
            } else if is_under(b, a) {
                "second-under-first"
            } else if is_under(a, b) {
                "first-under-second"
            } else {
                "disjoint"
            };
            parts.push(rel.into());
        }
    }
    match op {
        Op::ChmodB(_, o) => parts.push(format!(
            "sel={},rec={},follow={}",
            match &o.sel {
                ChmodSel::All(m) => if *m == 0 { "all0" } else { "all" },
                ChmodSel::Dirs(m) => if *m == 0 { "dirs0" } else { "dirs" },
                ChmodSel::Files(m) => if *m == 0 { "files0" } else { "files" },
                ChmodSel::Sym(_) => "sym",
                ChmodSel::Mix { .. } => "octal+sym",
            },
            o.recursive,
            o.follow
        )),
        Op::ChownB(_, o) => parts.push(format!("rec={},follow={}", o.recursive, o.follow)),
        Op::CopyB(_, _, o) => parts.push(format!("mode={},follow={}", match o.mode {
            CopyMode::None => "none",
            CopyMode::All(_) => "all",
            CopyMode::Dirs(_) => "dirs",
            CopyMode::Files(_) => "files",
            CopyMode::Two(..) => "two-options",
        }, o.follow)),
        _ => {},
    }
    parts.join(",")
}

const ATOMIC: &[&str] = &["mkfile", "mkdir_p", "mkdir_m", "write_all", "append_all", "remove", "move_p", "symlink", "set_cwd"];

fn dump_eq(a: &rivia::verif::Dump, b: &rivia::verif::Dump) -> bool {
    tree_from_dump(a) == tree_from_dump(b) && {
        let mut x: Vec<_> = a.files.iter().map(|f| (&f.key, &f.data)).collect();
        let mut y: Vec<_> = b.files.iter().map(|f| (&f.key, &f.data)).collect();
        x.sort();
        y.sort();
        x == y
    } && {
        let norm = |d: &rivia::verif::Dump| {
            let mut v: Vec<_> = d.entries.iter().map(|e| {
                let mut c = e.children.clone().unwrap_or_default();
                c.sort();
                (e.key.clone(), c)
            }).collect();
            v.sort();
            v
        };
        norm(a) == norm(b)
    }
}

pub struct StepOpts {
    /// compare results and trees with the reference model (C01); false = integrity only (C03)
    pub model_compare: bool,
    pub api_view: bool,
}

#[derive(Debug, Default, Clone)]
pub struct StepInfo {
    pub out_err: bool,
    pub resynced: bool,
    pub mutated: bool,
}

/// One step on Memfs + model. Err(Failure) describes a divergence.
pub fn step(mem: &Memfs, model: &mut Model, op: &Op, o: &StepOpts) -> Result<StepInfo, Failure> {
    step_h(mem, model, op, o, &mut Handles::default())
}

/// One step with a handle table that lives across steps
pub fn step_h(mem: &Memfs, model: &mut Model, op: &Op, o: &StepOpts, h: &mut Handles) -> Result<StepInfo, Failure> {
    let ac = arg_class(model, op);
    let name = op.name();
    let pre = mem.verif_dump();
    let expect = model.apply(op);
    let out = apply_h(mem, op, h);
    let post = mem.verif_dump();
    let mut info = StepInfo { out_err: out.is_err(), ..Default::default() };
    if let Out::Panic(msg) = &out {
        return Err(Failure::new(
            format!("{}|{}|panic|{}", name, ac, crate::engine::panic_site(msg)),
            format!("{:?} panicked: {}", op, msg),
        ));
    }
    let bad = integrity(&post);
    if !bad.is_empty() {
        return Err(Failure::new(
            format!("{}|{}|integrity:{}", name, ac, bad[0].0),
            format!("after {:?} -> {:?}: {}", op, out, bad.iter().map(|b| format!("{}: {}", b.0, b.1)).collect::<Vec<_>>().join("; ")),
        ));
    }
    if out.is_err() && ATOMIC.contains(&name) && !dump_eq(&pre, &post) {
        return Err(Failure::new(
            format!("{}|{}|failed-call-changed-tree", name, ac),
            format!("{:?} -> {:?} but the tree changed: before {:?} after {:?}", op, out, tree_from_dump(&pre).nodes.keys().collect::<Vec<_>>(), tree_from_dump(&post).nodes.keys().collect::<Vec<_>>()),
        ));
    }
    let obs = tree_from_dump(&post);
    info.mutated = !dump_eq(&pre, &post);
    // "chmod never alters a symlink itself": whatever the options and however a chain of links is followed,
    // the permission word of every link that was there before is the one it has afterwards (C11, asserted on
    // every history that is executed - the model leaves followed chains unspecified, this does not)
    if matches!(name, "chmod" | "chmod_b") {
        let before = tree_from_dump(&pre);
        for (k, n) in &before.nodes {
            if let (Node::Link { mode: m0, .. }, Some(Node::Link { mode: m1, .. })) = (n, obs.nodes.get(k)) {
                if m0 != m1 {
                    return Err(Failure::new(
                        format!("{}|{}|link-itself-altered", name, ac),
                        format!("{:?} -> {:?}: the link {:?} had mode {:o}, now {:o}", op, out, k, m0, m1),
                    ));
                }
            }
        }
    }
    if o.api_view {
        if let Some(d) = api_view_mismatch(mem, &obs) {
            return Err(Failure::new(format!("{}|{}|api-view-differs-from-stored-state", name, ac), format!("after {:?}: {}", op, d)));
        }
    }
    if !o.model_compare {
        *model = Model::adopt(obs);
        return Ok(info);
    }
    let mut first_tree_diff: Option<(String, String)> = None;
    let mut out_matched = false;
    for alt in &expect {
        if !pat_matches(&alt.out, &out) {
            continue;
        }
        out_matched = true;
        if alt.unspec {
            *model = Model::adopt(obs);
            info.resynced = true;
            return Ok(info);
        }
        let want = alt.post.as_ref().unwrap_or(model);
        match want.diff(&obs) {
            None => {
                let mut next = want.clone();
                // keep observed link bookkeeping that the model does not predict
                for (k, n) in &obs.nodes {
                    if let (Node::Link { to_dir, .. }, Some(Node::Link { to_dir: md, .. })) = (n, next.t.nodes.get_mut(k)) {
                        *md = *to_dir;
                    }
                }
                *model = next;
                return Ok(info);
            },
            Some(d) => {
                if first_tree_diff.is_none() {
                    first_tree_diff = Some(d);
                }
            },
        }
    }
    let pats: Vec<String> = expect
        .iter()
        .map(|a| match &a.out {
            Pat::Is(o) => format!("{:?}", o),
            p => format!("{:?}", p),
        })
        .collect();
    if !out_matched {
        let want_class = if expect.iter().all(|a| matches!(a.out, Pat::AnyErr | Pat::ErrKinds(_))) {
            "want-err"
        } else if expect.iter().any(|a| matches!(a.out, Pat::AnyErr | Pat::ErrKinds(_))) {
            "want-ok-or-err"
        } else {
            "want-ok"
        };
        let got = match &out {
            Out::Err(k) => format!("got-err:{}", k),
            _ => "got-ok".to_string(),
        };
        let sym = if !out.is_err() && want_class == "want-ok" { "wrong-value".to_string() } else { format!("{}|{}", got, want_class) };
        return Err(Failure::new(
            format!("{}|{}|result:{}", name, ac, sym),
            format!("{:?} returned {:?}; reference admits {}", op, out, pats.join(" | ")),
        ));
    }
    let d = first_tree_diff.unwrap();
    Err(Failure::new(format!("{}|{}|tree:{}", name, ac, d.0), format!("{:?} returned {:?}; resulting tree differs from reference: {}", op, out, d.1)))
}

pub struct HistStats {
    pub ops: Vec<Op>,
    pub failing_calls: usize,
    pub ok_mutators: usize,
    pub two_path: usize,
    pub relative: usize,
    pub links: bool,
    pub resyncs: usize,
}

/// Run a generated history from a fresh Memfs. On divergence the failure carries the concrete ops.
pub fn run_specs(specs: &[OpSpec], cfg: &GenCfg, o: &StepOpts, excluded: &mut u64) -> (HistStats, Result<(), Failure>) {
    let mem = Memfs::new();
    let mut model = Model::fresh();
    let mut handles = Handles::default();
    let mut st = HistStats { ops: vec![], failing_calls: 0, ok_mutators: 0, two_path: 0, relative: 0, links: false, resyncs: 0 };
    for s in specs {
        let op = resolve(&model, cfg, s, excluded);
        if st.ops.is_empty() {
            crate::engine::mark("ops", "[");
        }
        crate::engine::mark_append(&format!("{},", serde_json::to_string(&op).unwrap()));
        st.ops.push(op.clone());
        if op.paths().len() == 2 {
            st.two_path += 1;
        }
        if op.paths().iter().any(|p| !p.starts_with('/')) {
            st.relative += 1;
        }
        match step_h(&mem, &mut model, &op, o, &mut handles) {
            Ok(i) => {
                if i.out_err {
                    st.failing_calls += 1;
                } else if op.is_mutator() && i.mutated {
                    st.ok_mutators += 1;
                }
                if i.resynced {
                    st.resyncs += 1;
                }
            },
            Err(mut f) => {
                f.detail = format!("step {} of {}: {}", st.ops.len(), specs.len(), f.detail);
                return (st, Err(f));
            },
        }
        if model.t.nodes.values().any(|n| n.kind() == Kind::Link) {
            st.links = true;
        }
    }
    (st, Ok(()))
}

/// Replay concrete ops (bypasses generators)
pub fn run_ops(ops: &[Op], o: &StepOpts) -> Result<(), Failure> {
    let mem = Memfs::new();
    let mut model = Model::fresh();
    let mut handles = Handles::default();
    crate::engine::mark("ops", "[");
    for (i, op) in ops.iter().enumerate() {
        crate::engine::mark_append(&format!("{},", serde_json::to_string(op).unwrap()));
        if let Err(mut f) = step_h(&mem, &mut model, op, o, &mut handles) {
            f.detail = format!("step {} of {}: {}", i + 1, ops.len(), f.detail);
            return Err(f);
        }
    }
    Ok(())
}

/// Greedy op deletion keeping the same signature
pub fn minimise(ops: &[Op], o: &StepOpts, sig: &str) -> Vec<Op> {
    let mut cur = ops.to_vec();
    let mut i = 0;
    while i < cur.len() {
        let mut cand = cur.clone();
        cand.remove(i);
        crate::engine::tick();
        match run_ops(&cand, o) {
            Err(f) if f.sig == sig => cur = cand,
            _ => i += 1,
        }
    }
    cur
}

pub fn ops_json(ops: &[Op]) -> Value {
    json!(ops)
}
