//! Finite call alphabet: every trait method over a set of path arguments
use crate::fstypes::*;

/// Every single-path call form for `p`
pub fn single_path_ops(p: &str, rich: bool) -> Vec<Op> {
    let s = || p.to_string();
    let mut v = vec![
        Op::Mkfile(s()),
        Op::MkfileM(s(), 0o600),
        Op::MkdirP(s()),
        Op::MkdirM(s(), 0o750),
        Op::WriteAll(s(), b"w1\n".to_vec()),
        Op::AppendAll(s(), b"a2".to_vec()),
        Op::WriteLines(s(), vec!["l1".into(), "l2".into()]),
        Op::AppendLine(s(), "al".into()),
        Op::AppendLines(s(), vec!["x".into(), "y".into()]),
        Op::WriteH(s(), vec![b"h1".to_vec(), b"h2".to_vec()], vec![true, false]),
        Op::AppendH(s(), vec![b"h3".to_vec()], vec![false]),
        Op::ReadAll(s()),
        Op::ReadLines(s()),
        Op::Read(s()),
        Op::Exists(s()),
        Op::IsDir(s()),
        Op::IsFile(s()),
        Op::IsSymlink(s()),
        Op::IsSymlinkDir(s()),
        Op::IsSymlinkFile(s()),
        Op::IsExec(s()),
        Op::IsReadonly(s()),
        Op::Mode(s()),
        Op::Uid(s()),
        Op::Gid(s()),
        Op::Owner(s()),
        Op::Entry(s()),
        Op::Abs(s()),
        Op::Paths(s()),
        Op::Dirs(s()),
        Op::Files(s()),
        Op::AllPaths(s()),
        Op::AllDirs(s()),
        Op::AllFiles(s()),
        Op::Entries(s()),
        Op::Chmod(s(), 0o700),
        Op::ChmodB(s(), ChmodOpt { sel: ChmodSel::Dirs(0o711), recursive: true, follow: false }),
        Op::ChmodB(s(), ChmodOpt { sel: ChmodSel::Files(0o640), recursive: true, follow: false }),
        Op::Chown(s(), 1001, 1002),
        Op::Remove(s()),
        Op::RemoveAll(s()),
        Op::SetCwd(s()),
        Op::Readlink(s()),
        Op::ReadlinkAbs(s()),
    ];
    if rich {
        v.extend(vec![
            Op::ChmodB(s(), ChmodOpt { sel: ChmodSel::All(0o755), recursive: false, follow: false }),
            Op::ChmodB(s(), ChmodOpt { sel: ChmodSel::All(0o500), recursive: true, follow: true }),
            Op::ChmodB(s(), ChmodOpt { sel: ChmodSel::Sym("f:a+x,d:go-w".into()), recursive: true, follow: false }),
            Op::ChmodB(s(), ChmodOpt { sel: ChmodSel::Sym("a:o+r,f:u-w".into()), recursive: true, follow: true }),
            Op::ChmodB(s(), ChmodOpt { sel: ChmodSel::Sym("a:go-rwx".into()), recursive: false, follow: true }),
            Op::ChmodB(s(), ChmodOpt { sel: ChmodSel::Files(0o604), recursive: true, follow: true }),
            Op::ChownB(s(), ChownOpt { uid: Some(7), gid: None, recursive: false, follow: false }),
            Op::ChownB(s(), ChownOpt { uid: None, gid: Some(8), recursive: true, follow: true }),
            Op::WriteAll(s(), vec![]),
            Op::AppendLine(s(), "".into()),
            Op::WriteLines(s(), vec![]),
            // a write handle that is opened and dropped untouched (truncation is the open's doing, not a write's),
            // and one that only ever sees an empty write before its flush
            Op::WriteH(s(), vec![], vec![]),
            Op::WriteH(s(), vec![vec![]], vec![true]),
            Op::AppendH(s(), vec![], vec![]),
            Op::AppendLines(s(), vec!["a".into(), "".into(), "b".into()]),
            Op::AppendLines(s(), vec!["".into(), "".into()]),
            // modes above the rwx triplets (sticky directory, set-uid file)
            Op::MkdirM(s(), 0o1770),
            Op::MkfileM(s(), 0o4750),
        ]);
    }
    v
}

pub fn two_path_ops(a: &str, b: &str, rich: bool) -> Vec<Op> {
    let (x, y) = (a.to_string(), b.to_string());
    let mut v = vec![
        Op::Copy(x.clone(), y.clone()),
        Op::MoveP(x.clone(), y.clone()),
        Op::Symlink(x.clone(), y.clone()),
    ];
    if rich {
        v.push(Op::CopyB(x.clone(), y.clone(), CopyOpt { mode: CopyMode::All(0o700), follow: false }));
        v.push(Op::CopyB(x.clone(), y.clone(), CopyOpt { mode: CopyMode::Dirs(0o711), follow: false }));
        v.push(Op::CopyB(x.clone(), y.clone(), CopyOpt { mode: CopyMode::Files(0o604), follow: false }));
        v.push(Op::CopyB(x.clone(), y.clone(), CopyOpt { mode: CopyMode::None, follow: true }));
        // the target spelled relative to the link's own directory (what a link usually stores): kind and target
        // are taken from the resolved path, not from the spelling
        if x.starts_with('/') || x.starts_with('@') {
            let r = crate::refpath::ref_relative(&y, &crate::refpath::parent(&x));
            v.push(Op::Symlink(x, if r.is_empty() { ".".to_string() } else { r }));
        }
    }
    v
}

pub fn nullary_ops() -> Vec<Op> {
    vec![Op::Cwd, Op::Root]
}
