//! Shared types of the model-based checks: abstract tree, operations, outcomes
use std::collections::BTreeMap;

use serde::{Deserialize, Serialize};

pub const DEF_UID: u32 = 1000;
pub const DEF_GID: u32 = 1000;
pub const DEF_FILE: u32 = 0o100644;
pub const DEF_DIR: u32 = 0o40755;
pub const DEF_LINK: u32 = 0o120777;

#[derive(Clone, Copy, PartialEq, Eq, Debug, Hash, Serialize, Deserialize)]
pub enum Kind {
    Dir,
    File,
    Link,
}

#[derive(Clone, PartialEq, Eq, Debug, Hash, Serialize, Deserialize)]
pub enum Node {
    Dir { mode: u32, uid: u32, gid: u32 },
    File { data: Vec<u8>, mode: u32, uid: u32, gid: u32 },
    /// `target` absolute; `to_dir` = recorded kind of the target; `rel` as stored/observed
    Link { target: String, rel: String, to_dir: bool, mode: u32, uid: u32, gid: u32 },
}

impl Node {
    pub fn kind(&self) -> Kind {
        match self {
            Node::Dir { .. } => Kind::Dir,
            Node::File { .. } => Kind::File,
            Node::Link { .. } => Kind::Link,
        }
    }
    pub fn mode(&self) -> u32 {
        match self {
            Node::Dir { mode, .. } | Node::File { mode, .. } | Node::Link { mode, .. } => *mode,
        }
    }
    pub fn set_mode(&mut self, m: u32) {
        match self {
            Node::Dir { mode, .. } | Node::File { mode, .. } | Node::Link { mode, .. } => *mode = m,
        }
    }
    pub fn owner(&self) -> (u32, u32) {
        match self {
            Node::Dir { uid, gid, .. } | Node::File { uid, gid, .. } | Node::Link { uid, gid, .. } => (*uid, *gid),
        }
    }
    pub fn set_owner(&mut self, u: Option<u32>, g: Option<u32>) {
        match self {
            Node::Dir { uid, gid, .. } | Node::File { uid, gid, .. } | Node::Link { uid, gid, .. } => {
                if let Some(u) = u {
                    *uid = u;
                }
                if let Some(g) = g {
                    *gid = g;
                }
            },
        }
    }
    pub fn type_bits(&self) -> u32 {
        match self {
            Node::Dir { .. } => 0o40000,
            Node::File { .. } => 0o100000,
            Node::Link { .. } => 0o120000,
        }
    }
    pub fn new_dir(mode: u32) -> Node {
        Node::Dir { mode, uid: DEF_UID, gid: DEF_GID }
    }
    pub fn new_file(data: Vec<u8>) -> Node {
        Node::File { data, mode: DEF_FILE, uid: DEF_UID, gid: DEF_GID }
    }
}

#[derive(Clone, PartialEq, Eq, Debug, Hash, Serialize, Deserialize)]
pub struct Tree {
    pub nodes: BTreeMap<String, Node>,
    pub cwd: String,
}

impl Tree {
    pub fn fresh() -> Tree {
        let mut nodes = BTreeMap::new();
        nodes.insert("/".to_string(), Node::new_dir(DEF_DIR));
        Tree { nodes, cwd: "/".to_string() }
    }
    pub fn kind(&self, p: &str) -> Option<Kind> {
        self.nodes.get(p).map(|n| n.kind())
    }
    pub fn children(&self, p: &str) -> Vec<String> {
        // direct children, name sorted
        let prefix = if p == "/" { "/".to_string() } else { format!("{}/", p) };
        let mut v: Vec<String> = self
            .nodes
            .range(prefix.clone()..)
            .take_while(|(k, _)| k.starts_with(&prefix))
            .filter(|(k, _)| k.len() > prefix.len() && !k[prefix.len()..].contains('/'))
            .map(|(k, _)| k.clone())
            .collect();
        v.sort_by(|a, b| crate::refpath::base(a).cmp(&crate::refpath::base(b)));
        v
    }
    /// p and everything below it
    pub fn subtree(&self, p: &str) -> Vec<String> {
        self.nodes.keys().filter(|k| crate::refpath::is_under(k, p)).cloned().collect()
    }
}

#[derive(Clone, PartialEq, Eq, Debug, Hash, Serialize, Deserialize)]
pub enum ChmodSel {
    All(u32),
    Dirs(u32),
    Files(u32),
    Sym(String),
    /// several options on one builder: octal modes for directories and/or files (0 = not given) and a symbolic
    /// expression, set before or after them; an octal mode has priority for its kind, the others get the expression
    Mix { dirs: u32, files: u32, sym: String, sym_first: bool },
}

#[derive(Clone, PartialEq, Eq, Debug, Hash, Serialize, Deserialize)]
pub struct ChmodOpt {
    pub sel: ChmodSel,
    pub recursive: bool,
    pub follow: bool,
}

#[derive(Clone, PartialEq, Eq, Debug, Hash, Serialize, Deserialize)]
pub struct ChownOpt {
    pub uid: Option<u32>,
    pub gid: Option<u32>,
    pub recursive: bool,
    pub follow: bool,
}

#[derive(Clone, Copy, PartialEq, Eq, Debug, Hash, Serialize, Deserialize)]
pub enum CopyMode {
    None,
    All(u32),
    Dirs(u32),
    Files(u32),
    /// two chmod options given one after the other on the same builder (kind 0 all, 1 dirs, 2 files):
    /// the later one replaces the earlier one completely
    Two(u8, u32, u8, u32),
}

impl CopyMode {
    /// the single option a sequence of options amounts to
    pub fn effective(self) -> CopyMode {
        match self {
            CopyMode::Two(_, _, k, m) => match k % 3 {
                0 => CopyMode::All(m),
                1 => CopyMode::Dirs(m),
                _ => CopyMode::Files(m),
            },
            x => x,
        }
    }
}

#[derive(Clone, PartialEq, Eq, Debug, Hash, Serialize, Deserialize)]
pub struct CopyOpt {
    pub mode: CopyMode,
    pub follow: bool,
}

/// One concrete call (paths are the literal argument strings)
#[derive(Clone, PartialEq, Eq, Debug, Hash, Serialize, Deserialize)]
pub enum Op {
    Mkfile(String),
    MkfileM(String, u32),
    MkdirP(String),
    MkdirM(String, u32),
    WriteAll(String, Vec<u8>),
    AppendAll(String, Vec<u8>),
    WriteLines(String, Vec<String>),
    AppendLine(String, String),
    AppendLines(String, Vec<String>),
    /// write handle: chunks written, flush after chunk i when flags[i]
    WriteH(String, Vec<Vec<u8>>, Vec<bool>),
    AppendH(String, Vec<Vec<u8>>, Vec<bool>),
    ReadAll(String),
    ReadLines(String),
    Read(String),
    Exists(String),
    IsDir(String),
    IsFile(String),
    IsSymlink(String),
    IsSymlinkDir(String),
    IsSymlinkFile(String),
    IsExec(String),
    IsReadonly(String),
    Mode(String),
    Uid(String),
    Gid(String),
    Owner(String),
    Entry(String),
    Abs(String),
    Paths(String),
    Dirs(String),
    Files(String),
    AllPaths(String),
    AllDirs(String),
    AllFiles(String),
    Entries(String),
    Chmod(String, u32),
    ChmodB(String, ChmodOpt),
    Chown(String, u32, u32),
    ChownB(String, ChownOpt),
    Copy(String, String),
    CopyB(String, String, CopyOpt),
    MoveP(String, String),
    Remove(String),
    RemoveAll(String),
    SetCwd(String),
    Cwd,
    Root,
    Symlink(String, String),
    Readlink(String),
    ReadlinkAbs(String),
    /// persistent handles (slot 0..3): open for write/append, write, flush, drop - each its own step
    HOpen(u8, bool, String),
    HWrite(u8, Vec<u8>),
    HFlush(u8),
    HDrop(u8),
    /// a builder call (chmod_b / chown_b / copy_b) whose exec() happens after the cwd was changed to the
    /// given directory: build, set_cwd, exec as one step
    Late(Box<Op>, String),
}

impl Op {
    pub fn name(&self) -> &'static str {
        match self {
            Op::Mkfile(..) => "mkfile",
            Op::MkfileM(..) => "mkfile_m",
            Op::MkdirP(..) => "mkdir_p",
            Op::MkdirM(..) => "mkdir_m",
            Op::WriteAll(..) => "write_all",
            Op::AppendAll(..) => "append_all",
            Op::WriteLines(..) => "write_lines",
            Op::AppendLine(..) => "append_line",
            Op::AppendLines(..) => "append_lines",
            Op::WriteH(..) => "write",
            Op::AppendH(..) => "append",
            Op::ReadAll(..) => "read_all",
            Op::ReadLines(..) => "read_lines",
            Op::Read(..) => "read",
            Op::Exists(..) => "exists",
            Op::IsDir(..) => "is_dir",
            Op::IsFile(..) => "is_file",
            Op::IsSymlink(..) => "is_symlink",
            Op::IsSymlinkDir(..) => "is_symlink_dir",
            Op::IsSymlinkFile(..) => "is_symlink_file",
            Op::IsExec(..) => "is_exec",
            Op::IsReadonly(..) => "is_readonly",
            Op::Mode(..) => "mode",
            Op::Uid(..) => "uid",
            Op::Gid(..) => "gid",
            Op::Owner(..) => "owner",
            Op::Entry(..) => "entry",
            Op::Abs(..) => "abs",
            Op::Paths(..) => "paths",
            Op::Dirs(..) => "dirs",
            Op::Files(..) => "files",
            Op::AllPaths(..) => "all_paths",
            Op::AllDirs(..) => "all_dirs",
            Op::AllFiles(..) => "all_files",
            Op::Entries(..) => "entries",
            Op::Chmod(..) => "chmod",
            Op::ChmodB(..) => "chmod_b",
            Op::Chown(..) => "chown",
            Op::ChownB(..) => "chown_b",
            Op::Copy(..) => "copy",
            Op::CopyB(..) => "copy_b",
            Op::MoveP(..) => "move_p",
            Op::Remove(..) => "remove",
            Op::RemoveAll(..) => "remove_all",
            Op::SetCwd(..) => "set_cwd",
            Op::Cwd => "cwd",
            Op::Root => "root",
            Op::Symlink(..) => "symlink",
            Op::Readlink(..) => "readlink",
            Op::ReadlinkAbs(..) => "readlink_abs",
            Op::HOpen(_, false, _) => "handle-open-write",
            Op::HOpen(_, true, _) => "handle-open-append",
            Op::HWrite(..) => "handle-write",
            Op::HFlush(..) => "handle-flush",
            Op::HDrop(..) => "handle-drop",
            Op::Late(inner, _) => match **inner {
                Op::ChmodB(..) => "chmod_b-exec-after-set_cwd",
                Op::ChownB(..) => "chown_b-exec-after-set_cwd",
                _ => "copy_b-exec-after-set_cwd",
            },
        }
    }
    /// literal path arguments in call order
    pub fn paths(&self) -> Vec<&str> {
        use Op::*;
        match self {
            Mkfile(p) | MkfileM(p, _) | MkdirP(p) | MkdirM(p, _) | WriteAll(p, _) | AppendAll(p, _) | WriteLines(p, _)
            | AppendLine(p, _) | AppendLines(p, _) | WriteH(p, _, _) | AppendH(p, _, _) | ReadAll(p) | ReadLines(p) | Read(p)
            | Exists(p) | IsDir(p) | IsFile(p) | IsSymlink(p) | IsSymlinkDir(p) | IsSymlinkFile(p) | IsExec(p) | IsReadonly(p)
            | Mode(p) | Uid(p) | Gid(p) | Owner(p) | Entry(p) | Abs(p) | Paths(p) | Dirs(p) | Files(p) | AllPaths(p) | AllDirs(p)
            | AllFiles(p) | Entries(p) | Chmod(p, _) | ChmodB(p, _) | Chown(p, _, _) | ChownB(p, _) | Remove(p) | RemoveAll(p)
            | SetCwd(p) | Readlink(p) | ReadlinkAbs(p) => vec![p.as_str()],
            Copy(a, b) | CopyB(a, b, _) | MoveP(a, b) | Symlink(a, b) => vec![a.as_str(), b.as_str()],
            HOpen(_, _, p) => vec![p.as_str()],
            Cwd | Root | HWrite(..) | HFlush(..) | HDrop(..) => vec![],
            Late(inner, _) => inner.paths(),
        }
    }
    pub fn is_mutator(&self) -> bool {
        use Op::*;
        matches!(
            self,
            Mkfile(..) | MkfileM(..) | MkdirP(..) | MkdirM(..) | WriteAll(..) | AppendAll(..) | WriteLines(..) | AppendLine(..)
                | AppendLines(..) | WriteH(..) | AppendH(..) | Chmod(..) | ChmodB(..) | Chown(..) | ChownB(..) | Copy(..)
                | CopyB(..) | MoveP(..) | Remove(..) | RemoveAll(..) | SetCwd(..) | Symlink(..) | HOpen(..) | HWrite(..) | HFlush(..) | HDrop(..) | Late(..)
        )
    }
}

#[derive(Clone, PartialEq, Eq, Debug, Hash, Serialize, Deserialize)]
pub struct EntryInfo {
    pub path: String,
    pub alt: String,
    pub rel: String,
    pub is_dir: bool,
    pub is_file: bool,
    pub is_symlink: bool,
    pub is_symlink_dir: bool,
    pub is_symlink_file: bool,
    pub is_exec: bool,
    pub is_readonly: bool,
    pub following: bool,
    pub mode: u32,
    pub file_name: Option<String>,
}

/// What a call produced
#[derive(Clone, PartialEq, Eq, Debug, Hash, Serialize, Deserialize)]
pub enum Out {
    Unit,
    Bool(bool),
    U32(u32),
    Pair(u32, u32),
    Path(String),
    Paths(Vec<String>),
    Str(String),
    Lines(Vec<String>),
    Bytes(Vec<u8>),
    Entry(EntryInfo),
    /// entries(): (path, is_err) items in yield order
    Seq(Vec<String>),
    Err(String),
    Panic(String),
}

impl Out {
    pub fn is_err(&self) -> bool {
        matches!(self, Out::Err(_))
    }
    pub fn class(&self) -> String {
        match self {
            Out::Err(k) => format!("Err({})", k),
            Out::Panic(_) => "Panic".into(),
            _ => "Ok".into(),
        }
    }
}
