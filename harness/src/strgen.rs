//! Bounded-exhaustive string enumeration and proptest string strategies over small alphabets
use proptest::prelude::*;

/// Number of strings of length 0..=max_len over an alphabet of k symbols
pub fn count_upto(k: u64, max_len: u32) -> u64 {
    let mut total = 0u64;
    let mut p = 1u64;
    for _ in 0..=max_len {
        total += p;
        p = p.saturating_mul(k);
    }
    total
}

/// The idx-th string (shortest first) over the alphabet
pub fn nth_string(alphabet: &[&str], mut idx: u64, out: &mut String) {
    out.clear();
    let k = alphabet.len() as u64;
    let mut len = 0u32;
    let mut block = 1u64;
    while idx >= block {
        idx -= block;
        block *= k;
        len += 1;
    }
    // idx is now the index inside the block of strings of length `len`
    let mut digits = [0usize; 32];
    for i in (0..len as usize).rev() {
        digits[i] = (idx % k) as usize;
        idx /= k;
    }
    for d in digits.iter().take(len as usize) {
        out.push_str(alphabet[*d]);
    }
}

pub fn all_strings(alphabet: &[&str], max_len: u32) -> Vec<String> {
    let n = count_upto(alphabet.len() as u64, max_len);
    let mut v = Vec::with_capacity(n as usize);
    let mut s = String::new();
    for i in 0..n {
        nth_string(alphabet, i, &mut s);
        v.push(s.clone());
    }
    v
}

/// Random string made of 0..max symbols drawn from the (weighted by repetition) alphabet
pub fn string_over(alphabet: &'static [&'static str], max: usize) -> impl Strategy<Value = String> {
    prop::collection::vec(prop::sample::select(alphabet), 0..=max).prop_map(|v| v.concat())
}

pub const ADVERSARIAL: &[&str] = &[
    "/", "/", "/", ".", ".", "..", "~", "$", ":", "{", "}", " ", "a", "b", "é", "日", "😀", "\n", "\0", "-", "_", "x.tar.gz",
    "//", "./", "../", "file://", "${", "$V", "İ", "\u{212a}", "A", "ß",
];

pub fn has_multibyte(s: &str) -> bool {
    !s.is_ascii()
}
