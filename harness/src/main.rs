//! rvh — verification harness for phR0ze/rivia (property-based testing / fuzzing family)
//!
//!   rvh run <Cxx> <quick|thorough>      run a property check (seed from VERIF_SEED)
//!   rvh replay <file>                   re-run one saved case, bypassing all generators
//!   rvh envprobe                        (internal) evaluate requests from stdin in this process' environment

use rvh::engine::*;
use rvh::{envprobe, props};
use serde_json::Value;

fn seed_from_env() -> u64 {
    std::env::var("VERIF_SEED").ok().and_then(|s| s.trim().parse::<i128>().ok()).map(|v| v as u64).unwrap_or(0)
}

/// Run all committed regression replays of the property first
fn run_regressions(c: &Ctx) {
    for (path, v) in replay_dir(c) {
        let kind = v["kind"].as_str().unwrap_or("").to_string();
        let case = v["case"].clone();
        worker_enter();
        mark(&kind, &case.to_string());
        let res = props::replay(&c.prop, &kind, &case);
        worker_exit();
        match res {
            Some(r) => {
                c.eval(1);
                c.class("regression-replays");
                c.judge(&kind, &case, r);
            },
            None => c.inconclusive(&format!("replay file {} has unknown kind {:?}", path.display(), kind)),
        }
    }
}

fn main() {
    let args: Vec<String> = std::env::args().collect();
    if args.len() < 2 {
        eprintln!("usage: rvh run <Cxx> <quick|thorough> | rvh replay <file> | rvh envprobe");
        std::process::exit(2);
    }
    match args[1].as_str() {
        "run" => {
            let prop = args.get(2).cloned().unwrap_or_default();
            let tier = match args.get(3).map(|s| s.as_str()) {
                Some("thorough") => Tier::Thorough,
                _ => Tier::Quick,
            };
            install_panic_hook();
            let c = Ctx::init(&prop, tier, seed_from_env(), false);
            start_watchdog();
            run_regressions(&c);
            if !props::run(&c) {
                eprintln!("rvh: unknown property {}", prop);
                std::process::exit(2);
            }
            std::process::exit(c.finish());
        },
        "envprobe" => {
            envprobe::main();
        },
        "c02-unpriv" => {
            let tier = match args.get(2).map(|s| s.as_str()) {
                Some("thorough") => Tier::Thorough,
                _ => Tier::Quick,
            };
            install_panic_hook();
            props::c02::unprivileged_worker(tier, args.get(3).and_then(|s| s.parse().ok()).unwrap_or(0));
        },
        "replay" => {
            let file = args.get(2).cloned().unwrap_or_default();
            let v: Value = match std::fs::read_to_string(&file).ok().and_then(|s| serde_json::from_str(&s).ok()) {
                Some(v) => v,
                None => {
                    eprintln!("rvh: cannot read replay file {}", file);
                    std::process::exit(2);
                },
            };
            let prop = v["property"].as_str().unwrap_or("").to_string();
            let kind = v["kind"].as_str().unwrap_or("").to_string();
            install_panic_hook();
            let c = Ctx::init(&prop, Tier::Quick, v["seed"].as_u64().unwrap_or(0), true);
            start_watchdog();
            worker_enter();
            mark(&kind, &v["case"].to_string());
            match props::replay(&prop, &kind, &v["case"]) {
                Some(r) => {
                    c.eval(1);
                    if c.judge(&kind, &v["case"], r) {
                        println!("replay: case passes (or is a listed known finding)");
                    }
                },
                None => {
                    eprintln!("rvh: unknown property/kind {}/{}", prop, kind);
                    std::process::exit(2);
                },
            }
            worker_exit();
            std::process::exit(c.finish());
        },
        _ => {
            eprintln!("rvh: unknown command {}", args[1]);
            std::process::exit(2);
        },
    }
}
