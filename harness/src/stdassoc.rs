//! `StdfsAssoc`: a VirtualFileSystem whose every method is the plain delegation to the associated function
//! `Stdfs::<name>` of the same name. It is the reference for C13's "impl VirtualFileSystem for Stdfs" arm: the
//! trait implementation on the `Stdfs` value must be indistinguishable from calling the associated functions.
use std::{
    io::Write,
    path::{Path, PathBuf},
};

use rivia::prelude::*;
use rivia::sys::{Chmod, Chown, Copier, Entries, ReadSeek};

#[derive(Debug, Clone, Default)]
pub struct StdfsAssoc;

impl VirtualFileSystem for StdfsAssoc {
    fn abs<T: AsRef<Path>>(&self, path: T) -> RvResult<PathBuf> {
        Stdfs::abs(path)
    }
    fn all_dirs<T: AsRef<Path>>(&self, path: T) -> RvResult<Vec<PathBuf>> {
        Stdfs::all_dirs(path)
    }
    fn all_files<T: AsRef<Path>>(&self, path: T) -> RvResult<Vec<PathBuf>> {
        Stdfs::all_files(path)
    }
    fn all_paths<T: AsRef<Path>>(&self, path: T) -> RvResult<Vec<PathBuf>> {
        Stdfs::all_paths(path)
    }
    fn append<T: AsRef<Path>>(&self, path: T) -> RvResult<Box<dyn Write>> {
        Stdfs::append(path)
    }
    fn append_all<T: AsRef<Path>, U: AsRef<[u8]>>(&self, path: T, data: U) -> RvResult<()> {
        Stdfs::append_all(path, data)
    }
    fn append_line<T: AsRef<Path>, U: AsRef<str>>(&self, path: T, line: U) -> RvResult<()> {
        Stdfs::append_line(path, line)
    }
    fn append_lines<T: AsRef<Path>, U: AsRef<str>>(&self, path: T, lines: &[U]) -> RvResult<()> {
        Stdfs::append_lines(path, lines)
    }
    fn chmod<T: AsRef<Path>>(&self, path: T, mode: u32) -> RvResult<()> {
        Stdfs::chmod(path, mode)
    }
    fn chmod_b<T: AsRef<Path>>(&self, path: T) -> RvResult<Chmod> {
        Stdfs::chmod_b(path)
    }
    fn chown<T: AsRef<Path>>(&self, path: T, uid: u32, gid: u32) -> RvResult<()> {
        Stdfs::chown(path, uid, gid)
    }
    fn chown_b<T: AsRef<Path>>(&self, path: T) -> RvResult<Chown> {
        Stdfs::chown_b(path)
    }
    fn config_dir<T: AsRef<str>>(&self, config: T) -> Option<PathBuf> {
        // (the inherent Stdfs::config_dir is private: only the trait method can be called from outside)
        Stdfs::new().config_dir(config)
    }
    fn copy<T: AsRef<Path>, U: AsRef<Path>>(&self, src: T, dst: U) -> RvResult<()> {
        Stdfs::copy(src, dst)
    }
    fn copy_b<T: AsRef<Path>, U: AsRef<Path>>(&self, src: T, dst: U) -> RvResult<Copier> {
        Stdfs::copy_b(src, dst)
    }
    fn cwd(&self) -> RvResult<PathBuf> {
        Stdfs::cwd()
    }
    fn dirs<T: AsRef<Path>>(&self, path: T) -> RvResult<Vec<PathBuf>> {
        Stdfs::dirs(path)
    }
    fn entries<T: AsRef<Path>>(&self, path: T) -> RvResult<Entries> {
        Stdfs::entries(path)
    }
    fn entry<T: AsRef<Path>>(&self, path: T) -> RvResult<VfsEntry> {
        Stdfs::entry(path)
    }
    fn exists<T: AsRef<Path>>(&self, path: T) -> bool {
        Stdfs::exists(path)
    }
    fn files<T: AsRef<Path>>(&self, path: T) -> RvResult<Vec<PathBuf>> {
        Stdfs::files(path)
    }
    fn gid<T: AsRef<Path>>(&self, path: T) -> RvResult<u32> {
        Stdfs::gid(path)
    }
    fn is_exec<T: AsRef<Path>>(&self, path: T) -> bool {
        Stdfs::is_exec(path)
    }
    fn is_dir<T: AsRef<Path>>(&self, path: T) -> bool {
        Stdfs::is_dir(path)
    }
    fn is_file<T: AsRef<Path>>(&self, path: T) -> bool {
        Stdfs::is_file(path)
    }
    fn is_readonly<T: AsRef<Path>>(&self, path: T) -> bool {
        Stdfs::is_readonly(path)
    }
    fn is_symlink<T: AsRef<Path>>(&self, path: T) -> bool {
        Stdfs::is_symlink(path)
    }
    fn is_symlink_dir<T: AsRef<Path>>(&self, path: T) -> bool {
        Stdfs::is_symlink_dir(path)
    }
    fn is_symlink_file<T: AsRef<Path>>(&self, path: T) -> bool {
        Stdfs::is_symlink_file(path)
    }
    fn mkdir_m<T: AsRef<Path>>(&self, path: T, mode: u32) -> RvResult<PathBuf> {
        Stdfs::mkdir_m(path, mode)
    }
    fn mkdir_p<T: AsRef<Path>>(&self, path: T) -> RvResult<PathBuf> {
        Stdfs::mkdir_p(path)
    }
    fn mkfile<T: AsRef<Path>>(&self, path: T) -> RvResult<PathBuf> {
        Stdfs::mkfile(path)
    }
    fn mkfile_m<T: AsRef<Path>>(&self, path: T, mode: u32) -> RvResult<PathBuf> {
        Stdfs::mkfile_m(path, mode)
    }
    fn mode<T: AsRef<Path>>(&self, path: T) -> RvResult<u32> {
        Stdfs::mode(path)
    }
    fn move_p<T: AsRef<Path>, U: AsRef<Path>>(&self, src: T, dst: U) -> RvResult<()> {
        Stdfs::move_p(src, dst)
    }
    fn owner<T: AsRef<Path>>(&self, path: T) -> RvResult<(u32, u32)> {
        Stdfs::owner(path)
    }
    fn paths<T: AsRef<Path>>(&self, path: T) -> RvResult<Vec<PathBuf>> {
        Stdfs::paths(path)
    }
    fn read<T: AsRef<Path>>(&self, path: T) -> RvResult<Box<dyn ReadSeek>> {
        Stdfs::read(path)
    }
    fn read_all<T: AsRef<Path>>(&self, path: T) -> RvResult<String> {
        Stdfs::read_all(path)
    }
    fn read_lines<T: AsRef<Path>>(&self, path: T) -> RvResult<Vec<String>> {
        Stdfs::read_lines(path)
    }
    fn readlink<T: AsRef<Path>>(&self, link: T) -> RvResult<PathBuf> {
        Stdfs::readlink(link)
    }
    fn readlink_abs<T: AsRef<Path>>(&self, link: T) -> RvResult<PathBuf> {
        Stdfs::readlink_abs(link)
    }
    fn remove<T: AsRef<Path>>(&self, path: T) -> RvResult<()> {
        Stdfs::remove(path)
    }
    fn remove_all<T: AsRef<Path>>(&self, path: T) -> RvResult<()> {
        Stdfs::remove_all(path)
    }
    fn root(&self) -> PathBuf {
        Stdfs::root()
    }
    fn set_cwd<T: AsRef<Path>>(&self, path: T) -> RvResult<PathBuf> {
        Stdfs::set_cwd(path)
    }
    fn symlink<T: AsRef<Path>, U: AsRef<Path>>(&self, link: T, target: U) -> RvResult<PathBuf> {
        Stdfs::symlink(link, target)
    }
    fn uid<T: AsRef<Path>>(&self, path: T) -> RvResult<u32> {
        Stdfs::uid(path)
    }
    fn write<T: AsRef<Path>>(&self, path: T) -> RvResult<Box<dyn Write>> {
        Stdfs::write(path)
    }
    fn write_all<T: AsRef<Path>, U: AsRef<[u8]>>(&self, path: T, data: U) -> RvResult<()> {
        Stdfs::write_all(path, data)
    }
    fn write_lines<T: AsRef<Path>, U: AsRef<str>>(&self, path: T, lines: &[U]) -> RvResult<()> {
        Stdfs::write_lines(path, lines)
    }
    fn upcast(self) -> Vfs {
        Vfs::Stdfs(Stdfs::new())
    }
}
