//! Parent side of `rvh envprobe`
use std::{
    collections::BTreeMap,
    io::Write,
    process::{Command, Stdio},
};

use serde_json::Value;

/// Run one child with exactly `env` and the given requests; returns one response per request
pub fn probe(env: &BTreeMap<String, String>, requests: &[Value]) -> Result<Vec<Value>, String> {
    let exe = std::env::current_exe().map_err(|e| e.to_string())?;
    let mut cmd = Command::new(exe);
    cmd.arg("envprobe").env_clear();
    for (k, v) in env {
        // "\u{1}bytes:<hex>" stands for a value that is not valid UTF-8
        if let Some(hex) = v.strip_prefix("\u{1}bytes:") {
            use std::os::unix::ffi::OsStringExt;
            let bytes: Vec<u8> = (0..hex.len() / 2).filter_map(|i| u8::from_str_radix(&hex[2 * i..2 * i + 2], 16).ok()).collect();
            cmd.env(k, std::ffi::OsString::from_vec(bytes));
        } else {
            cmd.env(k, v);
        }
    }
    cmd.current_dir("/").stdin(Stdio::piped()).stdout(Stdio::piped()).stderr(Stdio::null());
    let mut child = cmd.spawn().map_err(|e| format!("spawn: {}", e))?;
    let mut input = String::new();
    for r in requests {
        input.push_str(&r.to_string());
        input.push('\n');
    }
    // write from a thread so large batches cannot dead-lock on full pipes
    let mut stdin = child.stdin.take().unwrap();
    let writer = std::thread::spawn(move || {
        let _ = stdin.write_all(input.as_bytes());
    });
    let out = child.wait_with_output().map_err(|e| format!("wait: {}", e))?;
    let _ = writer.join();
    if !out.status.success() {
        return Err(format!("child exited with {:?}", out.status));
    }
    let text = String::from_utf8_lossy(&out.stdout);
    let resp: Vec<Value> = text.lines().filter(|l| !l.trim().is_empty()).filter_map(|l| serde_json::from_str(l).ok()).collect();
    if resp.len() != requests.len() {
        return Err(format!("child answered {} of {} requests", resp.len(), requests.len()));
    }
    Ok(resp)
}
