//! Observation helpers: error kinds of rivia errors as stable strings
use rivia::prelude::*;

/// Variant name of an error, without payload (messages and payload spellings are never compared)
pub fn errkind(e: &RvError) -> String {
    match e {
        RvError::Path(p) => format!(
            "Path::{}",
            match p {
                PathError::DirContainsFiles(_) => "DirContainsFiles",
                PathError::DirDoesNotMatchParent(_) => "DirDoesNotMatchParent",
                PathError::DoesNotExist(_) => "DoesNotExist",
                PathError::Empty => "Empty",
                PathError::ExistsAlready(_) => "ExistsAlready",
                PathError::ExtensionNotFound(_) => "ExtensionNotFound",
                PathError::FailedToString(_) => "FailedToString",
                PathError::FileNameNotFound(_) => "FileNameNotFound",
                PathError::InvalidExpansion(_) => "InvalidExpansion",
                PathError::IsNotDir(_) => "IsNotDir",
                PathError::IsNotExec(_) => "IsNotExec",
                PathError::IsNotFile(_) => "IsNotFile",
                PathError::IsNotSymlink(_) => "IsNotSymlink",
                PathError::IsNotFileOrSymlinkToFile(_) => "IsNotFileOrSymlinkToFile",
                PathError::LinkLooping(_) => "LinkLooping",
                PathError::MultipleHomeSymbols(_) => "MultipleHomeSymbols",
                PathError::ParentNotFound(_) => "ParentNotFound",
            }
        ),
        RvError::Io(e) => format!("Io::{:?}", e.kind()),
        RvError::Var(_) => "Var".to_string(),
        RvError::Vfs(v) => format!(
            "Vfs::{}",
            match v {
                VfsError::InvalidChmod(_) => "InvalidChmod",
                VfsError::InvalidChmodGroup(_) => "InvalidChmodGroup",
                VfsError::InvalidChmodOp(_) => "InvalidChmodOp",
                VfsError::InvalidChmodPermissions(_) => "InvalidChmodPermissions",
                VfsError::InvalidChmodTarget(_) => "InvalidChmodTarget",
                VfsError::Unavailable => "Unavailable",
                VfsError::WrongProvider => "WrongProvider",
            }
        ),
        RvError::Iter(_) => "Iter".to_string(),
        RvError::Nix(e) => format!("Nix::{:?}", e),
        RvError::Core(_) => "Core".to_string(),
        RvError::File(_) => "File".to_string(),
        RvError::String(_) => "String".to_string(),
        RvError::SystemTime(_) => "SystemTime".to_string(),
        RvError::User(_) => "User".to_string(),
        RvError::Utf8(_) => "Utf8".to_string(),
    }
}
