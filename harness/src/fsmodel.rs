//! Reference tree filesystem written from the trait documentation (DESIGN.md appendix A).
//! Independent of rivia: plain BTreeMap tree + lexical path resolution.
use std::collections::BTreeMap;
use std::io::BufRead;

use crate::{fstypes::*, refpath::*};

#[derive(Clone, Debug, PartialEq, Eq)]
pub struct LinkMeta {
    /// kind of the target when the link was created (None = missing); outer None = unknown (resynced)
    pub created_kind: Option<Option<Kind>>,
    pub moved: bool,
}

#[derive(Clone, Debug, PartialEq, Eq)]
pub struct Model {
    pub t: Tree,
    pub meta: BTreeMap<String, LinkMeta>,
}

/// Pattern an observed outcome must match
#[derive(Clone, Debug)]
pub enum Pat {
    Is(Out),
    ErrKinds(Vec<&'static str>),
    AnyErr,
    AnyOk,
    Any,
    /// exact name-sorted listing of direct children
    /// recursive listing: multiset + sibling name order + parent before contents
    Listing(Vec<String>),
    /// traversal without ordering among siblings: multiset + parent before contents
    Trav(Vec<String>),
}

#[derive(Clone, Debug)]
pub struct Alt {
    pub out: Pat,
    /// None = tree unchanged
    pub post: Option<Model>,
    /// state after the call is not specified: adopt the implementation's (if well-formed)
    pub unspec: bool,
}

pub type Expect = Vec<Alt>;

fn same(out: Pat) -> Alt {
    Alt { out, post: None, unspec: false }
}
fn then(out: Pat, m: Model) -> Alt {
    Alt { out, post: Some(m), unspec: false }
}
fn unspec() -> Alt {
    Alt { out: Pat::Any, post: None, unspec: true }
}
fn err(k: &'static str) -> Alt {
    same(Pat::ErrKinds(vec![k]))
}

/// link text for a target seen from the link's directory ("." for the directory itself)
pub fn rel_text(target: &str, dir: &str) -> String {
    let r = ref_relative(target, dir);
    if r.is_empty() {
        ".".to_string()
    } else {
        r
    }
}

pub fn listing_ok(want: &[String], got: &[String], sorted: bool) -> bool {
    let mut a = want.to_vec();
    let mut b = got.to_vec();
    a.sort();
    b.sort();
    if a != b {
        return false;
    }
    let pos: BTreeMap<&String, usize> = got.iter().enumerate().map(|(i, p)| (p, i)).collect();
    for (i, p) in got.iter().enumerate() {
        let par = parent(p);
        if let Some(j) = pos.get(&par) {
            if *j > i {
                return false; // parent after its contents
            }
        }
        if sorted {
            for q in &got[i + 1..] {
                if parent(q) == par && base(q) < base(p) {
                    return false; // siblings out of name order
                }
            }
        }
    }
    true
}

pub fn pat_matches(p: &Pat, o: &Out) -> bool {
    match (p, o) {
        (_, Out::Panic(_)) => false,
        (Pat::Any, _) => true,
        (Pat::AnyErr, Out::Err(_)) => true,
        (Pat::AnyOk, x) => !x.is_err(),
        (Pat::ErrKinds(ks), Out::Err(k)) => ks.iter().any(|x| x == k),
        (Pat::Is(a), b) => a == b,
        (Pat::Listing(w), Out::Paths(g)) => listing_ok(w, g, true),
        (Pat::Trav(w), Out::Seq(g)) => listing_ok(w, g, false),
        _ => false,
    }
}

#[derive(Clone, Debug)]
pub struct Visit {
    /// path as yielded (the target's path for a followed link)
    pub path: String,
    /// the link's own path when this visit came through a followed link
    pub via: Option<String>,
    pub dirish: bool,
    pub fileish: bool,
    pub is_link: bool,
    pub depth: usize,
}

#[derive(Debug, Clone, PartialEq)]
pub enum TravErr {
    Loop,
    /// a followed link whose recorded kind is directory points at something that is not one now
    Stale,
}

/// Symbolic chmod reference interpreter: documented grammar `[dfa]:[ugoa]+[-+=][rwx]+(,...)*`.
/// Returns Ok(new mode) or Err(index of the malformed clause)
pub fn chmod_sym(mode: u32, kind: Kind, expr: &str) -> Result<u32, usize> {
    let mut m = mode;
    if expr.is_empty() {
        return Err(0);
    }
    for (i, clause) in expr.split(',').enumerate() {
        let cs: Vec<char> = clause.chars().collect();
        if cs.len() < 5 || cs[1] != ':' || !matches!(cs[0], 'd' | 'f' | 'a') {
            return Err(i);
        }
        let mut j = 2;
        let mut group = 0u32;
        while j < cs.len() && matches!(cs[j], 'u' | 'g' | 'o' | 'a') {
            group |= match cs[j] {
                'u' => 0o700,
                'g' => 0o070,
                'o' => 0o007,
                _ => 0o777,
            };
            j += 1;
        }
        if group == 0 || j >= cs.len() || !matches!(cs[j], '-' | '+' | '=') {
            return Err(i);
        }
        let op = cs[j];
        j += 1;
        let mut perm = 0u32;
        if j >= cs.len() {
            return Err(i);
        }
        while j < cs.len() {
            perm |= match cs[j] {
                'r' => 0o444,
                'w' => 0o222,
                'x' => 0o111,
                _ => return Err(i),
            };
            j += 1;
        }
        let applies = match (cs[0], kind) {
            (_, Kind::Link) => false,
            ('d', Kind::Dir) | ('f', Kind::File) | ('a', _) => true,
            _ => false,
        };
        if applies {
            let bits = group & perm;
            m = match op {
                '+' => m | bits,
                '-' => m & !bits,
                _ => (m & !group) | bits,
            };
        }
    }
    Ok(m)
}

impl Model {
    pub fn fresh() -> Model {
        Model { t: Tree::fresh(), meta: BTreeMap::new() }
    }

    /// Adopt an observed tree as the new model state (after an unspecified step)
    pub fn adopt(t: Tree) -> Model {
        let meta = t
            .nodes
            .iter()
            .filter(|(_, n)| n.kind() == Kind::Link)
            .map(|(k, _)| (k.clone(), LinkMeta { created_kind: None, moved: true }))
            .collect();
        Model { t, meta }
    }

    pub fn kind(&self, p: &str) -> Option<Kind> {
        self.t.kind(p)
    }

    fn res(&self, p: &str) -> Result<String, Alt> {
        match abs_plain(&self.t.cwd, p) {
            Ok(x) => Ok(x),
            Err(AbsErr::Empty) => Err(err("Path::Empty")),
            Err(AbsErr::AboveRoot) => Err(err("Path::ParentNotFound")),
            Err(_) => Err(same(Pat::AnyErr)),
        }
    }

    /// does the literal argument pass through a link as an intermediate component?
    pub fn through_link(&self, p: &str) -> bool {
        match abs_plain(&self.t.cwd, p) {
            Ok(a) => {
                let mut cur = parent(&a);
                loop {
                    if self.kind(&cur) == Some(Kind::Link) {
                        return true;
                    }
                    if cur == "/" || cur.is_empty() {
                        return false;
                    }
                    cur = parent(&cur);
                }
            },
            Err(_) => false,
        }
    }

    /// is the recorded directory/file flag of this link still what the target is?
    pub fn link_fresh(&self, link: &str) -> bool {
        match (self.t.nodes.get(link), self.meta.get(link)) {
            (Some(Node::Link { target, .. }), Some(LinkMeta { created_kind: Some(k), .. })) => self.effective_kind(target) == *k,
            _ => false,
        }
    }

    /// kind of a path where a link reports its recorded kind (what Entry::is_dir/is_file mean)
    fn effective_kind(&self, p: &str) -> Option<Kind> {
        match self.t.nodes.get(p) {
            Some(Node::Link { to_dir, .. }) => Some(if *to_dir { Kind::Dir } else { Kind::File }),
            Some(n) => Some(n.kind()),
            None => None,
        }
    }

    fn dirish(&self, p: &str) -> bool {
        self.effective_kind(p) == Some(Kind::Dir)
    }

    /// Reference traversal (entries() semantics): pre-order, siblings in name order
    pub fn traverse(&self, root: &str, follow: bool, max_depth: usize) -> Result<Vec<Visit>, TravErr> {
        let mut out = vec![];
        let mut chain: Vec<String> = vec![];
        self.trav_rec(root, follow, max_depth, 0, &mut chain, &mut out)?;
        Ok(out)
    }

    fn trav_rec(&self, p: &str, follow: bool, max_depth: usize, depth: usize, chain: &mut Vec<String>, out: &mut Vec<Visit>) -> Result<(), TravErr> {
        let n = match self.t.nodes.get(p) {
            Some(n) => n,
            None => return Ok(()),
        };
        let is_link = n.kind() == Kind::Link;
        let (ypath, via) = match n {
            Node::Link { target, .. } if follow => (target.clone(), Some(p.to_string())),
            _ => (p.to_string(), None),
        };
        let dirish = self.dirish(p);
        out.push(Visit { path: ypath.clone(), via: via.clone(), dirish, fileish: !dirish, is_link, depth });
        if dirish && (!is_link || follow) {
            if is_link && chain.iter().any(|c| *c == ypath) {
                return Err(TravErr::Loop);
            }
            if depth < max_depth {
                if is_link && self.kind(&ypath) != Some(Kind::Dir) {
                    // followed link to something that is not (any more) a real directory
                    if self.kind(&ypath) == Some(Kind::Link) {
                        // link to link: the inner link is iterated as a directory by its own path
                        return Err(TravErr::Stale);
                    }
                    return Err(TravErr::Stale);
                }
                chain.push(ypath.clone());
                for c in self.t.children(&ypath) {
                    self.trav_rec(&c, follow, max_depth, depth + 1, chain, out)?;
                }
                chain.pop();
            }
        }
        Ok(())
    }

    fn create_check(&self, p: &str) -> Result<String, Alt> {
        // shared validation of mkfile / write / append: returns the absolute path
        let a = self.res(p)?;
        if a == "/" {
            return Err(same(Pat::AnyErr)); // the root is a directory
        }
        let par = parent(&a);
        match self.kind(&par) {
            None => return Err(err("Path::DoesNotExist")),
            Some(Kind::Dir) => {},
            Some(_) => return Err(err("Path::IsNotDir")),
        }
        match self.kind(&a) {
            None | Some(Kind::File) => Ok(a),
            Some(_) => Err(err("Path::IsNotFile")),
        }
    }

    fn with_file(&self, a: &str, f: impl FnOnce(&mut Vec<u8>)) -> Model {
        let mut m = self.clone();
        let n = m.t.nodes.entry(a.to_string()).or_insert_with(|| Node::new_file(vec![]));
        if let Node::File { data, .. } = n {
            f(data);
        }
        m
    }

    fn write(&self, p: &str, d: &[u8], append: bool) -> Expect {
        match self.create_check(p) {
            Err(a) => vec![a],
            Ok(a) => vec![then(
                Pat::Is(Out::Unit),
                self.with_file(&a, |data| {
                    if !append {
                        data.clear();
                    }
                    data.extend_from_slice(d);
                }),
            )],
        }
    }

    fn mkdir(&self, p: &str, mode: u32) -> Expect {
        let a = match self.res(p) {
            Ok(a) => a,
            Err(x) => return vec![x],
        };
        let mut m = self.clone();
        let mut cur = String::new();
        for comp in a.split('/').filter(|c| !c.is_empty()) {
            cur = format!("{}/{}", cur, comp);
            match m.kind(&cur) {
                Some(Kind::Dir) => {},
                Some(_) => return vec![err("Path::IsNotDir")],
                None => {
                    m.t.nodes.insert(cur.clone(), Node::new_dir(mode));
                },
            }
        }
        vec![then(Pat::Is(Out::Path(a)), m)]
    }

    fn lines_payload(lines: &[String]) -> (bool, Vec<u8>) {
        // (is the joined text empty i.e. the documented-ambiguous case, per-line payload)
        let joined = lines.join("\n");
        let payload: String = lines.iter().map(|l| format!("{}\n", l)).collect();
        (joined.is_empty(), payload.into_bytes())
    }

    fn lines_op(&self, p: &str, lines: &[String], append: bool) -> Expect {
        let (ambiguous, payload) = Self::lines_payload(lines);
        let mut e = self.write(p, &payload, append);
        if ambiguous {
            // deliberately skipped by both backends; statement excludes empty lines: no-op admitted
            e.push(same(Pat::Is(Out::Unit)));
        }
        e
    }

    fn read_errs(&self, p: &str) -> Result<(String, &Vec<u8>), Alt> {
        let a = self.res(p)?;
        match self.t.nodes.get(&a) {
            None => Err(err("Path::DoesNotExist")),
            Some(Node::Dir { .. }) => Err(err("Path::IsNotFile")),
            Some(Node::Link { .. }) => Err(same(Pat::ErrKinds(vec!["Path::IsNotFile", "Path::DoesNotExist"]))),
            Some(Node::File { data, .. }) => Ok((a, data)),
        }
    }

    fn query_node(&self, p: &str) -> Option<(String, &Node)> {
        abs_plain(&self.t.cwd, p).ok().and_then(|a| self.t.nodes.get(&a).map(|n| (a.clone(), n)))
    }

    fn links_fresh_under(&self, paths: &[String]) -> bool {
        paths.iter().all(|p| self.kind(p) != Some(Kind::Link) || self.link_fresh(p))
    }

    fn listing(&self, p: &str, recursive: bool, want: Option<Kind>) -> Expect {
        let a = match self.res(p) {
            Ok(a) => a,
            Err(_) => return vec![same(Pat::AnyErr)],
        };
        if self.kind(&a) != Some(Kind::Dir) {
            return vec![same(Pat::AnyErr)];
        }
        let all: Vec<String> = if recursive {
            match self.traverse(&a, false, usize::MAX) {
                Ok(v) => v.into_iter().skip(1).map(|v| v.path).collect(),
                Err(_) => return vec![same(Pat::Any)],
            }
        } else {
            self.t.children(&a)
        };
        if want.is_some() && !self.links_fresh_under(&all) {
            return vec![same(Pat::AnyOk)];
        }
        let sel: Vec<String> = all.into_iter().filter(|x| want.is_none() || self.effective_kind(x) == want).collect();
        if recursive {
            vec![same(Pat::Listing(sel))]
        } else {
            vec![same(Pat::Is(Out::Paths(sel)))]
        }
    }

    fn chmod(&self, p: &str, o: &ChmodOpt) -> Expect {
        let a = match self.res(p) {
            Ok(a) => a,
            Err(x) => return vec![x],
        };
        if self.kind(&a).is_none() {
            return vec![err("Path::DoesNotExist")];
        }
        let zero = matches!(o.sel, ChmodSel::All(0) | ChmodSel::Dirs(0) | ChmodSel::Files(0));
        if zero {
            return vec![unspec()];
        }
        let visits = match self.traverse(&a, o.follow, if o.recursive { usize::MAX } else { 0 }) {
            Ok(v) => v,
            Err(_) => return vec![unspec()],
        };
        let mut m = self.clone();
        for v in &visits {
            if v.is_link && !o.follow {
                continue; // a symlink itself is never altered
            }
            if v.is_link && (!self.link_fresh(v.via.as_ref().unwrap()) || matches!(o.sel, ChmodSel::Sym(_) | ChmodSel::Mix { .. })) {
                // symbolic expression through a followed link: which mode it starts from is not documented
                return vec![unspec()];
            }
            let target = &v.path;
            let node = match m.t.nodes.get_mut(target) {
                Some(n) => n,
                None => continue, // dangling link followed: nothing to change
            };
            let k = node.kind();
            if k == Kind::Link {
                return vec![unspec()]; // link to link followed: not specified
            }
            let cur = node.mode();
            let new = match &o.sel {
                ChmodSel::All(x) => Some(node.type_bits() | (x & 0o7777)),
                ChmodSel::Dirs(x) if k == Kind::Dir => Some(node.type_bits() | (x & 0o7777)),
                ChmodSel::Files(x) if k == Kind::File => Some(node.type_bits() | (x & 0o7777)),
                ChmodSel::Sym(s) => match chmod_sym(cur, k, s) {
                    Ok(x) => Some(x),
                    Err(0) => return vec![same(Pat::AnyErr)],
                    Err(_) => return vec![Alt { out: Pat::AnyErr, post: None, unspec: true }],
                },
                // every option given to the builder counts: the octal mode for the kinds that got one ("octal mode
                // takes priority if given"), the symbolic expression for the rest - in whatever order they were set
                ChmodSel::Mix { dirs, .. } if k == Kind::Dir && *dirs != 0 => Some(node.type_bits() | (dirs & 0o7777)),
                ChmodSel::Mix { files, .. } if k == Kind::File && *files != 0 => Some(node.type_bits() | (files & 0o7777)),
                ChmodSel::Mix { sym, .. } if !sym.is_empty() => match chmod_sym(cur, k, sym) {
                    Ok(x) => Some(x),
                    Err(0) => return vec![same(Pat::AnyErr)],
                    Err(_) => return vec![Alt { out: Pat::AnyErr, post: None, unspec: true }],
                },
                _ => None,
            };
            if let Some(x) = new {
                node.set_mode(x);
            }
        }
        vec![then(Pat::Is(Out::Unit), m)]
    }

    fn chown(&self, p: &str, o: &ChownOpt) -> Expect {
        let a = match self.res(p) {
            Ok(a) => a,
            Err(x) => return vec![x],
        };
        if self.kind(&a).is_none() {
            return vec![same(Pat::AnyErr)];
        }
        let visits = match self.traverse(&a, o.follow, if o.recursive { usize::MAX } else { 0 }) {
            Ok(v) => v,
            Err(_) => return vec![unspec()],
        };
        let mut m = self.clone();
        for v in &visits {
            if v.is_link && o.follow && !self.link_fresh(v.via.as_ref().unwrap()) {
                return vec![unspec()];
            }
            if let Some(n) = m.t.nodes.get_mut(&v.path) {
                if v.is_link && o.follow && n.kind() == Kind::Link {
                    return vec![unspec()];
                }
                n.set_owner(o.uid, o.gid);
            }
        }
        vec![then(Pat::Is(Out::Unit), m)]
    }

    fn copy_base(&self, s: &str, d: &str) -> String {
        if self.kind(d) == Some(Kind::Dir) {
            join(d, &base(s))
        } else {
            d.to_string()
        }
    }

    fn copy(&self, sp: &str, dp: &str, o: &CopyOpt) -> Expect {
        let (s, d) = match (self.res(sp), self.res(dp)) {
            (Ok(s), Ok(d)) => (s, d),
            (Err(x), _) | (_, Err(x)) => return vec![x],
        };
        if s == d {
            return vec![same(Pat::Is(Out::Unit))];
        }
        if self.kind(&s).is_none() {
            return vec![err("Path::DoesNotExist")];
        }
        let failing = Alt { out: Pat::AnyErr, post: None, unspec: true };
        if o.follow && self.t.subtree(&s).iter().any(|p| self.kind(p) == Some(Kind::Link)) {
            return vec![unspec()];
        }
        if s == "/" {
            return vec![unspec()];
        }
        let bse = self.copy_base(&s, &d);
        if bse == s {
            return vec![same(Pat::Is(Out::Unit))];
        }
        if self.kind(&s) == Some(Kind::Dir) && is_under(&bse, &s) {
            // a directory copied into itself: refusing is admitted; a faithful snapshot copy would be too
            return vec![same(Pat::AnyErr), unspec()];
        }
        let (dir_mode, file_mode) = match o.mode.effective() {
            CopyMode::None => (None, None),
            CopyMode::All(m) => (Some(m), Some(m)),
            CopyMode::Dirs(m) => (Some(m), None),
            CopyMode::Files(m) => (None, Some(m)),
            CopyMode::Two(..) => unreachable!(),
        };
        if matches!(o.mode.effective(), CopyMode::All(0) | CopyMode::Dirs(0) | CopyMode::Files(0)) {
            return vec![unspec()];
        }
        let visits = match self.traverse(&s, false, usize::MAX) {
            Ok(v) => v,
            Err(_) => return vec![unspec()],
        };
        let mut m = self.clone();
        // create missing ancestors the way mkdir_m does, with the given mode
        fn mk_anc(m: &mut Model, p: &str, mode: u32) -> bool {
            let mut cur = String::new();
            for comp in p.split('/').filter(|c| !c.is_empty()) {
                cur = format!("{}/{}", cur, comp);
                match m.kind(&cur) {
                    Some(Kind::Dir) => {},
                    Some(_) => return false,
                    None => {
                        m.t.nodes.insert(cur.clone(), Node::new_dir(0o40000 | (mode & 0o7777)));
                    },
                }
            }
            true
        }
        let mut replaced_by_link = false;
        for v in &visits {
            let src = self.t.nodes.get(&v.path).unwrap();
            let rel = &v.path[s.len()..];
            let dst = if rel.is_empty() { bse.clone() } else { format!("{}{}", if bse == "/" { "" } else { &bse }, rel) };
            match src {
                Node::Link { target, .. } => {
                    // recreating a link needs an existing real parent; replacing a directory is unspecified
                    if m.kind(&dst) == Some(Kind::Dir) || m.kind(&parent(&dst)) != Some(Kind::Dir) {
                        return vec![unspec()];
                    }
                    // a file or link already at the link's place: the copy may be refused (anywhere in its
                    // traversal), but an Ok must mean the source link was duplicated there
                    if m.kind(&dst).is_some() {
                        replaced_by_link = true;
                        m.t.nodes.remove(&dst);
                        m.meta.remove(&dst);
                    }
                    let to_dir = m.dirish(target);
                    let tk = m.effective_kind(target);
                    m.t.nodes.insert(
                        dst.clone(),
                        Node::Link { target: target.clone(), rel: rel_text(target, &parent(&dst)), to_dir, mode: DEF_LINK, uid: DEF_UID, gid: DEF_GID },
                    );
                    // a target inside the tree being created may or may not exist yet at that moment
                    let ck = if is_under(target, &bse) { None } else { Some(tk) };
                    m.meta.insert(dst.clone(), LinkMeta { created_kind: ck, moved: false });
                },
                Node::Dir { mode, .. } => {
                    if !mk_anc(&mut m, &dst, dir_mode.unwrap_or(*mode & 0o7777)) {
                        return vec![failing];
                    }
                },
                Node::File { data, mode, uid, gid } => {
                    let par = parent(&dst);
                    if m.kind(&par).is_none() {
                        let pm = self.t.nodes.get(&parent(&v.path)).map(|n| n.mode() & 0o7777).unwrap_or(0o755);
                        if !mk_anc(&mut m, &par, dir_mode.unwrap_or(pm)) {
                            return vec![failing];
                        }
                    }
                    if m.kind(&par) != Some(Kind::Dir) {
                        return vec![failing];
                    }
                    match m.t.nodes.get_mut(&dst) {
                        Some(Node::File { data: dd, .. }) => {
                            *dd = data.clone(); // existing entry kept (mode, owner), bytes replaced
                        },
                        Some(_) => return vec![failing],
                        None => {
                            let nm = match file_mode {
                                Some(x) => 0o100000 | (x & 0o7777),
                                None => *mode,
                            };
                            m.t.nodes.insert(dst.clone(), Node::File { data: data.clone(), mode: nm, uid: *uid, gid: *gid });
                        },
                    }
                },
            }
        }
        // owner of newly created files: source's or the default, both admitted
        let mut alts = vec![then(Pat::Is(Out::Unit), m.clone())];
        let mut m2 = m.clone();
        let mut differs = false;
        for (k, n) in m2.t.nodes.iter_mut() {
            if !self.t.nodes.contains_key(k) {
                if let Node::File { uid, gid, .. } = n {
                    if (*uid, *gid) != (DEF_UID, DEF_GID) {
                        *uid = DEF_UID;
                        *gid = DEF_GID;
                        differs = true;
                    }
                }
            }
        }
        if differs {
            alts.push(then(Pat::Is(Out::Unit), m2));
        }
        if replaced_by_link {
            alts.push(failing);
        }
        alts
    }

    fn move_p(&self, sp: &str, dp: &str) -> Expect {
        let (s, d) = match (self.res(sp), self.res(dp)) {
            (Ok(s), Ok(d)) => (s, d),
            (Err(x), _) | (_, Err(x)) => return vec![x],
        };
        if self.kind(&s).is_none() {
            return vec![err("Path::DoesNotExist")];
        }
        if s == "/" {
            return vec![same(Pat::Is(Out::Unit)), same(Pat::AnyErr)];
        }
        let bse = self.copy_base(&s, &d);
        if bse == s {
            return vec![same(Pat::Is(Out::Unit)), same(Pat::AnyErr)];
        }
        if is_under(&bse, &s) {
            return vec![same(Pat::AnyErr)];
        }
        if self.kind(&parent(&bse)) != Some(Kind::Dir) {
            return vec![same(Pat::AnyErr)];
        }
        let sk = self.kind(&s).unwrap();
        let mut alts: Expect = vec![];
        // an existing destination is replaced the way rename(2) does
        match (sk, self.kind(&bse)) {
            (_, None) => {},
            (Kind::Dir, Some(Kind::Dir)) => {
                if !self.t.children(&bse).is_empty() {
                    return vec![same(Pat::AnyErr)];
                }
            },
            (Kind::Dir, Some(_)) => return vec![same(Pat::AnyErr)],
            (_, Some(Kind::Dir)) => return vec![same(Pat::AnyErr)],
            _ => {},
        }
        {
            let mut m = self.clone();
            if m.kind(&bse).is_some() {
                m.t.nodes.remove(&bse);
                m.meta.remove(&bse);
            }
            for k in self.t.subtree(&s) {
                let mut n = m.t.nodes.remove(&k).unwrap();
                let nk = format!("{}{}", if bse == "/" { "" } else { &bse }, &k[s.len()..]);
                let mut lm = m.meta.remove(&k);
                if let Node::Link { target, rel, .. } = &mut n {
                    // a relative link resolves from its new location
                    if !rel.is_empty() && !rel.starts_with('/') {
                        if let Ok(t) = abs_plain("/", &format!("{}/{}", parent(&nk), rel)) {
                            if t != *target {
                                *target = t;
                                if let Some(x) = lm.as_mut() {
                                    x.created_kind = None;
                                }
                            }
                        }
                    }
                }
                if let Some(x) = lm {
                    m.meta.insert(nk.clone(), x);
                }
                m.t.nodes.insert(nk, n);
            }
            alts.push(then(Pat::Is(Out::Unit), m));
        }
        alts
    }

    pub fn apply(&self, op: &Op) -> Expect {
        use Op::*;
        match op {
            Mkfile(p) => match self.create_check(p) {
                Err(a) => vec![a],
                Ok(a) => vec![then(Pat::Is(Out::Path(a.clone())), self.with_file(&a, |_| {}))],
            },
            MkfileM(p, mode) => match self.create_check(p) {
                Err(a) => vec![a],
                Ok(a) => {
                    if *mode == 0 {
                        return vec![unspec()];
                    }
                    let mut m = self.with_file(&a, |_| {});
                    m.t.nodes.get_mut(&a).unwrap().set_mode(0o100000 | (mode & 0o7777));
                    vec![then(Pat::Is(Out::Path(a)), m)]
                },
            },
            MkdirP(p) => self.mkdir(p, DEF_DIR),
            MkdirM(p, mode) => {
                if *mode == 0 {
                    return vec![unspec()];
                }
                self.mkdir(p, 0o40000 | (mode & 0o7777))
            },
            WriteAll(p, d) => self.write(p, d, false),
            AppendAll(p, d) => self.write(p, d, true),
            WriteH(p, c, _) => self.write(p, &c.concat(), false),
            AppendH(p, c, _) => self.write(p, &c.concat(), true),
            WriteLines(p, l) => self.lines_op(p, l, false),
            AppendLines(p, l) => self.lines_op(p, l, true),
            AppendLine(p, l) => self.lines_op(p, std::slice::from_ref(l), true),
            ReadAll(p) => match self.read_errs(p) {
                Err(a) => vec![a],
                Ok((_, data)) => match String::from_utf8(data.clone()) {
                    Ok(s) => vec![same(Pat::Is(Out::Str(s)))],
                    Err(_) => vec![same(Pat::AnyErr)],
                },
            },
            ReadLines(p) => match self.read_errs(p) {
                Err(a) => vec![a],
                Ok((_, data)) => {
                    let mut lines = vec![];
                    for l in (&data[..]).lines() {
                        match l {
                            Ok(x) => lines.push(x),
                            Err(_) => return vec![same(Pat::AnyErr)],
                        }
                    }
                    vec![same(Pat::Is(Out::Lines(lines)))]
                },
            },
            Read(p) => match self.read_errs(p) {
                Err(a) => vec![a],
                Ok((_, data)) => vec![same(Pat::Is(Out::Bytes(data.clone())))],
            },
            Exists(p) => vec![same(Pat::Is(Out::Bool(self.query_node(p).is_some())))],
            IsDir(p) => vec![same(Pat::Is(Out::Bool(self.query_node(p).map(|(_, n)| n.kind() == Kind::Dir).unwrap_or(false))))],
            IsFile(p) => vec![same(Pat::Is(Out::Bool(self.query_node(p).map(|(_, n)| n.kind() == Kind::File).unwrap_or(false))))],
            IsSymlink(p) => vec![same(Pat::Is(Out::Bool(self.query_node(p).map(|(_, n)| n.kind() == Kind::Link).unwrap_or(false))))],
            IsSymlinkDir(p) | IsSymlinkFile(p) => match self.query_node(p) {
                Some((a, Node::Link { to_dir, .. })) => {
                    if self.link_fresh(&a) {
                        let want = if matches!(op, IsSymlinkDir(_)) { *to_dir } else { !*to_dir };
                        vec![same(Pat::Is(Out::Bool(want)))]
                    } else {
                        vec![same(Pat::AnyOk)]
                    }
                },
                _ => vec![same(Pat::Is(Out::Bool(false)))],
            },
            IsExec(p) => match self.query_node(p) {
                Some((_, Node::Link { .. })) => vec![same(Pat::AnyOk)],
                Some((_, n)) => vec![same(Pat::Is(Out::Bool(n.mode() & 0o111 != 0)))],
                None => vec![same(Pat::Is(Out::Bool(false)))],
            },
            IsReadonly(p) => match self.query_node(p) {
                Some((_, Node::Link { .. })) => vec![same(Pat::AnyOk)],
                Some((_, n)) => vec![same(Pat::Is(Out::Bool(n.mode() & 0o222 == 0)))],
                None => vec![same(Pat::Is(Out::Bool(false)))],
            },
            Mode(p) => match self.res(p) {
                Err(x) => vec![x],
                Ok(a) => match self.t.nodes.get(&a) {
                    Some(n) => vec![same(Pat::Is(Out::U32(n.mode())))],
                    None => vec![err("Path::DoesNotExist")],
                },
            },
            Uid(p) | Gid(p) | Owner(p) => match self.res(p) {
                Err(x) => vec![x],
                Ok(a) => match self.t.nodes.get(&a) {
                    Some(n) => {
                        let (u, g) = n.owner();
                        vec![same(Pat::Is(match op {
                            Uid(_) => Out::U32(u),
                            Gid(_) => Out::U32(g),
                            _ => Out::Pair(u, g),
                        }))]
                    },
                    None => vec![same(Pat::AnyErr)],
                },
            },
            Entry(p) => match self.res(p) {
                Err(x) => vec![x],
                Ok(a) => match self.t.nodes.get(&a) {
                    None => vec![err("Path::DoesNotExist")],
                    Some(n) => {
                        if n.kind() == Kind::Link && (!self.link_fresh(&a) || self.meta.get(&a).map(|m| m.moved).unwrap_or(true)) {
                            return vec![same(Pat::AnyOk)];
                        }
                        let (alt, rel, dirish) = match n {
                            Node::Link { target, to_dir, rel, .. } => (target.clone(), rel.clone(), *to_dir),
                            Node::Dir { .. } => (String::new(), String::new(), true),
                            Node::File { .. } => (String::new(), String::new(), false),
                        };

                        let is_link = n.kind() == Kind::Link;
                        vec![same(Pat::Is(Out::Entry(EntryInfo {
                            path: a.clone(),
                            alt,
                            rel,
                            is_dir: dirish,
                            is_file: !dirish,
                            is_symlink: is_link,
                            is_symlink_dir: is_link && dirish,
                            is_symlink_file: is_link && !dirish,
                            is_exec: n.mode() & 0o111 != 0,
                            is_readonly: n.mode() & 0o222 == 0,
                            following: false,
                            mode: n.mode(),
                            file_name: if a == "/" { None } else { Some(base(&a)) },
                        })))]
                    },
                },
            },
            Abs(p) => match self.res(p) {
                Err(x) => vec![x],
                Ok(a) => vec![same(Pat::Is(Out::Path(a)))],
            },
            Paths(p) => self.listing(p, false, None),
            Dirs(p) => self.listing(p, false, Some(Kind::Dir)),
            Files(p) => self.listing(p, false, Some(Kind::File)),
            AllPaths(p) => self.listing(p, true, None),
            AllDirs(p) => self.listing(p, true, Some(Kind::Dir)),
            AllFiles(p) => self.listing(p, true, Some(Kind::File)),
            Entries(p) => match self.res(p) {
                Err(x) => vec![x],
                Ok(a) => {
                    if self.kind(&a).is_none() {
                        return vec![err("Path::DoesNotExist")];
                    }
                    match self.traverse(&a, false, usize::MAX) {
                        Ok(v) => vec![same(Pat::Trav(v.into_iter().map(|v| v.path).collect()))],
                        Err(_) => vec![same(Pat::Any)],
                    }
                },
            },
            Chmod(p, m) => self.chmod(p, &ChmodOpt { sel: ChmodSel::All(*m), recursive: true, follow: false }),
            ChmodB(p, o) => self.chmod(p, o),
            Chown(p, u, g) => self.chown(p, &ChownOpt { uid: Some(*u), gid: Some(*g), recursive: true, follow: false }),
            ChownB(p, o) => self.chown(p, o),
            Copy(s, d) => self.copy(s, d, &CopyOpt { mode: CopyMode::None, follow: false }),
            CopyB(s, d, o) => self.copy(s, d, o),
            MoveP(s, d) => self.move_p(s, d),
            Remove(p) => match self.res(p) {
                Err(x) => vec![x],
                Ok(a) => {
                    if a == "/" {
                        return vec![same(Pat::AnyErr)];
                    }
                    match self.kind(&a) {
                        // nothing to remove: Ok on both backends (pinned by their tests); below a
                        // non-directory the docs are silent, an error is admitted as well
                        None => vec![same(Pat::Is(Out::Unit))],
                        Some(Kind::Dir) if !self.t.children(&a).is_empty() => vec![err("Path::DirContainsFiles")],
                        Some(_) => {
                            let mut m = self.clone();
                            m.t.nodes.remove(&a);
                            m.meta.remove(&a);
                            vec![then(Pat::Is(Out::Unit), m)]
                        },
                    }
                },
            },
            RemoveAll(p) => match self.res(p) {
                Err(x) => vec![x],
                Ok(a) => {
                    if a == "/" {
                        return vec![unspec()];
                    }
                    if self.kind(&a).is_none() {
                        return vec![same(Pat::Is(Out::Unit))];
                    }
                    let mut m = self.clone();
                    for k in self.t.subtree(&a) {
                        m.t.nodes.remove(&k);
                        m.meta.remove(&k);
                    }
                    vec![then(Pat::Is(Out::Unit), m)]
                },
            },
            SetCwd(p) => match self.res(p) {
                Err(x) => vec![x],
                Ok(a) => match self.t.nodes.get(&a) {
                    None => vec![err("Path::DoesNotExist")],
                    Some(Node::File { .. }) => vec![same(Pat::AnyErr)],
                    Some(n) => {
                        let mut m = self.clone();
                        m.t.cwd = a.clone();
                        let ok = then(Pat::Is(Out::Path(a)), m);
                        match n {
                            Node::Link { to_dir: true, .. } => vec![ok, same(Pat::AnyErr)],
                            Node::Link { .. } => vec![same(Pat::AnyErr)],
                            _ => vec![ok],
                        }
                    },
                },
            },
            Cwd => vec![same(Pat::Is(Out::Path(self.t.cwd.clone())))],
            Root => vec![same(Pat::Is(Out::Path("/".into())))],
            Symlink(l, t) => {
                let la = match self.res(l) {
                    Ok(a) => a,
                    Err(x) => return vec![x],
                };
                if la == "/" {
                    return vec![same(Pat::AnyErr)];
                }
                let ta = if t.starts_with('/') {
                    abs_plain(&self.t.cwd, t)
                } else if t.is_empty() {
                    // empty relative target: joined onto the link's directory
                    abs_plain(&self.t.cwd, &parent(&la))
                } else {
                    abs_plain(&self.t.cwd, &format!("{}/{}", parent(&la), t))
                };
                let ta = match ta {
                    Ok(x) => x,
                    Err(_) => return vec![same(Pat::AnyErr)],
                };
                match self.kind(&parent(&la)) {
                    None => return vec![err("Path::DoesNotExist")],
                    Some(Kind::Dir) => {},
                    Some(_) => return vec![err("Path::IsNotDir")],
                }
                if let Some(n) = self.t.nodes.get(&la) {
                    let mut alts = vec![same(Pat::AnyErr)];
                    if let Node::Link { target, .. } = n {
                        if *target == ta {
                            alts.push(same(Pat::Is(Out::Path(la))));
                        }
                    }
                    return alts;
                }
                let mut m = self.clone();
                let tk = self.effective_kind(&ta);
                m.t.nodes.insert(
                    la.clone(),
                    Node::Link { target: ta.clone(), rel: rel_text(&ta, &parent(&la)), to_dir: tk == Some(Kind::Dir), mode: DEF_LINK, uid: DEF_UID, gid: DEF_GID },
                );
                m.meta.insert(la.clone(), LinkMeta { created_kind: Some(tk), moved: false });
                vec![then(Pat::Is(Out::Path(la)), m)]
            },
            Readlink(p) => match self.query_node(p) {
                Some((a, Node::Link { rel, .. })) => {
                    // the link text: the navigation computed at creation, kept verbatim by a move
                    if self.meta.get(&a).map(|m| m.moved).unwrap_or(true) || rel.is_empty() {
                        vec![same(Pat::AnyOk)]
                    } else {
                        vec![same(Pat::Is(Out::Path(rel.clone())))]
                    }
                },
                _ => vec![same(Pat::AnyErr)],
            },
            ReadlinkAbs(p) => match self.query_node(p) {
                Some((_, Node::Link { target, .. })) => vec![same(Pat::Is(Out::Path(target.clone())))],
                _ => vec![same(Pat::AnyErr)],
            },
            // handles that live across steps: when their bytes become visible is C07's subject
            HOpen(..) | HWrite(..) | HFlush(..) | HDrop(..) | Late(..) => vec![unspec()],
        }
    }

    /// Compare the model's tree with an observed one. Returns a difference class or None.
    pub fn diff(&self, obs: &Tree) -> Option<(String, String)> {
        for k in obs.nodes.keys() {
            if !self.t.nodes.contains_key(k) {
                return Some(("extra-entry".into(), format!("{:?} exists but should not", k)));
            }
        }
        for (k, n) in &self.t.nodes {
            let o = match obs.nodes.get(k) {
                Some(o) => o,
                None => return Some(("missing-entry".into(), format!("{:?} should exist", k))),
            };
            if o.kind() != n.kind() {
                return Some(("kind".into(), format!("{:?} is {:?} want {:?}", k, o.kind(), n.kind())));
            }
            if o.mode() != n.mode() {
                return Some((format!("mode-{:?}", n.kind()), format!("{:?} mode {:o} want {:o}", k, o.mode(), n.mode())));
            }
            if o.owner() != n.owner() {
                return Some((format!("owner-{:?}", n.kind()), format!("{:?} owner {:?} want {:?}", k, o.owner(), n.owner())));
            }
            match (n, o) {
                (Node::File { data: a, .. }, Node::File { data: b, .. }) => {
                    if a != b {
                        return Some(("bytes".into(), format!("{:?} holds {:?} want {:?}", k, String::from_utf8_lossy(b), String::from_utf8_lossy(a))));
                    }
                },
                (Node::Link { target: a, to_dir: ad, rel: ar, .. }, Node::Link { target: b, to_dir: bd, rel: br, .. }) => {
                    if a != b {
                        return Some(("link-target".into(), format!("{:?} -> {:?} want {:?}", k, b, a)));
                    }
                    if self.link_fresh(k) && ad != bd {
                        return Some(("link-recorded-kind".into(), format!("{:?} records dir={} want {}", k, bd, ad)));
                    }
                    let moved = self.meta.get(k).map(|m| m.moved).unwrap_or(true);
                    if !moved && ar != br {
                        return Some(("link-rel".into(), format!("{:?} rel {:?} want {:?}", k, br, ar)));
                    }
                },
                _ => {},
            }
        }
        if self.t.cwd != obs.cwd {
            return Some(("cwd".into(), format!("cwd {:?} want {:?}", obs.cwd, self.t.cwd)));
        }
        None
    }
}
