//! History generation: `OpSpec` values come from proptest (so they shrink); `resolve` maps the
//! selectors onto the *current model state*, which makes failing calls and compositions common.
use proptest::prelude::*;
use serde::{Deserialize, Serialize};

use crate::{fsmodel::Model, fstypes::*, refpath::*};

#[derive(Clone, Debug, Serialize, Deserialize, PartialEq)]
pub struct Sel {
    pub class: u8,
    pub idx: u16,
    pub spell: u8,
}

#[derive(Clone, Debug, Serialize, Deserialize, PartialEq)]
pub struct OpSpec {
    pub k: u8,
    pub a: Sel,
    pub b: Sel,
    pub n: u32,
    pub d: Vec<u8>,
}

#[derive(Clone, Debug)]
pub struct GenCfg {
    pub names: &'static [&'static str],
    /// keep path arguments from passing through a link as an intermediate component
    pub avoid_through_link: bool,
    /// only clean absolute / cwd-relative spellings
    pub plain_spelling: bool,
    /// allow degenerate arguments ("", root as any argument, long '..' chains)
    pub wild: bool,
    /// generate write/append handles that stay open across steps
    pub handles: bool,
}

/// three names, one a string prefix of another (textual prefix tests must not be mistaken for component tests)
pub const NAMES3: &[&str] = &["a", "ab", "b"];
/// three names of which one is a string prefix of another
pub const NAMES_PFX: &[&str] = &["a", "ab", "b"];
pub const NAMES_ADV: &[&str] = &["a", "b", "ab", "c", "é", "日本", "d e", ".hid", "x.tar.gz", "..x", "😀"];

fn sel() -> impl Strategy<Value = Sel> {
    (any::<u8>(), any::<u16>(), any::<u8>()).prop_map(|(class, idx, spell)| Sel { class, idx, spell })
}

fn data() -> impl Strategy<Value = Vec<u8>> {
    prop_oneof![
        4 => prop::collection::vec(prop::sample::select(&b"ab1\n"[..]), 0..6),
        2 => prop::collection::vec(prop::sample::select(&[0xc3u8, 0xa9, b'x', b'\n', b'\r', 0xff, 0xe6, 0x97, 0xa5][..]), 0..8),
        1 => prop::collection::vec(any::<u8>(), 0..40),
    ]
}

pub fn op_spec() -> impl Strategy<Value = OpSpec> {
    (any::<u8>(), sel(), sel(), any::<u32>(), data()).prop_map(|(k, a, b, n, d)| OpSpec { k, a, b, n, d })
}

pub fn history(max: usize) -> impl Strategy<Value = Vec<OpSpec>> {
    prop::collection::vec(op_spec(), 1..=max)
}

fn pick<'a, T>(v: &'a [T], idx: u16) -> Option<&'a T> {
    if v.is_empty() {
        None
    } else {
        // monotone map so shrinking the index moves towards the first element
        Some(&v[(idx as usize * v.len()) >> 16])
    }
}

fn spell(m: &Model, cfg: &GenCfg, abs: &str, s: u8) -> String {
    let variants = if cfg.plain_spelling { 3 } else { 8 };
    match s % variants {
        0 | 1 => abs.to_string(),
        2 => {
            // relative to cwd
            let r = ref_relative(abs, &m.t.cwd);
            if r.is_empty() {
                ".".to_string()
            } else {
                r
            }
        },
        3 => {
            let r = ref_relative(abs, &m.t.cwd);
            if r.is_empty() {
                "./".to_string()
            } else {
                format!("./{}", r)
            }
        },
        4 => {
            if abs == "/" {
                "//".to_string()
            } else {
                format!("{}/", abs.replace('/', "//"))
            }
        },
        5 => {
            // detour through a (probably missing) name
            if abs == "/" {
                "/zz/..".to_string()
            } else {
                format!("{}/zz/../{}", parent(abs).trim_end_matches('/'), base(abs))
            }
        },
        6 => {
            // detour through the parent itself
            if abs == "/" {
                "/.".to_string()
            } else {
                format!("{}/./{}", parent(abs).trim_end_matches('/'), base(abs))
            }
        },
        _ => {
            let r = ref_relative(abs, &m.t.cwd);
            if r.is_empty() {
                "../".repeat(m.t.cwd.matches('/').count().min(1)) + &ref_relative(abs, &parent(&m.t.cwd))
            } else {
                format!("{}/.", r)
            }
        },
    }
}

/// Resolve a selector to a literal path argument
pub fn resolve_path(m: &Model, cfg: &GenCfg, s: &Sel, excluded: &mut u64) -> String {
    let keys: Vec<&String> = m.t.nodes.keys().collect();
    let dirs: Vec<&String> = keys.iter().copied().filter(|k| m.kind(k) == Some(Kind::Dir)).collect();
    let files: Vec<&String> = keys.iter().copied().filter(|k| m.kind(k) == Some(Kind::File)).collect();
    let links: Vec<&String> = keys.iter().copied().filter(|k| m.kind(k) == Some(Kind::Link)).collect();
    let name = |i: u16| *pick(cfg.names, i).unwrap();
    let classes = if cfg.wild { 12 } else { 10 };
    let abs: String = match s.class % classes {
        0 | 1 => pick(&keys, s.idx).map(|k| k.to_string()).unwrap_or("/".into()),
        2 => pick(&dirs, s.idx).map(|k| k.to_string()).unwrap_or("/".into()),
        3 => pick(&files, s.idx).map(|k| k.to_string()).unwrap_or_else(|| format!("/{}", name(s.idx))),
        4 | 5 => {
            // (probably) missing child of an existing directory
            let d = pick(&dirs, s.idx).map(|k| k.to_string()).unwrap_or("/".into());
            join(&d, name(s.idx.wrapping_mul(31).wrapping_add(s.spell as u16 * 257)))
        },
        6 => {
            // missing parent
            let d = pick(&dirs, s.idx).map(|k| k.to_string()).unwrap_or("/".into());
            join(&join(&d, name(s.idx.wrapping_mul(13))), name(s.idx.wrapping_mul(7).wrapping_add(3)))
        },
        7 => {
            // below a file or a link
            let pool: Vec<&String> = files.iter().chain(links.iter()).copied().collect();
            match pick(&pool, s.idx) {
                Some(f) => join(f, name(s.idx.wrapping_mul(5))),
                None => format!("/{}", name(s.idx)),
            }
        },
        8 => pick(&links, s.idx).map(|k| k.to_string()).unwrap_or_else(|| format!("/{}", name(s.idx))),
        9 => match s.idx % 4 {
            0 => "/".to_string(),
            1 => m.t.cwd.clone(),
            2 => parent(&m.t.cwd),
            _ => format!("/{}", name(s.idx)),
        },
        10 => {
            // degenerate literal arguments, returned verbatim
            return match s.idx % 6 {
                0 => "".to_string(),
                1 => "../".repeat(1 + (s.idx as usize / 6) % 40),
                2 => ".".to_string(),
                3 => "..".to_string(),
                4 => format!("{}/../../..", name(s.idx)),
                _ => "/..".to_string(),
            };
        },
        _ => {
            let d = pick(&keys, s.idx).map(|k| k.to_string()).unwrap_or("/".into());
            join(&d, &"n".repeat(1 + (s.idx as usize % 300)))
        },
    };
    let abs = if cfg.avoid_through_link && m.through_link(&abs) {
        *excluded += 1;
        format!("/{}", name(s.idx))
    } else {
        abs
    };
    let lit = spell(m, cfg, &abs, s.spell);
    // a spelling can itself walk through a link (e.g. "../x" from a cwd below a link): keep the clean one then
    if cfg.avoid_through_link && m.through_link(&lit) {
        return abs;
    }
    lit
}

const MODES: &[u32] = &[0o644, 0o755, 0o700, 0o600, 0o555, 0o444, 0o777, 0o100, 0o1, 0o222, 0o640, 0o511, 0o1777, 0o4755, 0o464, 0o610, 0o020];
const SYMS: &[&str] = &["a:a+x", "f:u+x", "d:go-rwx", "a:o=r", "f:a-w", "d:a+x,f:a-x", "f:a+r,f:a-wx", "a:go-rwx", "a:ug=rw", "d:u=rwx,d:go=rx"];

fn lines_from(d: &[u8]) -> Vec<String> {
    // split generated bytes into "lines" without terminators
    let s: String = d.iter().map(|b| match b % 7 {
        0 => '|',
        1 => 'a',
        2 => 'é',
        3 => ' ',
        4 => 'b',
        5 => '日',
        _ => 'c',
    }).collect();
    s.split('|').map(|x| x.to_string()).collect()
}

/// Resolve a spec into a concrete call against the current model state
pub fn resolve(m: &Model, cfg: &GenCfg, s: &OpSpec, excluded: &mut u64) -> Op {
    let a = resolve_path(m, cfg, &s.a, excluded);
    let mode = MODES[(s.n as usize) % MODES.len()];
    let uid = [0u32, 1, 1000, 1001, 65534][(s.n as usize / 16) % 5];
    let gid = [0u32, 5, 1000, 1002][(s.n as usize / 128) % 4];
    let chunks = || -> (Vec<Vec<u8>>, Vec<bool>) {
        let k = 1 + (s.n as usize % 3);
        let mut cs = vec![];
        let step = (s.d.len() / k).max(1);
        let mut i = 0;
        while i < s.d.len() {
            let e = (i + step).min(s.d.len());
            cs.push(s.d[i..e].to_vec());
            i = e;
        }
        let fl = (0..cs.len()).map(|i| (s.n >> (8 + i)) & 1 == 1).collect();
        (cs, fl)
    };
    if cfg.handles && s.k >= 192 {
        let slot = (s.n % 4) as u8;
        return match s.k % 8 {
            0 | 1 => Op::HOpen(slot, s.n & 16 != 0, a),
            2 | 3 | 4 => Op::HWrite(slot, s.d.clone()),
            5 => Op::HFlush(slot),
            _ => Op::HDrop(slot),
        };
    }
    // weighted table
    match s.k % 64 {
        0 | 1 | 2 => Op::Mkfile(a),
        3 => Op::MkfileM(a, mode),
        4 | 5 | 6 => Op::MkdirP(a),
        7 => Op::MkdirM(a, mode),
        8 | 9 | 10 => Op::WriteAll(a, s.d.clone()),
        11 | 12 => Op::AppendAll(a, s.d.clone()),
        13 => Op::WriteLines(a, lines_from(&s.d)),
        14 => Op::AppendLine(a, lines_from(&s.d).into_iter().next().unwrap_or_default()),
        15 => Op::AppendLines(a, lines_from(&s.d)),
        16 => {
            let (c, f) = chunks();
            Op::WriteH(a, c, f)
        },
        17 => {
            let (c, f) = chunks();
            Op::AppendH(a, c, f)
        },
        18 => Op::ReadAll(a),
        19 => Op::ReadLines(a),
        20 => Op::Read(a),
        21 => Op::Exists(a),
        22 => Op::IsDir(a),
        23 => Op::IsFile(a),
        24 => Op::IsSymlink(a),
        25 => Op::IsSymlinkDir(a),
        26 => Op::IsSymlinkFile(a),
        27 => match s.n % 2 {
            0 => Op::IsExec(a),
            _ => Op::IsReadonly(a),
        },
        28 => Op::Mode(a),
        29 => match s.n % 3 {
            0 => Op::Uid(a),
            1 => Op::Gid(a),
            _ => Op::Owner(a),
        },
        30 => Op::Entry(a),
        31 => Op::Abs(a),
        32 => Op::Paths(a),
        33 => match s.n % 2 {
            0 => Op::Dirs(a),
            _ => Op::Files(a),
        },
        34 => Op::AllPaths(a),
        35 => match s.n % 2 {
            0 => Op::AllDirs(a),
            _ => Op::AllFiles(a),
        },
        36 => Op::Entries(a),
        37 | 38 => Op::Chmod(a, mode),
        39 | 40 => {
            let sel = match (s.n / 7) % 5 {
                0 => ChmodSel::All(mode),
                1 => ChmodSel::Dirs(mode),
                2 => ChmodSel::Files(mode),
                3 => ChmodSel::Sym(SYMS[(s.n as usize / 64) % SYMS.len()].to_string()),
                _ => ChmodSel::Mix {
                    dirs: if (s.n >> 24) & 1 == 0 { mode } else { 0 },
                    files: if (s.n >> 25) & 1 == 0 { MODES[(s.n as usize / 11) % MODES.len()] } else { 0 },
                    sym: SYMS[(s.n as usize / 64) % SYMS.len()].to_string(),
                    sym_first: (s.n >> 26) & 1 == 0,
                },
            };
            Op::ChmodB(a, ChmodOpt { sel, recursive: (s.n >> 20) & 1 == 0, follow: (s.n >> 21) & 3 == 0 })
        },
        41 => Op::Chown(a, uid, gid),
        42 => Op::ChownB(
            a,
            ChownOpt {
                uid: if (s.n >> 22) & 1 == 0 { Some(uid) } else { None },
                gid: if (s.n >> 23) & 1 == 0 { Some(gid) } else { None },
                recursive: (s.n >> 20) & 1 == 0,
                follow: (s.n >> 21) & 3 == 0,
            },
        ),
        43 | 44 | 45 => Op::Copy(a, resolve_path(m, cfg, &s.b, excluded)),
        46 => {
            let cm = match (s.n / 5) % 4 {
                0 => CopyMode::None,
                1 => CopyMode::All(mode),
                2 => CopyMode::Dirs(mode),
                _ => CopyMode::Files(mode),
            };
            Op::CopyB(a, resolve_path(m, cfg, &s.b, excluded), CopyOpt { mode: cm, follow: (s.n >> 21) & 3 == 0 })
        },
        47 | 48 | 49 => Op::MoveP(a, resolve_path(m, cfg, &s.b, excluded)),
        50 | 51 | 52 => Op::Remove(a),
        53 | 54 => Op::RemoveAll(a),
        55 | 56 => Op::SetCwd(a),
        57 => match s.n % 2 {
            0 => Op::Cwd,
            _ => Op::Root,
        },
        58 | 59 | 60 | 61 => {
            // target: absolute, or relative to the link's directory
            let t = resolve_path(m, cfg, &Sel { class: s.b.class, idx: s.b.idx, spell: 0 }, excluded);
            let t = if s.b.spell % 2 == 1 {
                match abs_plain(&m.t.cwd, &a) {
                    Ok(la) => {
                        let r = ref_relative(&t, &parent(&la));
                        if r.is_empty() {
                            ".".to_string()
                        } else {
                            r
                        }
                    },
                    Err(_) => t,
                }
            } else {
                t
            };
            Op::Symlink(a, t)
        },
        62 => Op::Readlink(a),
        _ => Op::ReadlinkAbs(a),
    }
}
